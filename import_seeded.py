#!/usr/bin/env python3
"""import_seeded.py <prop> <n> : copy a confirmed seeded change from its scratch worktree into /verif/seeded/<prop>-<n>/,
adding what was confirmed independently (seedcheck log) and which check detects it (seedrun output)."""
import sys, os, json, shutil, subprocess, re
p, n = sys.argv[1], sys.argv[2]
src = f"/tmp/wt_{p}/seeded/{n}"
dst = f"/verif/seeded/{p}-{n}"
os.makedirs(dst, exist_ok=True)
for f in os.listdir(src):
    if f in ("patch.diff", "demo.rs", "demo.sh", "meta.json"):
        shutil.copy(os.path.join(src, f), os.path.join(dst, f))
meta = {}
try:
    meta = json.load(open(os.path.join(dst, "meta.json")))
except Exception as e:
    meta = {"note": f"agent meta.json unreadable: {e}"}
log = open(f"/tmp/seedcheck_{p}_{n}.log").read()
suite = re.findall(r"test result: (\w+)\. (\d+) passed; (\d+) failed", log.split("== demo with change")[0])
demo_with = log.split("== demo with change")[1].split("== demo without change")[0] if "== demo with change" in log else ""
demo_without = log.split("== demo without change")[1] if "== demo without change" in log else ""
meta["breaks_property"] = p[:3]
meta["confirmed_by_verifier"] = {
    "what_was_run": f"/verif/seedcheck.sh {p} {n} (in the scratch worktree: full `cargo test --offline --no-fail-fast` with the patch, then the demonstration with and without the patch)",
    "suite_with_change": {"binaries": len(suite), "passed": sum(int(s[1]) for s in suite), "failed": sum(int(s[2]) for s in suite)},
    "demo_with_change": re.findall(r"test result: .*", demo_with),
    "demo_without_change": re.findall(r"test result: .*", demo_without),
}
checks = sys.argv[3:] or [p[:3]]
subprocess.run(["git", "-C", "/repo", "apply", os.path.join(dst, "patch.diff")], check=True)
det = {}
try:
    for c in checks:
        r = subprocess.run(["/verif/check", c, "quick"], capture_output=True, text=True, env=dict(os.environ, VERIF_EVIDENCE_DIR="/verif/target/seeded-evidence"))
        det[c] = {"exit": r.returncode, "violation_lines": len(re.findall(r"^VIOLATION", r.stdout, re.M)), "last_line": r.stdout.strip().split("\n")[-1][:300]}
finally:
    subprocess.run(["git", "-C", "/repo", "checkout", "--", "."], check=True)
meta["detected_by"] = det
json.dump(meta, open(os.path.join(dst, "meta.json"), "w"), indent=1)
ok = meta["confirmed_by_verifier"]["suite_with_change"]["failed"] == 0 and any("FAILED" in x for x in meta["confirmed_by_verifier"]["demo_with_change"]) and all("ok." in x for x in meta["confirmed_by_verifier"]["demo_without_change"])
print(p, n, "confirmed" if ok else "NOT CONFIRMED", {c: (d["exit"], d["violation_lines"]) for c, d in det.items()})
