#!/bin/bash
# usage: seedcheck.sh <prop> <N>   -- independently confirm a seeded change in its scratch worktree:
# full suite passes with the change, demo fails with it and passes without it.
P=$1; N=$2; WT=/tmp/wt_$P; S=$WT/seeded/$N
export CARGO_TARGET_DIR=$WT/target CARGO_NET_OFFLINE=true
cd $WT || exit 2
git checkout -q -- . ; git clean -fdq -e seeded -e target
git apply $S/patch.diff || { echo "PATCH DOES NOT APPLY"; exit 2; }
echo "== suite with change (without demo)"
cargo test --offline --no-fail-fast 2>&1 | grep -E "^test result|FAILED|failed" | sort | uniq -c
if [ -f $S/demo.rs ]; then
  cp $S/demo.rs tests/seeded_demo.rs
  echo "== demo with change"
  cargo test --offline --test seeded_demo 2>&1 | grep -E "^test result|^test .* (ok|FAILED)"
  git apply -R $S/patch.diff
  echo "== demo without change"
  cargo test --offline --test seeded_demo 2>&1 | grep -E "^test result|^test .* (ok|FAILED)"
  rm -f tests/seeded_demo.rs
else
  echo "== demo.sh present: $(ls $S)"
  git apply -R $S/patch.diff
fi
git checkout -q -- . ; git clean -fdq -e seeded -e target
