#!/usr/bin/env python3
"""usage: addfixed.py <Cxx> <commit> <what failed>  -- appends a line to the `fixed` list of known_findings.json"""
import json, sys
prop, commit, what = sys.argv[1], sys.argv[2], " ".join(sys.argv[3:])
assert len(commit) == 7
p = '/verif/known_findings.json'
d = json.load(open(p))
line = f"fixed: property={prop} {commit} {what}"
if line not in d['fixed']:
    d['fixed'].append(line)
json.dump(d, open(p, 'w'), indent=1, ensure_ascii=False)
open(p, 'a').write("\n")
print(line)
