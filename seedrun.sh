#!/bin/bash
# usage: seedrun.sh <patch> <check...>  -- apply a seeded patch to /repo, run the given checks (quick), undo it
PATCH=$1; shift
cd /repo && git diff --quiet || { echo "/repo is dirty"; exit 2; }
git -C /repo apply "$PATCH" || { echo "PATCH DOES NOT APPLY to /repo"; exit 2; }
for c in "$@"; do
  out=$(VERIF_EVIDENCE_DIR=/verif/target/seeded-evidence /verif/check $c quick 2>&1); code=$?
  echo "--- $c exit=$code: $(echo "$out" | grep -c '^VIOLATION') VIOLATION lines; $(echo "$out" | tail -1)"
  echo "$out" | grep -A3 "^VIOLATION" | head -12
done
git -C /repo checkout -- .
