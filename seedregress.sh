#!/bin/bash
# usage: seedregress.sh [id...]  -- re-runs every seeded change (or the given ones) against the checks recorded as
# detecting it, on a scratch copy of /repo's HEAD and of the harness (so /repo itself is not touched); the copy is
# removed at the end. Result lines go to /verif/target/seedregress.log: "<id> <check> exit=<code>" (1 = detected).
export CARGO_NET_OFFLINE=true
R=/tmp/regress
rm -rf $R/harness; mkdir -p $R
git -C /repo worktree remove --force $R/repo 2>/dev/null
git -C /repo worktree add --detach $R/repo HEAD >/dev/null 2>&1 || { echo "cannot create the worktree"; exit 2; }
cp -r /verif/harness $R/harness
sed -i "s|path = \"/repo\"|path = \"$R/repo\"|" $R/harness/Cargo.toml
sed -i "s|\"/repo\"|\"$R/repo\"|g" $R/harness/src/dl.rs $R/harness/src/props/c03.rs $R/harness/src/props/c12.rs
sed -i "s|join(\"darklua-bin\")|join(\"darklua-bin-regress\")|" $R/harness/src/dl.rs
LOG=/verif/target/seedregress.log
: > $LOG
IDS="$@"; [ -z "$IDS" ] && IDS=$(ls /verif/seeded)
for id in $IDS; do
  D=/verif/seeded/$id
  [ -f $D/patch.diff ] || continue
  git -C $R/repo checkout -q -- . && git -C $R/repo clean -fdq
  if ! git -C $R/repo apply $D/patch.diff 2>/dev/null; then echo "$id NOAPPLY" >> $LOG; continue; fi
  checks=$(python3 -c "
import json,re,sys
m=json.load(open('$D/meta.json'))
print(' '.join(sorted(set(re.findall(r\"'(C\d\d)': \{'exit': 1\", str(m.get('detected_by')))))))")
  if ! (cd $R/harness && CARGO_TARGET_DIR=$R/target cargo build --release --offline > $R/build.log 2>&1); then echo "$id BUILDFAIL" >> $LOG; continue; fi
  for c in $checks; do
    VERIF_EVIDENCE_DIR=$R/evidence $R/target/release/dlverif $c quick > $R/out.txt 2>&1; code=$?
    echo "$id $c exit=$code $(grep -c '^VIOLATION' $R/out.txt) $(tail -1 $R/out.txt | cut -c1-120)" >> $LOG
  done
done
git -C /repo worktree remove --force $R/repo
rm -rf $R
echo DONE >> $LOG
