#!/bin/bash
# usage: mkseed.sh <Cxx> <tag>  -- creates the scratch worktree /tmp/wt_<tag> and prints the prompt for a sub-agent that
# makes three property-breaking changes (the agent gets the property text only).
P=$1; TAG=$2; WT=/tmp/wt_$TAG
git -C /repo worktree add --detach $WT HEAD >/dev/null 2>&1 || { echo "cannot create $WT" >&2; exit 2; }
python3 - "$P" "$WT" <<'PY'
import json,sys
pid,wt=sys.argv[1],sys.argv[2]
prop=[json.loads(l) for l in open('/verif/properties.jsonl') if l.strip() and json.loads(l)['id']==pid][0]
print(f"""You are working on darklua (a Rust CLI and library that parses Lua 5.1 / Luau code into its own AST, applies configurable transformation rules and regenerates code). Your working copy is the git worktree {wt} - work ONLY inside that directory (never touch /repo or any other directory; do not look at /verif). There is no network: build with `cargo build --offline`, run the tests with `cargo test --offline` (set CARGO_TARGET_DIR={wt}/target; the full suite takes a few minutes and currently passes). There is no Lua or Luau interpreter in this sandbox.

Here is a property that darklua currently satisfies and that its users rely on:

  id: {prop['id']}
  title: {prop['title']}
  statement: {prop['statement']}
  quantified over: {prop['quantifier']['text']}
  code it is anchored in: {', '.join(prop['anchors']['files'])}

YOUR TASK: produce THREE different changes to the source code under src/, each of which BREAKS this property for some inputs while
  (a) the crate still compiles without new warnings,
  (b) the ENTIRE existing test suite still passes (`cargo test --offline`, all test binaries and doctests - run it for each change),
  (c) the change is REALISTIC: something a competent developer could commit by mistake while refactoring, optimising, simplifying, fixing another bug or adding a feature (an off-by-one, a wrong index, a reordered step, a dropped condition, a cache that is not invalidated, a shared buffer, a shortcut for a "common case" ...). No sabotage: no special-casing of magic inputs, no random behaviour, no dead code whose only purpose is to break things.
The three changes must use three DIFFERENT mechanisms in different functions (ideally different files), and each should break the property only for a part of the input space (the more subtle, the better - a change that breaks every input would be caught by the existing tests anyway).

For each change n = 1, 2, 3:
  1. start from the clean tree (`git checkout -- . && git clean -fd -e seeded -e target`),
  2. make the change, build, run the whole test suite and make sure it passes,
  3. write a demonstration `demo.rs`: a self-contained integration test (it will be copied to tests/seeded_demo.rs and run with `cargo test --offline --test seeded_demo`) that PASSES on the unmodified tree and FAILS with your change, and whose failure shows that the property is broken (not merely that some output text changed),
  4. save into {wt}/seeded/n/ : `patch.diff` (output of `git diff` for the change, applying cleanly to the clean tree), `demo.rs`, and `meta.json` = {{"property": "{prop['id']}", "summary": "what was changed, where, and why it looks innocent", "files_changed": [...], "why_property_breaks": "...", "test_suite_result_with_change": "...", "demo_result_with_change": "...", "demo_result_without_change": "..."}},
  5. restore the clean tree (keep seeded/).
Leave the tree clean at the end (only seeded/ and target/ added). Finish with a three-line summary of the changes.""")
PY
