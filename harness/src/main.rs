#![allow(dead_code)]
mod common;
mod dl;
mod explore;
mod gen;
mod luaref;
mod props;

use common::{finish, install_panic_hook, machinery_error, Tier};

fn usage() -> ! {
    eprintln!("usage: dlverif <C01..C20|selftest|replay> [--tier quick|thorough] [--replay <path>]");
    std::process::exit(2);
}

pub fn selftest(verbose: bool) -> Result<(), String> {
    let failures = luaref::vectors::run_vectors();
    if verbose {
        println!("luaref conformance vectors: {} run, {} failed", luaref::vectors::VECTORS.len(), failures.len());
    }
    if !failures.is_empty() {
        return Err(failures.join("\n"));
    }
    Ok(())
}

fn main() {
    let args: Vec<String> = std::env::args().skip(1).collect();
    if args.is_empty() {
        usage();
    }
    if args[0] == "nest" {
        install_panic_hook();
        let depth: usize = args.get(2).and_then(|d| d.parse().ok()).unwrap_or(1);
        let all_rules = args.get(3).map(|s| s == "all").unwrap_or(false);
        std::process::exit(props::c12::nest_child(args.get(1).map(|s| s.as_str()).unwrap_or(""), depth, all_rules));
    }
    let mut tier = match std::env::var("VERIF_TIER").as_deref() {
        Ok("thorough") => Tier::Thorough,
        _ => Tier::Quick,
    };
    let mut replay: Option<String> = None;
    let mut i = 1;
    while i < args.len() {
        match args[i].as_str() {
            "--tier" => {
                i += 1;
                tier = match args.get(i).map(|s| s.as_str()) {
                    Some("quick") => Tier::Quick,
                    Some("thorough") => Tier::Thorough,
                    _ => usage(),
                };
            }
            "quick" => tier = Tier::Quick,
            "thorough" => tier = Tier::Thorough,
            "--replay" => {
                i += 1;
                replay = args.get(i).cloned();
            }
            _ => usage(),
        }
        i += 1;
    }
    install_panic_hook();
    rayon::ThreadPoolBuilder::new()
        .stack_size(512 << 20)
        .build_global()
        .expect("thread pool");
    // run everything on a big-stack thread
    let cmd = args[0].clone();
    let handle = std::thread::Builder::new()
        .stack_size(1 << 30)
        .spawn(move || -> i32 {
            if cmd == "selftest" {
                return match selftest(true) {
                    Ok(()) => 0,
                    Err(e) => {
                        println!("{}", e);
                        println!("MACHINERY-ERROR luaref self-validation failed");
                        2
                    }
                };
            }
            if let Err(e) = selftest(false) {
                println!("{}", e);
                machinery_error("luaref self-validation failed");
            }
            if let Some(path) = replay {
                return props::replay(&cmd, &path);
            }
            match props::run(&cmd, tier) {
                Some(report) => finish(report),
                None => {
                    eprintln!("unknown property {}", cmd);
                    2
                }
            }
        })
        .unwrap();
    let code = handle.join().unwrap_or_else(|_| {
        println!("MACHINERY-ERROR harness panicked");
        2
    });
    std::process::exit(code);
}
