pub mod pipeline;
