//! Engine A: explicit-state exploration of the rule-pipeline transition system on real darklua ASTs.
//! state = Block (keyed by a 128-bit hash of its Debug rendering), label = rule instance, step = Rule::process.
use crate::common::debug_hash;
use crate::dl;
use darklua_core::nodes::Block;
use darklua_core::rules::Rule;
use darklua_core::Resources;
use std::collections::HashMap;

pub struct Node {
    pub block: Block,
    pub parent: Option<(u32, u16)>,
    pub depth: u16,
}

pub struct Graph {
    pub nodes: Vec<Node>,
    /// every rule application, including those that lead to an already known state
    pub edges: Vec<(u32, u16, u32)>,
    pub closed: bool,
    pub max_depth: usize,
    pub rule_errors: usize,
    /// (path of rule indices, message)
    pub panics: Vec<(Vec<usize>, String)>,
}

impl Graph {
    pub fn path(&self, mut idx: usize) -> Vec<usize> {
        let mut p = Vec::new();
        while let Some((parent, rule)) = self.nodes[idx].parent {
            p.push(rule as usize);
            idx = parent as usize;
        }
        p.reverse();
        p
    }
}

pub const TEST_PATH: &str = "src/test.lua";

pub fn explore(
    code: &str,
    preserve_tokens: bool,
    rules: &[Box<dyn Rule>],
    max_depth: usize,
    max_states: usize,
) -> Result<Graph, String> {
    let block = dl::parse(code, preserve_tokens)?;
    explore_from(block, code, rules, max_depth, max_states)
}

/// same search, starting from a given tree (e.g. the state after a fixed prefix of rules)
pub fn explore_from(block: Block, code: &str, rules: &[Box<dyn Rule>], max_depth: usize, max_states: usize) -> Result<Graph, String> {
    let resources = Resources::from_memory();
    let mut graph = Graph {
        nodes: vec![Node {
            block,
            parent: None,
            depth: 0,
        }],
        edges: Vec::new(),
        closed: true,
        max_depth: 0,
        rule_errors: 0,
        panics: Vec::new(),
    };
    let mut keys: HashMap<u128, u32> = HashMap::new();
    keys.insert(debug_hash(&graph.nodes[0].block), 0);
    let mut next = 0usize;
    while next < graph.nodes.len() {
        let depth = graph.nodes[next].depth as usize;
        if depth >= max_depth {
            // states at the depth bound are judged but not expanded
            graph.closed = false;
            next += 1;
            continue;
        }
        for (ri, rule) in rules.iter().enumerate() {
            let mut b = graph.nodes[next].block.clone();
            match dl::apply(rule.as_ref(), &mut b, code, &resources, TEST_PATH) {
                Ok(()) => {}
                Err(e) => {
                    if e.starts_with("PANIC") {
                        let mut p = graph.path(next);
                        p.push(ri);
                        graph.panics.push((p, e));
                    } else {
                        graph.rule_errors += 1;
                    }
                    continue;
                }
            }
            let key = debug_hash(&b);
            let target = match keys.get(&key) {
                Some(t) => *t,
                None => {
                    if graph.nodes.len() >= max_states {
                        graph.closed = false;
                        continue;
                    }
                    let id = graph.nodes.len() as u32;
                    keys.insert(key, id);
                    graph.nodes.push(Node {
                        block: b,
                        parent: Some((next as u32, ri as u16)),
                        depth: (depth + 1) as u16,
                    });
                    graph.max_depth = graph.max_depth.max(depth + 1);
                    id
                }
            };
            graph.edges.push((next as u32, ri as u16, target));
        }
        next += 1;
    }
    Ok(graph)
}

/// replays a rule path from a seed (no explorer): returns the block reached
pub fn replay_path(code: &str, preserve_tokens: bool, rules: &[Box<dyn Rule>], path: &[usize]) -> Result<Block, String> {
    let mut block = dl::parse(code, preserve_tokens)?;
    let resources = Resources::from_memory();
    for ri in path {
        dl::apply(rules[*ri].as_ref(), &mut block, code, &resources, TEST_PATH)?;
    }
    Ok(block)
}
