//! Luau fragments U (DESIGN.md §4): each lowering rule's construct in the syntactic positions the properties list.
use super::programs::CONTEXTS;

pub const LPRELUDE: &str = "local x = 3\nlocal m = ET\"m\"\nlocal t = {k = 1, [1] = 10, a = {b = 2}, s = \"s\"}\n";

fn prog(body: &str) -> String {
    format!("{}{}\n", LPRELUDE, body)
}

pub const COMPOUND_OPS: &[&str] = &["+=", "-=", "*=", "/=", "//=", "%=", "^=", "..="];

pub fn compound_programs(thorough: bool) -> Vec<String> {
    let targets = [
        "x",
        "g",
        "t.k",
        "t[1]",
        "t[\"k\"]",
        "t.a.b",
        "(t).k",
        "EI(t).k",
        "EI(t)[EI(\"k\")]",
        "t[EI(\"k\")]",
        "m.k",
        "m[EI(\"k\")]",
        "m[EI(1)]",
        "t[`{EI(\"k\")}`]",
        "t[`k`]",
        "EI(t).a.b",
        "EI(t).a[EI(\"b\")]",
        "t[x - 2]",
        "t[#t]",
        "t[if x then \"k\" else 1]",
        "(EI(t) :: any).k",
        "t[-EI(-1)]",
        "t[#EI(\"k\")]",
        "t[not EI(nil)]",
        "t[EI(1) + 0]",
        "t[(EI(1))]",
        "t[EI(nil) or 1]",
        "t[EI(1) and \"k\"]",
        "t[{EI(1)} and 1]",
        "t[(function() return EI(1) end)()]",
        "t[EI(\"k\") .. \"\"]",
        "t[-(-EI(1))]",
        "((EI(t))).k",
        "((EI(t)))[1]",
        "t[((EI(1)))]",
        "EI(t).a[\"b\"]",
        "t.a[(EI(\"b\"))]",
    ];
    let rhss: Vec<&str> = if thorough {
        vec!["1", "E1()", "EI(2)", "x", "t.k", "(if x then 1 else 2)", "`1`", "5 // 2", "...", "#t", "EI(t).k"]
    } else {
        vec!["1", "E1()", "EI(2)", "t.k", "(if x then 1 else 2)", "5 // 2"]
    };
    let mut out = Vec::new();
    for tg in targets {
        for op in COMPOUND_OPS {
            for rhs in &rhss {
                let pre = if tg == "g" { "g = 4\n" } else { "" };
                out.push(prog(&format!("{}{} {} {}\nreturn x, g, t.k, t[1], t.a.b", pre, tg, op, rhs)));
            }
        }
    }
    // positions: inside function bodies, loops, nested blocks, conditions
    for wrap in [
        "local function f(a) a += 1 return a end\nreturn f(1)",
        "for i = 1, 2 do x += i end\nreturn x",
        "local i = 0\nwhile i < 3 do i += 1 end\nreturn i",
        "local i = 0\nrepeat i += 1 until i >= 2\nreturn i",
        "if x then x += 1 else x -= 1 end\nreturn x",
        "do local x = 1 x += 1 end\nreturn x",
        "local f = function() t.k += 1 return t.k end\nreturn f(), f()",
        "local s = \"a\"\ns ..= \"b\" .. \"c\"\ns ..= 1\nreturn s",
        "x += 1 x += 1\nreturn x",
        "local t2 = {t = t}\nt2.t.k += 1\nt2[\"t\"][\"k\"] += 1\nreturn t.k",
        "local function g2() E1(\"g\") return t end\ng2().k += 1\ng2()[EI(\"k\")] *= 2\nreturn t.k",
        "t[EI(1)] += EI(2)\nreturn t[1]",
        // the key expression rebinds the global that the prefix names (for a local prefix Luau itself reads the
        // variable after the key, so only the global case distinguishes the orders)
        "g = {k = 1}\nlocal old = g\ng[(function() g = {k = 50} return \"k\" end)()] += 1\nreturn old.k, g.k",
        "g = {a = {k = 1}}\nlocal old = g.a\ng.a[(function() g = {a = {k = 50}} return \"k\" end)()] += 1\nreturn old.k, g.a.k",
        "local k = \"k\"\nt[k] += 1\nk = \"z\"\nreturn t.k",
        "local t3 = setmetatable({}, {__index = function(_, k) E1(\"idx\", k) return 5 end, __newindex = function(s, k, v) E1(\"new\", k, v) rawset(s, k, v) end})\nt3.a += 1\nt3.a += 1\nreturn t3.a",
    ] {
        out.push(prog(wrap));
    }
    out
}

pub fn continue_programs(thorough: bool) -> Vec<String> {
    let mut out = Vec::new();
    let bodies = [
        "if i == 2 then continue end\nE1(i)",
        "if i == 2 then continue end\nif i == 4 then break end\nE1(i)",
        "if i % 2 == 0 then continue else E1(\"odd\", i) end",
        "local v = i * 2\nif v == 4 then continue end\nE1(v)",
        "do if i == 2 then continue end end\nE1(i)",
        "if i == 1 then continue elseif i == 2 then break end\nE1(i)",
        "E1(i)\ncontinue",
        "if i == 2 then E1(\"c\") continue end\nlocal w = i\nfs[#fs + 1] = function() return w end",
        "for j = 1, 2 do if j == 2 then continue end E1(i, j) end\nif i == 2 then continue end\nE1(\"o\", i)",
        "for j = 1, 2 do if j == 1 then break end end\nif i == 2 then continue end\nE1(i)",
        "local function h() for k = 1, 2 do if k == 1 then continue end E1(\"h\", k) end end\nh()\nif i == 3 then continue end\nE1(i)",
        "while true do break end\nif i == 2 then continue end\nE1(i)",
        "repeat local z = i until true\nif i == 2 then continue end\nE1(i)",
        "if i == 2 then\n  if x then continue end\nend\nE1(i)",
        "local r = (function() return i end)()\nif r == 2 then continue end\nE1(r)",
        "local mk = function() return function() return i end end\nif i == 2 then continue end\nE1(mk()())",
        "if i == 2 then continue end\nlocal mk = function() return function() return function() return i end end end\nE1(mk()()())",
        "local mk = function() local function inner() return function() return i end end return inner end\nE1(mk()()())\nif i == 3 then continue end\nE1(i)",
        "function t.fn() return i end\nif i == 2 then continue end\nE1(t.fn())",
        "function t:meth() return self.k end\nif i == 2 then continue end\nE1(t:meth())",
        "function gfn() return i end\nif i == 2 then continue end\nE1(gfn())",
        "function t.a.fn2(v: number): number return v end\nif i == 2 then continue end\nE1(t.a.fn2(i))",
        "local function lf() return i end\nif i == 2 then continue end\nE1(lf())",
        "local o = {}\nfunction o.f() for k = 1, 2 do if k == 1 then continue end E1(\"k\", k) end end\no.f()\nif i == 2 then continue end\nE1(i)",
        "if i == 1 then function t.late() return 1 end continue end\nE1(i)",
    ];
    for b in bodies {
        out.push(prog(&format!("local fs = {{}}\nfor i = 1, 4 do\n{}\nend\nreturn #fs", b)));
        out.push(prog(&format!("local fs = {{}}\nfor _, i in ipairs({{1, 2, 3, 4}}) do\n{}\nend\nreturn #fs", b)));
        out.push(prog(&format!("local fs = {{}}\nlocal i = 0\nwhile i < 4 do\ni = i + 1\n{}\nend\nreturn #fs", b)));
        out.push(prog(&format!("local fs = {{}}\nlocal i = 0\nrepeat\ni = i + 1\n{}\nuntil i >= 4\nreturn #fs", b)));
    }
    // repeat ... until reading locals declared in the body before the continue
    for body in [
        "local done = i >= 3\nif i == 2 then continue end\nE1(i)",
        "local done = i >= 3\nif done then continue end\nE1(i)",
        "local done = i >= 3\nlocal other = i\nif i == 1 then continue end\nE1(other)",
        "local done = false\nif i >= 3 then done = true continue end\nE1(i)",
        "local done = i >= 3\nif i == 2 then break end\nif i == 1 then continue end\nE1(i)",
    ] {
        out.push(prog(&format!("local i = 0\nrepeat\ni = i + 1\n{}\nuntil done\nreturn i", body)));
        out.push(prog(&format!("local i = 0\nrepeat\ni = i + 1\n{}\nuntil done or i > 5\nreturn i", body)));
    }
    if thorough {
        // nested loops each with continue and break
        for outer in ["for i = 1, 3 do", "local i = 0 while i < 3 do i = i + 1", "local i = 0 repeat i = i + 1"] {
            for inner in ["for j = 1, 3 do", "local j = 0 while j < 3 do j = j + 1", "local j = 0 repeat j = j + 1"] {
                for ib in ["if j == 2 then continue end", "if j == 2 then break end", "if j == 1 then continue end if j == 3 then break end"] {
                    for ob in ["if i == 2 then continue end", "if i == 2 then break end", ""] {
                        let iend = if inner.contains("repeat") { "until j >= 3" } else { "end" };
                        let oend = if outer.contains("repeat") { "until i >= 3" } else { "end" };
                        out.push(prog(&format!("{}\n{}\n{}\nE1(i, j)\n{}\n{}\nE1(\"o\", i)\n{}\nreturn 0", outer, inner, ib, iend, ob, oend)));
                    }
                }
            }
        }
    }
    out
}

pub fn if_expr_fragments(thorough: bool) -> Vec<String> {
    let conds: Vec<&str> = if thorough { vec!["true", "false", "nil", "x", "EF()", "E1()", "EN()", "m", "x == 3"] } else { vec!["true", "nil", "x", "EF()", "E1()"] };
    let vals: Vec<&str> = if thorough { vec!["1", "false", "nil", "E1()", "EF()", "E0()", "...", "\"s\"", "{}", "x"] } else { vec!["1", "false", "nil", "E1()", "EF()", "..."] };
    let mut out = Vec::new();
    for c in &conds {
        for a in &vals {
            for b in &vals {
                out.push(format!("if {} then {} else {}", c, a, b));
            }
        }
    }
    // elseif chains
    let small = ["1", "false", "nil", "E1()"];
    for c1 in ["nil", "x", "EF()"] {
        for c2 in ["nil", "x", "EN()"] {
            for a in small {
                for b in small {
                    out.push(format!("if {} then {} elseif {} then {} else 9", c1, a, c2, b));
                }
            }
            for c3 in ["nil", "true"] {
                out.push(format!("if {} then 1 elseif {} then 2 elseif {} then 3 else 4", c1, c2, c3));
                out.push(format!("if {} then false elseif {} then nil elseif {} then E1(3) else E1(4)", c1, c2, c3));
            }
        }
    }
    // nesting
    out.push("if x then (if nil then 1 else 2) else 3".to_owned());
    out.push("if (if x then nil else 1) then 1 else 2".to_owned());
    out.push("if x then if nil then 1 else false else 3".to_owned());
    out.push("(if x then E1 else EF)()".to_owned());
    out.push("(if nil then t else m).k".to_owned());
    out.push("1 + if x then 1 else 2".to_owned());
    out.push("if x then 1 else 2 + 1".to_owned());
    out.push("not if x then nil else 2".to_owned());
    out.push("#if x then \"ab\" else \"c\"".to_owned());
    out.push("if x then function() return 1 end else nil".to_owned());
    out.push("{if x then 1 else 2, if nil then 1 else 2}".to_owned());
    out.push("`{if x then 1 else 2}`".to_owned());
    out
}

pub fn if_expr_programs(thorough: bool) -> Vec<String> {
    let mut out = Vec::new();
    let contexts: Vec<&str> = if thorough { CONTEXTS.to_vec() } else { vec![CONTEXTS[0], CONTEXTS[1], CONTEXTS[3], CONTEXTS[4], CONTEXTS[6], CONTEXTS[8], CONTEXTS[10], CONTEXTS[12], CONTEXTS[15]] };
    for f in if_expr_fragments(thorough) {
        for c in &contexts {
            out.push(prog(&c.replace('@', &f)));
        }
    }
    out
}

pub fn interp_programs(_thorough: bool) -> Vec<String> {
    let mut out = Vec::new();
    let holes = ["1", "x", "\"s\"", "nil", "true", "false", "1.5", "E1()", "EF()", "EI(\"a\")", "t.k", "t.s", "#t", "x + 1", "`in{x}`", "(if x then 1 else 2)", "...", "EI(1), EI(2)"];
    for h in holes {
        if h.contains(", ") {
            continue;
        }
        for shape in ["`{@}`", "`a{@}`", "`{@}b`", "`a{@}b`", "`{@}{@}`", "`%{@}%s`", "`a\\{{@}\\}`", "`\\n{@}\\``"] {
            let s = shape.replace('@', h);
            out.push(prog(&format!("return {}", s)));
        }
    }
    for p in [
        "return ``, `plain`, `%d%s%%`, `a\\tb`, `\\u{48}`",
        "E1(`a{x}`)\nE1(`lit`)\nreturn 0",
        "local s = `{x}`\nreturn s, #`{x}{x}`",
        "return { `k{x}` , [`k`] = `{x}` }",
        "return (`a{x}`):upper(), (`{x}`):rep(2)",
        "local tostring = function(v) E1(\"shadow\", v) return \"S\" end\nreturn `{x}`, `a{x}b`",
        "local string = {format = function(...) E1(\"shadow\", ...) return \"F\" end}\nreturn `{x}`, `a{x}b`",
        "local function f(tostring) return `{tostring}a` end\nreturn f(5)",
        "local function f(string) return `{string}a` end\nreturn f(5)",
        "local o = setmetatable({}, {__tostring = function() E1(\"ts\") return \"O\" end})\nreturn `{o}`, `a{o}b`",
        "return `{EI(1)}{EI(2)}{EI(3)}`",
        // values converted by `__tostring` next to values with effects: every value is evaluated before any is converted
        "return `{m}{E1()}`",
        "return `{E1()}{m}`",
        "return `a{m}b{m}c{EI(1)}`",
        "local o = setmetatable({n = 0}, {__tostring = function(self) return \"n=\" .. self.n end})\nlocal function bump() o.n = o.n + 1 return o.n end\nreturn `{o} {bump()}`, `{bump()} {o}`",
        "return `{`{`{x}`}`}`",
        "for i = 1, 2 do E1(`i={i}`) end\nreturn 0",
        "if `{x}` == \"3\" then return 1 end\nreturn 2",
        "return `{x}` .. `{x}`, `a` .. \"b\"",
        "return `{true and x}`, `{nil or \"d\"}`",
        "return `{ {1} }` ~= nil",
    ] {
        out.push(prog(p));
    }
    out
}

pub fn floor_div_programs(thorough: bool) -> Vec<String> {
    let mut out = Vec::new();
    let ls = ["7", "-7", "7.5", "-7.5", "0", "-0", "1/0", "x", "EI(7)", "\"7\""];
    let rs = ["2", "-2", "0.5", "0", "x", "EI(2)", "1/0", "\"2\""];
    for a in ls {
        for b in rs {
            out.push(prog(&format!("return {} // {}, 1 / ({} // {})", a, b, a, b)));
        }
    }
    for p in [
        "return 7 // 2 // 2, 2 ^ 3 // 2, -7 // 2, 7 // 2 * 3, 7 + 9 // 2, (7 // 2)",
        "x //= 2\nreturn x",
        "t.k //= 0.3\nt[EI(1)] //= EI(3)\nreturn t.k, t[1]",
        "local math = {floor = function(v) E1(\"shadow\", v) return 99 end}\nreturn 7 // 2",
        "local math = nil\nreturn 7 // 2",
        "local function f(math) return 7 // 2 end\nreturn f(1)",
        "local floor = 1\nreturn 7 // 2",
        "for i = 10 // 3, 20 // 3 do E1(i // 2) end\nreturn 0",
        "return E1(7 // 2), {7 // 2}, #t // 1",
        "if 7 // 2 == 3 then return 1 end\nreturn 2",
        "return EI(7) // EI(2) // EI(1)",
        "return `{7 // 2}`",
        "return if 7 // 2 > 3 then 1 else 7 // 3",
    ] {
        out.push(prog(p));
    }
    if thorough {
        for c in CONTEXTS {
            out.push(prog(&c.replace('@', "EI(7) // EI(2)")));
            out.push(prog(&c.replace('@', "7 // 2")));
        }
    }
    out
}

pub fn number_programs() -> Vec<String> {
    let mut out = Vec::new();
    for n in ["0b101", "0B11", "1_000", "1_0.5_0", "0x_FF", "0xFF_FF", "1e1_0", "0b1111_0000", "1__0", "0X1f", "1_000e3", "0b0", "0x0_", "1_"] {
        out.push(prog(&format!("return {}, {} + 1, -{}, {{{}}}", n, n, n, n)));
        out.push(prog(&format!("local a: number = {}\nt[{}] = 1\nreturn a, t[{}]", n, n, n)));
    }
    out
}

pub fn const_programs() -> Vec<String> {
    [
        "const a = 1\nreturn a",
        "const a, b = E1()\nreturn a, b",
        "const function f() return 1 end\nreturn f()",
        "const a = 1\ndo const a = 2 E1(a) end\nreturn a",
        "const function f(n) if n == 0 then return 0 end return f(n - 1) end\nreturn f(2)",
        "const a: number = 1\nconst t2 = {a}\nreturn t2[1]",
        "local const = 5\nreturn const",
        "const f = function() const g = 2 return g end\nreturn f()",
        "for i = 1, 2 do const v = i E1(v) end\nreturn 0",
    ]
    .iter()
    .map(|p| prog(p))
    .collect()
}

pub fn type_programs() -> Vec<String> {
    [
        "local a: number = 1\nlocal b: string, c: boolean? = \"s\", nil\nreturn a, b, c",
        "local function f(a: number, b: string?, ...: any): (number, ...any) return a, b, ... end\nreturn f(1, nil, 3)",
        "local function f<T, U...>(a: T, ...: U...): T return a end\nreturn f(1, 2)",
        "type A = number\ntype B<T> = {T}\nexport type C = {a: number, [string]: boolean}\nlocal v: B<A> = {1}\nreturn v[1]",
        "return (E1() :: any), (x :: number) + 1, ({} :: {number})",
        "return E1() :: any",
        "local a = E1() :: any\nreturn a",
        "local v = (t :: any).k :: number\nreturn v",
        "for i: number = 1, 2 do E1(i) end\nfor k: number, v: number in ipairs({5}) do E1(k, v) end\nreturn 0",
        "local f: (number) -> number = function(n: number): number return n end\nreturn f(1)",
        "local v: typeof(x) = x\nlocal w: typeof(t.k) | nil = nil\nreturn v, w",
        "local o = {}\nfunction o.m(self: typeof(o), n: number): number return n end\nfunction o:n(v: number?) return v end\nreturn o:m(1), o:n(2)",
        "type F = (a: number, b: string) -> (number, string)\ntype G = typeof(E1)\ntype U = \"a\" | \"b\" | nil\ntype I = {a: number} & {b: string}\nreturn 1",
        "local a = if x then (1 :: number) else (2 :: any)\nreturn a",
        "local s = `{x :: number}`\nreturn s",
        "local t2: {[number]: string} = {}\nt2[1] = \"a\" :: string\nreturn t2[1]",
        "return (function(a: number): number return a end)(1)",
        "local function v(...: number) return ... end\nreturn v(1, 2) :: any",
        "type function tf(a) return a end\nreturn 1",
        "local a: {x: number, y: {z: string}} = {x = 1, y = {z = \"s\"}}\nreturn a.y.z",
        "local function gen<T>(v: T): T return v end\nreturn gen<<number>>(1)",
    ]
    .iter()
    .map(|p| prog(p))
    .collect()
}
