pub mod layouts;
pub mod luau;
pub mod programs;
pub mod refactor;
pub mod trees;
