pub mod programs;
