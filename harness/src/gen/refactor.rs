//! Seeds for the optional refactoring rules (C16).
use super::programs::PRELUDE;

fn prog(body: &str) -> String {
    format!("{}{}\n", PRELUDE, body)
}

pub const LOCAL_STATEMENTS: &[&str] = &[
    "local a = 1",
    "local a = E1()",
    "local a, b = E1()",
    "local a = 1, 2",
    "local a = 1, E1()",
    "local a, b = 1",
    "local a, b = 1, 2",
    "local b = a",
    "local b = 3",
    "local a = a",
    "local a",
    "local a, b",
    "local c = function() return a end",
    "local c = function() return b end",
    "local b = function() return b end",
    "local a = (E1())",
    "local a = ...",
    "local a, b = ...",
    "local b = EI(a)",
    "local a = EI(1)",
    "local b = EI(2)",
    "local a = nil",
    "local b = {a}",
    "local b = x",
    "local x = 4",
    "local a = t.k",
    "local b = m.k",
    "local a = m.k",
    "local a: number = 1",
    "const a = 1",
    // declarations of both kinds followed by an assignment (a const binding cannot be assigned)
    "const b = 2",
    "const a, b = 1, 2",
    "b = (b or 0) + 1",
    "a = 5",
    // a nested function whose parameter shadows the name, before a real read of it
    "local b = {(function(a) return a end)(5), a}",
    "local b = {function(a) return a end, a}",
    "local c = function() local f = function(a) return a end return f(6), a end",
];

/// all sequences of `n` consecutive local declarations followed by an observation of the names
pub fn local_sequences(n: usize) -> Vec<String> {
    fn seqs(n: usize) -> Vec<String> {
        if n == 0 {
            return vec![String::new()];
        }
        let rest = seqs(n - 1);
        let mut out = Vec::new();
        for s in LOCAL_STATEMENTS {
            for r in &rest {
                out.push(if r.is_empty() { s.to_string() } else { format!("{}\n{}", s, r) });
            }
        }
        out
    }
    let mut out = Vec::new();
    for s in seqs(n) {
        out.push(prog(&format!("local function wrap(...)\n{}\nreturn a, b, x, type(c) == \"function\" and c()\nend\nreturn wrap(7, 8)", s)));
        // the same names assigned afterwards: a declaration must not have become constant
        if !s.contains("const a") {
            out.push(prog(&format!("local function wrap(...)\n{}\na = a\nreturn a, b, x, type(c) == \"function\" and c()\nend\nreturn wrap(7, 8)", s)));
        }
        if !(s.contains("const b") || s.contains("const a, b")) {
            out.push(prog(&format!("local function wrap(...)\n{}\nb = b\nreturn a, b, x, type(c) == \"function\" and c()\nend\nreturn wrap(7, 8)", s)));
        }
    }
    out
}

pub fn function_programs() -> Vec<String> {
    [
        "local function f(n) if n == 0 then return 0 end return n + f(n - 1) end\nreturn f(3)",
        "local function f() return f end\nreturn f() == f",
        "local function a(n) if n == 0 then return \"a\" end return b(n - 1) end\nfunction b(n) return a(n) end\nreturn a(2)",
        "local a, b\nfunction a(n) if n == 0 then return \"a\" end return b(n - 1) end\nfunction b(n) if n == 0 then return \"b\" end return a(n - 1) end\nreturn a(3), b(3)",
        "local function f(f) return f end\nreturn f(5)",
        "local function f(...) return ... end\nreturn f(1, 2)",
        "local function f(a, ...) return select(\"#\", ...), a end\nreturn f(1, 2, 3)",
        "local f = 1\nlocal function f() return f end\nreturn type(f())",
        "local function f() return 1 end\nlocal function g() return f() + 1 end\nreturn g()",
        "local function unused() end\nreturn 1",
        "function g() return 1 end\nreturn g()",
        "function g(a, ...) return a, ... end\nreturn g(1, 2)",
        "local o = {}\nfunction o.f(a) return a end\nreturn o.f(1)",
        "local o = {}\nfunction o:m(a) return self == o, a end\nreturn o:m(1)",
        "local o = {a = {b = {}}}\nfunction o.a.b.f(v) return v end\nfunction o.a.b:m(v) return self == o.a.b, v end\nreturn o.a.b.f(1), o.a.b:m(2)",
        "local o = {}\nfunction o:m(...) return self, ... end\nreturn select(\"#\", o:m(1, 2))",
        "local o = {}\nfunction o:m(self2) return self2 end\nreturn o:m(5)",
        "local o = {}\nfunction o.self(self) return self end\nreturn o.self(3)",
        "local o = {}\nfunction o:set(self, value) return self, value end\nreturn o:set(1, 2)",
        "local o = {a = {b = {}}}\nfunction o.a.b:push(value, self) return value == o.a.b, self end\nreturn o.a.b:push(5)",
        "local o = {}\nfunction o:m(self, self) return self end\nreturn o:m(1, 2)",
        "local o = {}\nfunction o:v(...) local self = ... return self end\nreturn o:v(4)",
        "local o = {}\nfunction o:w(a) local function self() return a end return self() end\nreturn o:w(6)",
        "local o = {}\nfunction o.plain(self, value) return self, value end\nreturn o.plain(1, 2), o:plain(3)",
        "function m.f(a) return a end\nreturn 1",
        "function m:g(a) return a end\nreturn 1",
        "function t.k2(a) return a end\nfunction t:k3() return self.k end\nreturn t.k2(1), t:k3()",
        "local function f() return 1 end\nf = nil\nreturn f",
        "local g2 = function() return 2 end\nlocal function h() return g2() end\nreturn h()",
        "local function outer()\n  local function inner(n) if n > 0 then return inner(n - 1) end return \"done\" end\n  return inner(2)\nend\nreturn outer()",
        "do local function f() return 1 end E1(f()) end\nreturn 1",
        "local function f<T>(a: T): T return a end\nreturn f(1)",
        "local function walk(n) local g = function(walk) return walk end if n > 0 then return walk(n - 1) end return g(\"done\") end\nreturn walk(2)",
        "local function walk(n) local t2 = {function(walk) return walk end, walk} if n > 0 then return t2[2](n - 1) end return t2[1](\"done\") end\nreturn walk(2)",
        "@native local function nf() return 1 end\nreturn nf()",
        "const function cf() return 1 end\nreturn cf()",
        "function g3() function g4() return 4 end return g4() end\nreturn g3(), g4()",
        "local self = 1\nlocal o = {}\nfunction o:m() return self == o end\nreturn o:m(), self",
        "local o = {}\nfunction o:m() local function inner() return self end return inner() == o end\nreturn o:m()",
    ]
    .iter()
    .map(|p| prog(p))
    .collect()
}

pub fn method_call_programs() -> Vec<String> {
    let mut out = Vec::new();
    let setup = "local o = {v = 1, m = function(self, a, ...) E1(\"m\", self.v, a) return self.v, a, ... end}\nlocal s = \"str\"\n";
    for call in [
        "o:m()",
        "o:m(1)",
        "o:m(1, 2)",
        "o:m(E1())",
        "o:m(...)",
        "o:m\"s\"",
        "o:m{}",
        "(o):m(1)",
        "EI(o):m(1)",
        "((o)):m(1)",
        "((EI(o))):m(1)",
        "(((EI(o)))):m()",
        "((EI(o))).m(o, 2)",
        "(EI(o) :: any):m(1)",
        "({EI(o)})[1]:m(1)",
        "t.a:m2(EI(1))",
        "EI(t).a:m2()",
        "t[EI(\"a\")]:m2()",
        "({v = 2, m = o.m}):m(1)",
        // receivers that are literals with something to evaluate inside
        "({v = EI(2), m = o.m}):m(1)",
        "({v = 2, m = EI(o.m), E1()}):m(E1(3))",
        "(`a{EI(1)}`):rep(2)",
        "(`{E1()}{E1(2)}`):len()",
        "({EI(s)})[1]:rep(2)",
        "s:rep(2)",
        "s:upper()",
        "(\"lit\"):rep(2)",
        "(s):len()",
        "o.m(o, 1)",
        "m:f(1)",
        "m:f()",
        "t.a:m2()",
        "o:m(o:m(2))",
        "(EI(t).a):m2()",
        "((EI(t)).a):m2()",
        "(EI(t)[\"a\"]):m2()",
        "(t.a):m2()",
        "(EI(o)).m(EI(o), 3)",
        "o:m(1):rep(1)",
    ] {
        for ctx in ["return @", "@\nreturn 1", "local r = @\nreturn r", "return (@)", "E1(@)", "if @ then return 1 end", "return {@}"] {
            if ctx == "@\nreturn 1" && call == "o.m(o, 1)" {}
            let body = ctx.replace('@', call);
            out.push(prog(&format!("{}t.a = {{b = 5}}\nt.a.m2 = function(self) return self.b end\n{}", setup, body)));
        }
    }
    // shadowing of the receiver
    for p in [
        "local o = {m = function(self) return 1 end}\ndo local o = {m = function(self) return 2 end} E1(o:m()) end\nreturn o:m()",
        "local o = {m = function(self) return self end}\nlocal function f(o) return o:m() end\nreturn f({m = function() return 9 end})",
        "local o = {m = function(self) return self end}\nfor _, o in ipairs({{m = function() return 3 end}}) do E1(o:m()) end\nreturn o:m() == o",
        "o = {m = function(self) return self == o end}\nreturn o:m()",
        "local o = setmetatable({}, {__index = function(s, k) E1(\"idx\", k) return function(self2) return self2 == s end end})\nreturn o:m()",
    ] {
        out.push(prog(p));
    }
    out
}

pub fn sqrt_programs() -> Vec<String> {
    let mut out = Vec::new();
    let args = ["0", "-0", "1", "4", "2.25", "-1", "1/0", "-1/0", "\"4\"", "E1()", "EI(9)", "...", "x", "x + 1", "2 ^ 2", "-x", "x, 2", "", "nil", "{}", "m"];
    for a in args {
        for ctx in ["return math.sqrt(@)", "math.sqrt(@)\nreturn 1", "local r = math.sqrt(@)\nreturn r", "return math.sqrt(@) + 1, 2 ^ math.sqrt(@), -math.sqrt(@)", "return 1 / math.sqrt(@)", "E1(math.sqrt(@))", "return (math.sqrt(@))"] {
            out.push(prog(&ctx.replace('@', a)));
        }
    }
    for p in [
        "local math = {sqrt = function(v) E1(\"shadow\", v) return 7 end}\nreturn math.sqrt(4)",
        "local function f(math) return math.sqrt(4) end\nreturn f({sqrt = function() return 5 end})",
        "local sqrt = math.sqrt\nreturn sqrt(4)",
        "return math.sqrt(math.sqrt(16))",
        "return math[\"sqrt\"](4)",
        "return (math).sqrt(4)",
        "return math.sqrt(4, E1())",
        "return math.sqrt(E1(), E1(2))",
        "for i = 1, math.sqrt(4) do E1(i) end\nreturn 1",
        "return `{math.sqrt(4)}`",
        "math.sqrt(E1())\nmath.sqrt(x)\nmath.sqrt(t.k)\nmath.sqrt(m.k)\nreturn 1",
        "math.sqrt(m.k, E1())\nreturn 1",
    ] {
        out.push(prog(p));
    }
    out
}
