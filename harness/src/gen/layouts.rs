//! Layout alphabets (DESIGN.md §4): templates covering every node kind, deviated by trivia insertions and literal spellings.
use crate::luaref::lexer::{lex, Mode, Tok};

/// canonical single-space templates; together they contain every statement, expression and type node kind
pub const TEMPLATES: &[&str] = &[
    "local a = 1",
    "local a , b = 1 , 2",
    "local a",
    "a = 1",
    "a , b . c , d [ 1 ] = 1 , 2 , 3",
    "a += 1",
    "a . b ..= \"s\"",
    "a [ 1 ] //= 2",
    "f ( )",
    "f ( 1 , 2 )",
    "f \"s\"",
    "f { 1 }",
    "f [[s]]",
    "a . b : c ( 1 )",
    "a : b \"s\"",
    "do end",
    "do local a = 1 end",
    "while true do break end",
    "while a do f ( ) end",
    "repeat f ( ) until a",
    "repeat local a = 1 until a",
    "if a then f ( ) end",
    "if a then f ( ) else g ( ) end",
    "if a then f ( ) elseif b then g ( ) else h ( ) end",
    "if a then elseif b then end",
    "for i = 1 , 2 do f ( i ) end",
    "for i = 1 , 2 , 3 do end",
    "for k , v in pairs ( t ) do f ( k , v ) end",
    "for k in next , t do continue end",
    "function f ( ) end",
    "function f ( a , b , ... ) return a , b , ... end",
    "function a . b . c ( ) end",
    "function a . b : c ( x ) return self end",
    "local function f ( ) end",
    "local function f ( a ) return f ( a ) end",
    "return",
    "return 1",
    "return 1 , 2",
    "return nil , true , false , ... ",
    "return a . b , a [ 1 ] , a [ \"k\" ] , a . b . c",
    "return f ( ) , f ( ) ( ) , f ( ) . a , f ( ) [ 1 ] , ( f ) ( )",
    "return ( a ) , ( ( a ) ) , ( f ( ) )",
    "return - a , not a , # a , - - a , not not a",
    "return a + b - c * d / e // f % g ^ h .. i",
    "return a == b , a ~= b , a < b , a <= b , a > b , a >= b",
    "return a and b or c",
    "return ( a + b ) * c , a + ( b * c ) , ( a .. b ) .. c , 2 ^ - 3",
    "return { }",
    "return { 1 , 2 , 3 }",
    "return { 1 ; 2 ; }",
    "return { a = 1 , [ \"b\" ] = 2 , [ 3 ] = 4 , 5 , }",
    "return { { } , { { } } }",
    "return function ( ) end",
    "return function ( a , ... ) return ... end",
    "return if a then 1 else 2",
    "return if a then 1 elseif b then 2 else 3",
    "return `a`",
    "return `a{ b }c`",
    "return `{ a }{ b }`",
    "return `a{ `b{ c }` }`",
    // a table first in an interpolated value: `{{` must never be written
    "return `{ { a } }`",
    "return `a{ { } }b{ { a , b } }`",
    "return a :: number",
    "return ( a :: any ) . b",
    "return \"s\" , 's' , [[s]] , [==[s]==]",
    "return 1 , 1.5 , 0x1F , 0b101 , 1e3 , 1_000 , .5 , 5.",
    "local a : number = 1",
    "local a : number , b : string = 1 , \"s\"",
    "local a : number ? = nil",
    "local a : { number } = { }",
    // access modifiers: kept on properties and indexers, an array type with one is refused (never thinned)
    "local a : { read number } = { }",
    "local a : { write number } = { }",
    "local a : { read x : number , write [ string ] : number } = { }",
    "local a : { x : number , y : string } = t",
    "local a : { [ string ] : number } = t",
    "local a : ( number , string ) -> boolean = f",
    "local a : ( ) -> ( ) = f",
    "local a : ( x : number ) -> ( number , string ) = f",
    "local a : ( ... number ) -> ... string = f",
    "local a : number | string = 1",
    "local a : A & B = t",
    "local a : | number | string = 1",
    "local a : typeof ( b ) = b",
    "local a : M . T = t",
    "local a : Array < number > = t",
    "local a : Map < string , { number } > = t",
    "local a : \"lit\" | true | false | nil = nil",
    "local a : ( number ) = 1",
    "function f ( a : number , b : string ? ) : boolean return true end",
    "function f ( ... : number ) : ... string return ... end",
    "function f < T > ( a : T ) : T return a end",
    "function f < T , U ... > ( a : T , ... : U ... ) : ( T , U ... ) return a , ... end",
    "local function f < T > ( a : T ) : ( ) end",
    "type A = number",
    "export type A = { x : number }",
    "type A < T > = { T }",
    "type A < T = number , U ... = ... string > = ( T ) -> U ...",
    "type F = < T > ( T ) -> T",
    "type T = { read x : number , write y : string }",
    "type function f ( a ) return a end",
    "for i : number = 1 , 2 do end",
    "for k : string , v : number in pairs ( t ) do end",
    "const a = 1",
    "const function f ( ) end",
    "@native function f ( ) end",
    "@native local function f ( ) end",
    "local f = @native function ( ) end",
    "return f < < number > > ( 1 )",
    "a ( ) ; b ( ) ;",
    "local a = 1 ; local b = 2",
    "f ( ) . x = 1",
    "( f ) ( ) ; ( g ) ( )",
    "local t = { [ [[k]] ] = 1 }",
    "local s = t [ [[k]] ]",
    "local s = # [[abc]]",
    // statements ending in every kind of value, followed by a statement that starts with a parenthese
    "local s = `a{ b }`\n( g ) ( )",
    "local s = `a`\n( g ) ( )",
    "local s = 'str'\n( g ) ( )",
    "local s = [[str]]\n( g ) ( )",
    "local s = 1\n( g ) ( )",
    "local s = { }\n( g ) ( )",
    "local s = function ( ) end\n( g ) ( )",
    "local s = nil\n( g ) ( )",
    "local s = true\n( g ) ( )",
    "local s = ...\n( g ) ( )",
    "local s = a :: T\n( g ) ( )",
    "local s = if a then b else `c`\n( g ) ( )",
    "local s = - 1\n( g ) ( )",
    "local s = a .. `c`\n( g ) ( )",
    "s = `a{ b }`\n( g ) ( )",
    "s ..= `a{ b }`\n( g ) ( )",
    "repeat until `a`\n( g ) ( )",
    "local s\n( g ) ( )",
    "local s : T\n( g ) . x = 1",
    "type T = U\n( g ) ( )",
    "local s = a\n; ( g ) ( )",
    "local s = f ( )\n; ( g ) ( )",
    // a semicolon after the last statement of a block
    "return 1 ;",
    "return ;",
    "while true do break ; end",
    "for i = 1 , 2 do continue ; end",
    "do return a , b ; end",
    "local function f ( ) return ; end",
    // names that end with a digit or an underscore next to `..` and `.`; numbers after `..`
    "return a1 .. b , a_ .. b , a1 . b , a1 : m ( ) , a .. 2 , 1 .. 2 , a1 .. 2",
    "return t [ t [ 1 ] ] , t [ [[a]] ] , t [ f { } ] , { [ t [ 1 ] ] = 1 }",
    // a number too large for a double, kept as written, before a statement starting with a parenthese
    "local x = 1e999\n( print ) ( x )",
    "local x = - 1e999\n( print ) ( x )",
    // type instantiation of a method call
    "return a : b < < number > > ( 1 )",
    "a . b : c < < number , string > > ( 1 , 's' )",
    "a : b < < T > > 's'",
    // type pack arguments of an instantiation (refused or kept whole, never thinned)
    "return f < < number , ... string > > ( )",
    "return a : b < < ... string > > ( 1 )",
    "return f < < T ... > > ( )",
    "return f < < ( number , string ) > > ( )",
    // commas of function types with a variadic argument, and of generic parameter lists with several packs
    "local a : ( number , ... string ) -> ( ) = f",
    "local a : ( x : number , y : string , ... any ) -> ... any = f",
    "function f < T , U ... , V ... > ( ) end",
    "type A < T , U , V ... , W ... > = ( T , U ) -> ( V ... )",
    "local function f < T ... > ( ... : T ... ) : T ... end",
    "local a : ( T ... ) -> ( U ... ) = f",
    // constructs written over several lines: a comment inserted at the start of a line leads the token that follows it
    "return `{ a\n}{ b\n}c{\nd }`",
    "return {\n1 ,\n[ 2 ] = 3 ,\nk = 4\n}",
    "f (\n1 ,\n2\n)\na : b (\n)",
    "local function f (\na ,\n...\n)\nreturn a\nend",
    "if a\nthen\nelseif b\nthen\nelse\nend",
    "for i = 1 ,\n2 ,\n3\ndo\nend\nfor k ,\nv in\nx\ndo\nend",
    "local a : {\nx : number ,\n[ string ] : T\n} = t",
    "type F = <\nT\n> (\nT\n) ->\nT",
    "return (\na\n) , a [\n1\n] , a\n. b , # \na",
    // a file whose line breaks are lone carriage returns
    "local x = 1 -- note\rlocal y = 2\rreturn x + y\r",
    "a ( ) -- c\rb ( )\nc ( )",
    // fewer values than variables
    "local a , b = ...",
    "const a , b = ...",
    "const a , b = f ( )",
    "const a , b = ( f ( ) )",
    "const a , b = 1",
    "const a , b , c = 1 , ...",
    "const a , b , c = 1 , nil",
    "local a , b , c = 1",
    "local a , b = nil",
    "local a , b = f ( ) , nil",
];

pub const TRIVIA: &[&str] = &[" ", "\t", "\n", "\r\n", "\n\n", "--c\n", "--c\r\n", "--[[c]]", "--[==[\nc\n]==]", "--[a[c\n", "--\n", "  ", " --[[a]] --[[b]] ", "--[[ ]] ]]\n", "--[[c]]\n", "--c\r"];

/// byte offsets where trivia may be inserted: every token boundary, start and end of file
pub fn gaps(src: &str) -> Vec<usize> {
    let mut out = vec![0];
    if let Ok(l) = lex(src.as_bytes(), Mode::Luau) {
        for t in &l.tokens {
            if !matches!(t.tok, Tok::Eof) {
                out.push(t.start);
                out.push(t.end);
            }
        }
    }
    out.push(src.len());
    out.sort();
    out.dedup();
    out
}

/// all single-trivia deviations of a template (the template itself first)
pub fn deviations1(template: &str) -> Vec<String> {
    let mut out = vec![template.to_owned()];
    for g in gaps(template) {
        for t in TRIVIA {
            let mut s = String::with_capacity(template.len() + t.len());
            s.push_str(&template[..g]);
            s.push_str(t);
            s.push_str(&template[g..]);
            out.push(s);
        }
    }
    out
}

pub fn deviations2(template: &str, trivia: &[&str]) -> Vec<String> {
    let gs = gaps(template);
    let mut out = Vec::new();
    for (i, g1) in gs.iter().enumerate() {
        for g2 in gs.iter().skip(i) {
            for t1 in trivia {
                for t2 in trivia {
                    let mut s = String::new();
                    s.push_str(&template[..*g1]);
                    s.push_str(t1);
                    s.push_str(&template[*g1..*g2]);
                    s.push_str(t2);
                    s.push_str(&template[*g2..]);
                    out.push(s);
                }
            }
        }
    }
    out
}

pub const NUMBER_SPELLINGS: &[&str] = &["1", "0x1F", "0X1f", "0b101", "0B11", "1_000", "1e3", "1E+3", "1e-3", ".5", "5.", "0x_1", "1__0", "0.1e1_0", "0xFFFFFFFFFFFFFFFF", "1e400", "00012", "9007199254740993", "0.30000000000000004", "1_", "1_000.", "0_0.", "1__.", "1_.5", "0x1p", "1e1_"];
pub const STRING_SPELLINGS: &[&str] = &[
    "\"a\"", "'a'", "[[a]]", "[==[a]==]", "\"\\z  a\"", "\"\\x41\"", "\"\\u{41}\"", "\"\\065\"", "\"a\\\nb\"", "\"\\\"\"", "'\\''", "[[\na]]", "[[a\nb]]", "[=[]]]=]", "\"\\a\\b\\f\\n\\r\\t\\v\\\\\"",
    "\"\\0\"", "\"\\255\"", "\"é\"", "\"\\u{1F600}\"", "''", "[[]]", "\"a\\z\n   b\"", "\"tab\there\"",
    "\"\\u{D800}\"", "\"\\u{DFFF}\\u{DC00}x\"", "\"\\0101\"", "'\\u{10FFFF}\\u{0}'",
];
pub const INTERP_SPELLINGS: &[&str] = &["``", "`a`", "`{x}`", "`a{x}b`", "`\\{`", "`\\``", "`\\n\\x41\\u{41}`", "`{ x }`", "`{x}{y}`", "`a\\\nb`", "`{`{x}`}`", "`{ {1}[1] }`", "`}`", "`{\"}\"}`", "`\\u{D800}{x}\\u{DFFF}`"];

pub fn spelling_programs() -> Vec<String> {
    let mut out = Vec::new();
    for n in NUMBER_SPELLINGS {
        out.push(format!("local a = {}", n));
        out.push(format!("return {} , - {} , t [ {} ] , {{ {} }} , f ( {} )", n, n, n, n, n));
        out.push(format!("for i = {} , {} do end", n, n));
        out.push(format!("local a = {} or b", n));
        out.push(format!("return {} .. s , s .. {} , {} .. {}", n, n, n, n));
        out.push(format!("return {} . x , {} : m ( )", n, n));
        out.push(format!("if a == {} then end", n));
        out.push(format!("while a < {} do end", n));
        out.push(format!("repeat until {} == a", n));
    }
    for s in STRING_SPELLINGS {
        out.push(format!("local a = {}", s));
        out.push(format!("return {} , t [ {} ] , {{ [ {} ] = {} }} , f ( {} ) , # {}", s, s, s, s, s, s));
        out.push(format!("f {}", s));
        out.push(format!("a : m {}", s));
        out.push(format!("local a : {} = {}", s, s));
    }
    for s in INTERP_SPELLINGS {
        out.push(format!("local a = {}", s));
        out.push(format!("return {} , t [ {} ] , f ( {} )", s, s, s));
    }
    // file endings and line endings
    for body in ["local a = 1", "return 1", "f ( )", "-- only a comment", "", "--[[c]]", "local a = 1 -- trailing"] {
        for end in ["", "\n", "\r\n", "\n\n", " ", "\t", "\n--end", "\n--end\n", "\r", ";", ";\n"] {
            out.push(format!("{}{}", body, end));
        }
    }
    out.push("#!/usr/bin/lua\nlocal a = 1\n".to_owned());
    out.push("\u{feff}local a = 1\n".to_owned());
    out.push("local a = 1\r\nlocal b = 2\r\nreturn a\r\n".to_owned());
    out.push("local a = 1\rlocal b = 2\r".to_owned());
    out
}

fn raw_tokens(src: &str) -> Option<Vec<String>> {
    let l = lex(src.as_bytes(), Mode::Luau).ok()?;
    Some(l.tokens.iter().filter(|t| !matches!(t.tok, Tok::Eof)).map(|t| src[t.start..t.end].to_owned()).collect())
}

/// layouts with optional spaces removed: each single removable space, and all of them at once (greedy, left to right).
/// A space is removable when the token sequence read by the reference lexer stays the same.
pub fn despaced(template: &str) -> Vec<String> {
    let base = match raw_tokens(template) {
        Some(b) => b,
        None => return vec![],
    };
    let mut out = Vec::new();
    let positions: Vec<usize> = template.char_indices().filter(|(_, c)| *c == ' ').map(|(i, _)| i).collect();
    for p in &positions {
        let mut s = template.to_owned();
        s.remove(*p);
        if raw_tokens(&s).as_ref() == Some(&base) {
            out.push(s);
        }
    }
    let mut all = template.to_owned();
    for p in positions.iter().rev() {
        let mut s = all.clone();
        s.remove(*p);
        if raw_tokens(&s).as_ref() == Some(&base) {
            all = s;
        }
    }
    out.push(all);
    out
}
