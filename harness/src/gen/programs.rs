//! Bounded-exhaustive program alphabets (DESIGN.md §4): contexts × fragments.

/// prelude shared by expression programs: `x` local number, `m` logging-metatable table, `t` plain table
pub const PRELUDE: &str = "local x = 3\nlocal m = ET\"m\"\nlocal t = {k = 1, [1] = 10}\n";

pub const LEAVES: &[&str] = &[
    "nil", "false", "true", "0", "1", "2.5", "\"a\"", "\"1\"", "\"\"", "x", "m", "u", "E1()", "EF()", "E0()", "ET\"t\"", "...",
    "{}",
];

/// smaller leaf set for depth-2 expressions
pub const LEAVES_SMALL: &[&str] = &["nil", "false", "true", "1", "\"a\"", "x", "m", "E1()"];

pub const BINOPS: &[&str] = &["+", "-", "*", "/", "%", "^", "..", "==", "~=", "<", "<=", ">", ">=", "and", "or"];
pub const UNOPS: &[&str] = &["not ", "-", "#"];

/// depth-1 expression fragments over a leaf set
pub fn exprs_depth1(leaves: &[&str], luau: bool) -> Vec<String> {
    let mut out: Vec<String> = leaves.iter().map(|s| s.to_string()).collect();
    for u in UNOPS {
        for l in leaves {
            out.push(format!("{}{}", u, l));
        }
    }
    let mut ops: Vec<&str> = BINOPS.to_vec();
    if luau {
        ops.push("//");
    }
    for op in ops {
        for a in leaves {
            for b in leaves {
                out.push(format!("{} {} {}", a, op, b));
            }
        }
    }
    for l in leaves {
        out.push(format!("({})", l));
        out.push(format!("E1({})", l));
        out.push(format!("EI({})", l));
    }
    // index / field forms
    for base in ["m", "t", "u", "x", "({k = 2})", "E1()", "\"s\""] {
        for key in [".k", "[\"k\"]", "[\"end\"]", "[\"a b\"]", "[\"1a\"]", "[1]", "[x]", "[E1()]"] {
            out.push(format!("{}{}", if base == "\"s\"" { "(\"s\")" } else { base }, key));
        }
    }
    // call argument shapes
    for shape in ["(\"a\")", "({})", "(\"a\", 1)", "((\"a\"))", "\"a\"", "{}", "{1}", "((E1()))", "(...)", "(E1())"] {
        out.push(format!("EI{}", shape));
        out.push(format!("m{}", shape));
        out.push(format!("m:f{}", shape));
    }
    if luau {
        for c in ["true", "nil", "x", "EF()", "E1()"] {
            for a in ["1", "false", "E1()", "nil"] {
                for b in ["2", "E1()", "nil"] {
                    out.push(format!("if {} then {} else {}", c, a, b));
                }
            }
        }
        for l in leaves {
            if *l != "..." && *l != "E0()" {
                out.push(format!("`a{{{}}}b`", l));
            }
            out.push(format!("{} :: any", l));
        }
    }
    out
}

/// depth-2 expressions: op(depth1-over-small-leaves, leaf) and op(leaf, depth1)
pub fn exprs_depth2(luau: bool) -> Vec<String> {
    let inner = exprs_depth1(LEAVES_SMALL, luau);
    let mut out = Vec::new();
    for u in UNOPS {
        for e in &inner {
            out.push(format!("{}({})", u, e));
            out.push(format!("{}{}", u, e));
        }
    }
    let mut ops: Vec<&str> = BINOPS.to_vec();
    if luau {
        ops.push("//");
    }
    for op in ops {
        for e in &inner {
            for l in LEAVES_SMALL {
                out.push(format!("{} {} {}", e, op, l));
                out.push(format!("{} {} {}", l, op, e));
                out.push(format!("({}) {} {}", e, op, l));
                out.push(format!("{} {} ({})", l, op, e));
            }
        }
    }
    out
}

/// one-hole contexts; `@` marks the hole
pub const CONTEXTS: &[&str] = &[
    "return @",
    "return @, 0",
    "return (@)",
    "local a, b = @\nreturn a, b",
    "local a = @",
    "local a, b = 0, @\nreturn b",
    "E1(@)",
    "E1(@, 0)",
    "return {@}",
    "return #{@, 0}",
    "if @ then E1\"t\" else E1\"f\" end",
    "while @ do E1\"w\" break end",
    "repeat E1\"r\" until @",
    "for i = 1, 2 do if @ then break end E1(i) end",
    "local r = {}\nr.k = @\nreturn r.k",
    "return (function(...) return @ end)(1, nil, 3)",
    "local a = @\nreturn a",
    "local function f(...) local v = @ return v, ... end\nreturn f(5)",
    "return t[@]",
    "local r = {}\nr[@] = 5\nreturn r.k, r[1], r.a, r[\"1\"]",
    "return m[@]",
    "return ({k = 1, a = 2, [1] = 3, [\"\"] = 4})[@]",
];

/// expressions whose value is known statically although evaluating them has an effect
pub const EFFECTFUL_CONSTANTS: &[&str] = &[
    "({E1()} and \"k\")",
    "({E1()} and 1)",
    "({E1()} and nil)",
    "(not {E1()})",
    "({E1()} and \"a\" or \"k\")",
    "(E1() and nil or \"k\")",
    "((E1() or true) and \"k\")",
    "(function() E1() return \"k\" end)()",
    "({E1()} and \"k\") .. \"\"",
    "#{E1()} == 0",
    "({[E1()] = 1} and 1)",
    "(`{E1()}` and \"k\")",
];

pub const TWO_HOLE_CONTEXTS: &[&str] = &[
    "local a, b = @1, @2\nreturn a, b",
    "local a, b, c = @1, @2\nreturn a, b, c",
    "local a, b\na, b = @1, @2\nreturn a, b",
    "return @1, @2",
    "E1(@1, @2)",
    "return {@1, @2}",
];

pub fn fill(context: &str, fragment: &str) -> String {
    format!("{}{}\n", PRELUDE, context.replace('@', fragment))
}

pub fn fill2(context: &str, a: &str, b: &str) -> String {
    format!("{}{}\n", PRELUDE, context.replace("@1", a).replace("@2", b))
}

/// statement-position programs (calls whose results are dropped, etc.)
pub fn statement_programs() -> Vec<String> {
    let mut out = Vec::new();
    for call in ["E1()", "E1(E1())", "m()", "m:f()", "m.k()", "EI(1)", "E1\"s\"", "E1{}", "(E1)()", "E1()()"] {
        // E1()() errors (calling a number): filtered by the precondition
        out.push(format!("{}{}\nreturn 1\n", PRELUDE, call));
    }
    out
}

// ---------------------------------------------------------------------------------------------------
// Scope fragments S(n)

pub const SCOPE_STATEMENTS: &[&str] = &[
    "local a = E1()",
    "local a",
    "local a, b = E1()",
    "local a, a = 1, 2",
    "local a = a",
    "local b = a",
    "local _ = E1()",
    "local function a() return a end",
    "function a() return 4 end",
    "function u() return a end",
    "a = 2",
    "b = a",
    "E1(a)",
    "E1(b)",
    "E1(_)",
    "E1(a, b)",
    "local f = function() return a end E1(f())",
    "do #B end",
    "if u then #B end",
    "if E1() then #B else E1(a) end",
    "for a = 1, 1 do #B end",
    "for _, a in ipairs{1} do #B end",
    "while true do #B break end",
    "repeat local a = E1() #B until a",
    "local t = {} function t:m() return self, a end E1(t:m())",
    "local t = {m = function(self) return a end} E1((t):m())",
    "local a = nil",
    "local a, b = nil, E1()",
    "local a = nil E1(a) a = 1",
    "if a then E1(1) end",
    "a = a or 5",
    "local a = function() return b end b = 7 E1(a())",
    "for _, a in ipairs({a}) do #B end",
    "for a, b in next, {a, b} do #B end",
    "for a = a or 1, 2 do #B end",
    "for a = 1, 2, a or 1 do #B end",
    "for b = 1, 2, b or 1 do #B end",
    "for a = a or 1, (a or 1) + 1, a or 1 do #B end",
    "for b = 1, a or 1 do #B end",
    "local function a(a) return a end E1(a(3))",
    "local function f(a, b) return function(a) return a, b end end E1(f(1, 2)(3))",
    "local a, b = b, a",
    "a, b = b, a",
    "local b = (function(a) return a end)(a)",
    "while a do local a = nil #B break end",
    "if a then local a = 5 #B elseif b then local b = 6 E1(b) end",
    "repeat local b = a #B until b or true",
    "do local a = a #B end",
    "local t = {a = a, b = function(a) return a end} E1(t.a, t.b(2))",
    "do local function u() return 1 end E1(u()) end local z, y, w = 2, 3, 4 E1(u, z, y, w)",
    "do local function helper() return 1 end E1(helper()) end local p, q, r, s = 1, 2, 3, 4 E1(helper, p, q, r, s)",
    "if u then local function b() return a end E1(b()) end local k, l = 5, 6 E1(b, k, l)",
    "do local u = E1() E1(u) end local z, y = 2, 3 E1(u, z, y)",
    "for u = 1, 1 do E1(u) end local z, y = 2, 3 E1(u, z, y)",
    "local function f(u) return u end local z, y = f(1), 3 E1(u, z, y)",
    "do local a, b, c, d = 1, 2, 3, 4 E1(a, b, c, d) end local e, f, g, h = 5, 6, 7, 8 E1(a, b, c, d, e, f, g, h)",
    "do local function a() end do local function b() end end end local c, d, e = 1, 2, 3 E1(a, b, c, d, e)",
];

/// all sequences of `n` statements; nested bodies (`#B`) draw from sequences of length `n-1` (or a single E1(a) at depth 0)
pub fn scope_programs(n: usize) -> Vec<String> {
    fn seqs(n: usize, nested: usize) -> Vec<String> {
        if n == 0 {
            return vec![String::new()];
        }
        let bodies: Vec<String> = if nested == 0 {
            vec!["E1(a)".to_owned(), "local a = 9 E1(a)".to_owned(), "a = 8".to_owned()]
        } else {
            let mut b = seqs(1, nested - 1);
            b.truncate(12);
            b
        };
        let rest = seqs(n - 1, nested);
        let mut out = Vec::new();
        for s in SCOPE_STATEMENTS {
            let firsts: Vec<String> = if s.contains("#B") { bodies.iter().map(|b| s.replace("#B", b)).collect() } else { vec![s.to_string()] };
            for f in firsts {
                for r in &rest {
                    out.push(if r.is_empty() { f.clone() } else { format!("{}\n{}", f, r) });
                }
            }
        }
        out
    }
    seqs(n, 0).into_iter().map(|s| format!("{}\nreturn a, b\n", s)).collect()
}

// ---------------------------------------------------------------------------------------------------
// metatable / method / loop / closure families

pub fn family_programs() -> Vec<String> {
    let mut out = Vec::new();
    // effectful metamethod objects flowing through operators
    let objs = ["m", "ET\"n\""];
    for a in objs {
        for op in ["+", "-", "*", "/", "%", "^", "..", "==", "~=", "<", "<=", ">", ">="] {
            for b in ["m", "ET\"n\"", "1", "\"s\""] {
                out.push(format!("{}local r = {} {} {}\nreturn r\n", PRELUDE, a, op, b));
                out.push(format!("{}local r = {} {} {}\nreturn r\n", PRELUDE, b, op, a));
                out.push(format!("{}if {} {} {} then E1(1) end\n", PRELUDE, a, op, b));
            }
        }
        out.push(format!("{}return -{}, {}.k, {}[1], {}[\"end\"], {}(1), {}:f(2)\n", PRELUDE, a, a, a, a, a, a));
        out.push(format!("{}{}.k = 1\n{}[\"k\"] = 2\n{}[\"a b\"] = 3\n{}[1] = 4\nreturn 1\n", PRELUDE, a, a, a, a));
        out.push(format!("{}local unused = {}.k\nreturn 1\n", PRELUDE, a));
        out.push(format!("{}local unused = {} + 1\nreturn 1\n", PRELUDE, a));
        out.push(format!("{}local unused = -{}\nreturn 1\n", PRELUDE, a));
        out.push(format!("{}local unused = {} .. \"s\"\nreturn 1\n", PRELUDE, a));
        out.push(format!("{}local unused = {} == {}\nreturn 1\n", PRELUDE, a, "ET\"q\""));
        out.push(format!("{}local unused = {} < {}\nreturn 1\n", PRELUDE, a, "ET\"q\""));
        out.push(format!("{}local unused = {{{}.k}}\nreturn 1\n", PRELUDE, a));
        out.push(format!("{}local unused = {}()\nreturn 1\n", PRELUDE, a));
        out.push(format!("{}local unused = function() return {}.k end\nreturn 1\n", PRELUDE, a));
        out.push(format!("{}if {}.k then end\nreturn 1\n", PRELUDE, a));
        out.push(format!("{}if {}.k then else end\nreturn 1\n", PRELUDE, a));
        out.push(format!("{}while {}.k do break end\nreturn 1\n", PRELUDE, a));
        out.push(format!("{}do local z = {}.k end\nreturn 1\n", PRELUDE, a));
    }
    // two objects with metamethods, both plain names: nothing but the operator itself has an effect
    for op in ["+", "-", "*", "/", "%", "^", "..", "==", "~=", "<", "<=", ">", ">="] {
        for form in [
            "local unused = m @ m2\nreturn 1",
            "local kept, unused = 1, m2 @ m\nreturn kept",
            "local kept = 1, m @ m2\nreturn kept",
            "local unused = not (m @ m2)\nreturn 1",
            "local unused = (m @ m2) and 1\nreturn 1",
            "local unused = {m @ m2}\nreturn 1",
            "if m @ m2 then end\nreturn 1",
            "local function f() local z = m @ m2 end\nreturn f()",
        ] {
            out.push(format!("{}local m2 = ET\"n\"\n{}\n", PRELUDE, form.replace('@', op)));
        }
    }
    // loops with break, closures capturing loop variables, early returns
    let loops = [
        "local s = 0\nfor i = 1, 3 do\n  if i == 2 then break end\n  s = s + i\nend\nreturn s",
        "local fs = {}\nfor i = 1, 3 do fs[i] = function() return i end end\nreturn fs[1](), fs[3]()",
        "local fs = {}\nfor i = 1, 2 do local j = i fs[i] = function() j = j + 1 return j end end\nreturn fs[1](), fs[1](), fs[2]()",
        "local i = 0\nwhile true do i = i + 1 if i > 2 then break end E1(i) end\nreturn i",
        "local i = 0\nwhile false do E1(i) end\nreturn i",
        "local i = 0\nwhile nil do E1(i) end\nwhile 1 do E1(1) break end\nreturn i",
        "local i = 0\nrepeat local d = i >= 2 i = i + 1 until d\nreturn i",
        "local function f(a)\n  if a then return 1 end\n  E1(a)\n  return 2\nend\nreturn f(true), f(false)",
        "local function f() do return 1 end E1(2) end\nreturn f()",
        "local function f() if true then return 1 else return 2 end end\nreturn f()",
        "local function f() if false then return 1 elseif nil then return 2 end return 3 end\nreturn f()",
        "local function f() if E1() then return 1 elseif false then return 2 else return 3 end end\nreturn f()",
        "if true then E1(1) end\nif false then E1(2) else E1(3) end\nif nil then E1(4) elseif 1 then E1(5) else E1(6) end\nreturn 0",
        "if 1 == 1 then E1(1) elseif E1(9) then E1(2) end\nif \"a\" .. \"b\" == \"ab\" then E1(3) end\nreturn 0",
        "if E0() then E1(1) elseif true then E1(2) else E1(3) end\nreturn 0",
        "if false then local a = 1 elseif EF() then E1(2) elseif true then E1(3) elseif E1(4) then E1(5) end\nreturn 0",
        "do end\ndo do end end\ndo local a = E1() end\ndo E1(2) end\nreturn 0",
        "local a = 1\ndo local a = 2 E1(a) end\nreturn a",
        "local t = {}\nfunction t:m(a) return self == t, a end\nfunction t.n(a) return a end\nreturn t:m(1), t.n(2)",
        "local t = {x = {}}\nfunction t.x:m(...) return self == t.x, ... end\nreturn t.x:m(1, 2)",
        "local t = {}\nfunction t:m(self2) return self, self2 end\nreturn t:m(5) == t",
        "local t = {}\nt[\"k\"] = 1\nt[\"end\"] = 2\nt[\"a b\"] = 3\nt[\"_x1\"] = 4\nt[\"1x\"] = 5\nt[\"\"] = 6\nreturn t.k, t[\"end\"], t[\"a b\"], t._x1, t[\"1x\"], t[\"\"]",
        "local t = {[\"k\"] = 1, [\"end\"] = 2, [\"a b\"] = 3, [\"nil\"] = 4}\nreturn t.k, t[\"end\"], t[\"a b\"], t[\"nil\"]",
        "local s = \"x\"\nreturn (\"k\"):rep(2), s:rep(2), (\"a\"):upper(), (\"abc\"):sub(2)",
        "local a, b = nil\nlocal c = nil\nlocal d, e = nil, nil\nlocal f, g = 1, nil\nreturn a, b, c, d, e, f, g",
        "local a, b = nil, E1()\nlocal c, d = E1(), nil\nlocal e, f = (E1()), nil\nreturn a, b, c, d, e, f",
        "local a, a = nil, 1\nreturn a",
        "local a, a = 1, nil\nreturn a",
        "local a, b, a = nil, nil, 3\nreturn a, b",
        "local a, unused, a = 1, 2\nreturn a",
        "local a, unused, a = 1, E1()\nreturn a",
        "local a, a, unused = 1, 2, 3\nreturn a",
        "local unused, a, a = 1, 2\nreturn a",
        "local a, unused, unused2, a = 1\nreturn a",
        "local a, unused, a = 1, 2, 3\nreturn a",
        "local function f(...) local a, unused, a = ... return a end\nreturn f(1, 2), f(1, 2, 3)",
        "local a = nil, E1()\nreturn a",
        "local a, b = nil, nil, E1()\nreturn a, b",
        "local unused = E1()\nlocal unused2 = t.k\nlocal u3, u4 = E1(), E1(2)\nlocal u5 = 1\nlocal u6 = function() E1(3) end\nreturn 1",
        "local _ = E1\nlocal unused = t[E1()]\n_(\"hello\")\nreturn 1",
        "local _ = E1\nlocal unused = m.field\n_(\"hello\")\nreturn 1",
        "local function unused() E1(1) end\nlocal function used() return 2 end\nreturn used()",
        "local a = 1\nlocal function f() return a end\nlocal a = 2\nreturn f(), a",
        "local a = 1 + 2\nlocal b = \"a\" .. \"b\"\nlocal c = 2 ^ 2\nlocal d = 7 % 3\nlocal e = #\"abc\"\nlocal f = not nil\nreturn a, b, c, d, e, f",
        "return 1 == 1, 1 ~= 1, \"a\" == \"a\", 1 < 2, \"a\" < \"b\", nil == false, 0 == -0, 1/0 == 1/0, 0.1 + 0.2 == 0.3",
        "return 1 and 2, nil and 1, false or 3, nil or false, 1 or E1(), nil and E1(), true and E1(), false or E1()",
        "return (true and E1()), (false or E1()), true and (E1()), 0",
        "return true and E1()",
        "return false or E1()",
        "return 1 and ...",
        "return nil or ...",
        "local function f(...) return true and ... end\nreturn f(1, 2)",
        "local function f(...) return nil or ... end\nreturn f(1, 2)",
        "E1(true and E1())\nE1(false or E1())\nreturn {true and E1()}",
        "local a, b = true and E1()\nreturn a, b",
        "return 2 ^ 53 + 1, 1e15 + 0.5, 1e308 * 10, -(0), 0 * -1, 5 // 0 == 1/0",
        "return \"a\" .. 1, 1 .. 2, 1.5 .. \"\", 2 ^ 31 .. \"\", -0 .. \"\"",
        "return 10 .. \"\", 1e15 .. \"\" == \"1e+15\", 0.1 .. \"\"",
        "return #\"\", #\"a\\0b\", -\"2\", \"10\" + 1, \"3\" * \"4\", 10 / \"2\"",
        "return #{}, #{1, 2}, #{1, nil}, #{n = 1}, #{E1()}, #{(E1())}",
        "return ({1, 2})[1], ({a = 1}).a, ({E1()})[2], (\"s\"):len()",
        "return (E1()), (E1)(), ((E1()))",
        "return ((1)), ((\"a\")), (nil), ((true)), ({})",
        "local function v(...) return ... end\nreturn (v(1, 2)), v(1, 2), (v()), v()",
        "local function v(...) return (...) end\nreturn v(1, 2)",
        "local function v(...) local a, b = ... return a, b, select(\"#\", ...) end\nreturn v(1, nil, nil)",
    ];
    for l in loops {
        out.push(format!("{}{}\n", PRELUDE, l));
    }
    // unused declarations whose values mix effectful non-calls, calls and pure values: evaluation order must survive
    let vals = ["{EI(1)}", "EI(2)", "m.k", "t[EI(3)]", "x", "EI(4) + 1", "(EI(5))", "-m", "nil", "function() EI(6) end", "..."];
    for a in vals {
        out.push(format!("{}local u1 = {}\nreturn 1\n", PRELUDE, a));
        for b in vals {
            out.push(format!("{}local u1, u2 = {}, {}\nreturn 1\n", PRELUDE, a, b));
            out.push(format!("{}local u1 = {}, {}\nreturn 1\n", PRELUDE, a, b));
            for c in vals {
                out.push(format!("{}local u1, u2, u3 = {}, {}, {}\nreturn 1\n", PRELUDE, a, b, c));
            }
        }
    }
    out
}

// ---------------------------------------------------------------------------------------------------
// chains of branches with constant, unknown, effectful and constant-but-effectful conditions

pub const CHAIN_CONDITIONS: &[&str] = &["true", "false", "nil", "x", "t.z", "E1()", "not {E1()}", "({E1()} and nil)", "1 == 1"];

/// every if statement with up to `k` branches: condition from the menu, block empty or effectful, else absent / empty / effectful
pub fn if_chain_programs(k: usize) -> Vec<String> {
    fn chains(k: usize) -> Vec<String> {
        // returns the `cond then block (elseif cond then block)*` part
        let mut level: Vec<String> = Vec::new();
        for c in CHAIN_CONDITIONS {
            for b in ["", " E1(#)"] {
                level.push(format!("{} then{}", c, b));
            }
        }
        let mut all = level.clone();
        let mut cur = level.clone();
        for _ in 1..k {
            let mut next = Vec::new();
            for head in &cur {
                for tail in &level {
                    next.push(format!("{} elseif {}", head, tail));
                }
            }
            all.extend(next.iter().cloned());
            cur = next;
        }
        all
    }
    let mut out = Vec::new();
    for chain in chains(k) {
        for e in ["", " else", " else E1(#)"] {
            let mut body = format!("if {}{} end", chain, e);
            // number the effectful blocks so that the executed branch is visible
            let mut n = 0;
            while let Some(i) = body.find('#') {
                n += 1;
                body.replace_range(i..i + 1, &n.to_string());
            }
            out.push(format!("{}{}\nE1(\"after\")\nreturn 1\n", PRELUDE, body));
        }
    }
    out
}

/// while / repeat loops with the same conditions
pub fn loop_chain_programs() -> Vec<String> {
    let mut out = Vec::new();
    for c in CHAIN_CONDITIONS {
        for b in ["", "E1(1)", "E1(1) break", "break", "do break end E1(2)", "if x then break end"] {
            out.push(format!("{}while {} do {} end\nE1(\"after\")\nreturn 1\n", PRELUDE, c, b));
            out.push(format!("{}repeat {} until {}\nE1(\"after\")\nreturn 1\n", PRELUDE, b.replace("break", "do break end"), c));
        }
    }
    out
}

/// if-expressions (Luau) with up to `k` elseif branches
pub fn if_expression_chain_programs(k: usize) -> Vec<String> {
    let values = ["1", "nil", "false", "E1()"];
    let mut heads: Vec<String> = Vec::new();
    for c in CHAIN_CONDITIONS {
        for v in values {
            heads.push(format!("{} then {}", c, v));
        }
    }
    let mut chains = heads.clone();
    let mut cur = heads.clone();
    for _ in 0..k {
        let mut next = Vec::new();
        for h in &cur {
            for t in &heads {
                next.push(format!("{} elseif {}", h, t));
            }
        }
        chains.extend(next.iter().cloned());
        cur = next;
    }
    let mut out = Vec::new();
    for chain in chains {
        for e in ["2", "nil", "E1(9)"] {
            out.push(format!("{}local r = if {} else {}\nreturn r\n", PRELUDE, chain, e));
        }
    }
    out
}
