//! Tree recipes with twin builders: every recipe builds the darklua tree (through the public `nodes` constructors) and
//! the luaref AST it must denote. The generated text is parsed by luaref and compared with the luaref twin.
use crate::luaref::ast as r;
use darklua_core::nodes as d;
use std::rc::Rc;

#[derive(Clone, Debug)]
pub enum Ty {
    Name(&'static str),
    Generic(&'static str, Vec<Ty>),
    Field(&'static str, &'static str),
    True,
    False,
    Nil,
    Str(&'static str),
    Array(Box<Ty>),
    Table(Vec<(&'static str, Ty)>, Option<(Box<Ty>, Box<Ty>)>),
    TypeOf(Box<E>),
    Paren(Box<Ty>),
    Func(Vec<(Option<&'static str>, Ty)>, Option<Box<Ty>>, Box<Ret>),
    Optional(Box<Ty>),
    Union(Vec<Ty>),
    Inter(Vec<Ty>),
}

#[derive(Clone, Debug)]
pub enum Ret {
    Type(Ty),
    Pack(Vec<Ty>),
    Variadic(Ty),
    GenericPack(&'static str),
}

#[derive(Clone, Debug)]
pub enum Args {
    Tuple(Vec<E>),
    Str(Vec<u8>),
    Table(Vec<Item>),
}

#[derive(Clone, Debug)]
pub enum Item {
    Pos(E),
    Named(&'static str, E),
    Keyed(E, E),
}

#[derive(Clone, Debug)]
pub enum E {
    Nil,
    True,
    False,
    Num(f64),
    Str(Vec<u8>),
    Id(&'static str),
    Vararg,
    Paren(Box<E>),
    Un(r::UnOp, Box<E>),
    Bin(r::BinOp, Box<E>, Box<E>),
    Field(Box<E>, &'static str),
    Index(Box<E>, Box<E>),
    Call(Box<E>, Args),
    Method(Box<E>, &'static str, Args),
    /// `o:m<<T>>(args)`
    MethodInst(Box<E>, &'static str, Vec<Ty>, Args),
    /// `f<<T>>` (a prefix: it is called or indexed by the recipe around it)
    Inst(Box<E>, Vec<Ty>),
    Table(Vec<Item>),
    Func(Vec<&'static str>, bool, Vec<S>),
    If(Box<E>, Box<E>, Vec<(E, E)>, Box<E>),
    Interp(Vec<IPart>),
    Cast(Box<E>, Box<Ty>),
}

#[derive(Clone, Debug)]
pub enum IPart {
    Str(Vec<u8>),
    Val(E),
}

#[derive(Clone, Debug)]
pub enum S {
    Local(Vec<(&'static str, Option<Ty>)>, Vec<E>),
    Assign(Vec<E>, Vec<E>),
    Compound(r::BinOp, E, E),
    Call(E),
    Do(Vec<S>),
    While(E, Vec<S>),
    Repeat(Vec<S>, E),
    If(Vec<(E, Vec<S>)>, Option<Vec<S>>),
    NumFor(&'static str, E, E, Option<E>, Vec<S>),
    GenFor(Vec<&'static str>, Vec<E>, Vec<S>),
    Function(&'static str, Vec<&'static str>, Option<&'static str>, Vec<&'static str>, bool, Vec<S>),
    LocalFunction(&'static str, Vec<&'static str>, bool, Vec<S>),
    TypeDecl(bool, &'static str, Vec<&'static str>, Ty),
    Return(Vec<E>),
    Break,
    Continue,
}

// ------------------------------------------------------------------------------------------------ darklua side

fn d_binop(op: r::BinOp) -> d::BinaryOperator {
    use d::BinaryOperator as B;
    match op {
        r::BinOp::Add => B::Plus,
        r::BinOp::Sub => B::Minus,
        r::BinOp::Mul => B::Asterisk,
        r::BinOp::Div => B::Slash,
        r::BinOp::IDiv => B::DoubleSlash,
        r::BinOp::Mod => B::Percent,
        r::BinOp::Pow => B::Caret,
        r::BinOp::Concat => B::Concat,
        r::BinOp::Eq => B::Equal,
        r::BinOp::Ne => B::NotEqual,
        r::BinOp::Lt => B::LowerThan,
        r::BinOp::Le => B::LowerOrEqualThan,
        r::BinOp::Gt => B::GreaterThan,
        r::BinOp::Ge => B::GreaterOrEqualThan,
        r::BinOp::And => B::And,
        r::BinOp::Or => B::Or,
    }
}

fn d_compound(op: r::BinOp) -> d::CompoundOperator {
    use d::CompoundOperator as C;
    match op {
        r::BinOp::Add => C::Plus,
        r::BinOp::Sub => C::Minus,
        r::BinOp::Mul => C::Asterisk,
        r::BinOp::Div => C::Slash,
        r::BinOp::IDiv => C::DoubleSlash,
        r::BinOp::Mod => C::Percent,
        r::BinOp::Pow => C::Caret,
        _ => C::Concat,
    }
}

fn d_prefix(e: &E) -> d::Prefix {
    // darklua's own conversion parenthesises expressions that are not valid prefixes
    d::Prefix::from(d_expr(e))
}

fn d_variable(e: &E) -> d::Variable {
    match e {
        E::Id(n) => d::Variable::Identifier(d::Identifier::new(*n)),
        E::Field(b, f) => d::Variable::Field(Box::new(d::FieldExpression::new(d_prefix(b), *f))),
        E::Index(b, k) => d::Variable::Index(Box::new(d::IndexExpression::new(d_prefix(b), d_expr(k)))),
        other => panic!("not a variable recipe: {:?}", other),
    }
}

fn d_items(items: &[Item]) -> d::TableExpression {
    let entries: Vec<d::TableEntry> = items
        .iter()
        .map(|it| match it {
            Item::Pos(v) => d::TableEntry::from_value(d_expr(v)),
            Item::Named(n, v) => d::TableFieldEntry::new(*n, d_expr(v)).into(),
            Item::Keyed(k, v) => d::TableIndexEntry::new(d_expr(k), d_expr(v)).into(),
        })
        .collect();
    d::TableExpression::new(entries)
}

fn d_args(a: &Args) -> d::Arguments {
    match a {
        Args::Tuple(v) => d::TupleArguments::new(v.iter().map(d_expr).collect()).into(),
        Args::Str(s) => d::StringExpression::from_value(s.clone()).into(),
        Args::Table(items) => d_items(items).into(),
    }
}

pub fn d_block(stats: &[S]) -> d::Block {
    let mut block = d::Block::default();
    for s in stats {
        match s {
            S::Return(v) => block.set_last_statement(d::LastStatement::Return(d::ReturnStatement::new(v.iter().map(d_expr).collect()))),
            S::Break => block.set_last_statement(d::LastStatement::new_break()),
            S::Continue => block.set_last_statement(d::LastStatement::new_continue()),
            other => block.push_statement(d_stat(other)),
        }
    }
    block
}

fn d_typed(n: &str, t: &Option<Ty>) -> d::TypedIdentifier {
    let id = d::TypedIdentifier::new(n);
    match t {
        Some(t) => id.with_type(d_type(t)),
        None => id,
    }
}

fn d_stat(s: &S) -> d::Statement {
    match s {
        S::Local(names, exprs) => d::VariableAssignment::new(names.iter().map(|(n, t)| d_typed(n, t)).collect(), exprs.iter().map(d_expr).collect()).into(),
        S::Assign(vars, exprs) => d::AssignStatement::new(vars.iter().map(d_variable).collect(), exprs.iter().map(d_expr).collect()).into(),
        S::Compound(op, v, e) => d::CompoundAssignStatement::new(d_compound(*op), d_variable(v), d_expr(e)).into(),
        S::Call(e) => match d_expr(e) {
            d::Expression::Call(c) => d::Statement::Call(*c),
            other => panic!("call statement recipe is not a call: {:?}", other),
        },
        S::Do(b) => d::DoStatement::new(d_block(b)).into(),
        S::While(c, b) => d::WhileStatement::new(d_block(b), d_expr(c)).into(),
        S::Repeat(b, c) => d::RepeatStatement::new(d_block(b), d_expr(c)).into(),
        S::If(branches, else_b) => {
            let bs: Vec<d::IfBranch> = branches.iter().map(|(c, b)| d::IfBranch::new(d_expr(c), d_block(b))).collect();
            d::IfStatement::new(bs, else_b.as_ref().map(|b| d_block(b))).into()
        }
        S::NumFor(v, a, b, st, body) => d::NumericForStatement::new(*v, d_expr(a), d_expr(b), st.as_ref().map(d_expr), d_block(body)).into(),
        S::GenFor(names, exprs, body) => {
            d::GenericForStatement::new(names.iter().map(|n| d::TypedIdentifier::new(*n)).collect(), exprs.iter().map(d_expr).collect(), d_block(body)).into()
        }
        S::Function(base, fields, method, params, variadic, body) => {
            let name = d::FunctionName::new(d::Identifier::new(*base), fields.iter().map(|f| d::Identifier::new(*f)).collect(), method.map(d::Identifier::new));
            d::FunctionStatement::new(name, d_block(body), params.iter().map(|p| d::TypedIdentifier::new(*p)).collect(), *variadic).into()
        }
        S::LocalFunction(name, params, variadic, body) => {
            d::FunctionAssignment::new(*name, d_block(body), params.iter().map(|p| d::TypedIdentifier::new(*p)).collect(), *variadic).into()
        }
        S::TypeDecl(exported, name, generics, ty) => {
            let mut decl = d::TypeDeclarationStatement::new(*name, d_type(ty));
            if !generics.is_empty() {
                let mut g = d::GenericParametersWithDefaults::from_type_variable(generics[0]);
                for x in &generics[1..] {
                    g.push_type_variable(*x);
                }
                decl = decl.with_generic_parameters(g);
            }
            if *exported {
                decl = decl.export();
            }
            decl.into()
        }
        S::Return(_) | S::Break | S::Continue => unreachable!(),
    }
}

pub fn d_type(t: &Ty) -> d::Type {
    match t {
        Ty::Name(n) => d::TypeName::new(*n).into(),
        Ty::Generic(n, params) => {
            let mut tn = d::TypeName::new(*n);
            for p in params {
                tn = tn.with_type_parameter(d_type(p));
            }
            tn.into()
        }
        Ty::Field(ns, n) => d::TypeField::new(*ns, d::TypeName::new(*n)).into(),
        Ty::True => d::Type::True(None),
        Ty::False => d::Type::False(None),
        Ty::Nil => d::Type::Nil(None),
        Ty::Str(s) => d::StringType::from_value(*s).into(),
        Ty::Array(inner) => d::ArrayType::new(d_type(inner)).into(),
        Ty::Table(props, indexer) => {
            let mut t = d::TableType::default();
            for (n, ty) in props {
                t = t.with_property(d::TablePropertyType::new(*n, d_type(ty)));
            }
            if let Some((k, v)) = indexer {
                t = t.with_indexer_type(d::TableIndexerType::new(d_type(k), d_type(v)));
            }
            t.into()
        }
        Ty::TypeOf(e) => d::ExpressionType::new(d_expr(e)).into(),
        Ty::Paren(inner) => d::ParentheseType::new(d_type(inner)).into(),
        Ty::Func(args, variadic, ret) => {
            let ret: d::FunctionReturnType = match &**ret {
                Ret::Type(t) => d_type(t).into(),
                Ret::Pack(ts) => {
                    let mut p = d::TypePack::default();
                    for t in ts {
                        p.push_type(d_type(t));
                    }
                    p.into()
                }
                Ret::Variadic(t) => d::VariadicTypePack::new(d_type(t)).into(),
                Ret::GenericPack(n) => d::GenericTypePack::new(*n).into(),
            };
            let mut f = d::FunctionType::new(ret);
            for (name, ty) in args {
                let mut a = d::FunctionArgumentType::new(d_type(ty));
                if let Some(n) = name {
                    a = a.with_name(*n);
                }
                f = f.with_argument(a);
            }
            if let Some(v) = variadic {
                f = f.with_variadic_type(d::VariadicTypePack::new(d_type(v)));
            }
            f.into()
        }
        Ty::Optional(inner) => d::OptionalType::new(d_type(inner)).into(),
        Ty::Union(ts) => d::UnionType::from(ts.iter().map(d_type).collect::<Vec<_>>()).into(),
        Ty::Inter(ts) => d::IntersectionType::from(ts.iter().map(d_type).collect::<Vec<_>>()).into(),
    }
}

pub fn d_expr(e: &E) -> d::Expression {
    match e {
        E::Nil => d::Expression::nil(),
        E::True => d::Expression::from(true),
        E::False => d::Expression::from(false),
        E::Num(n) => d::DecimalNumber::new(*n).into(),
        E::Str(s) => d::StringExpression::from_value(s.clone()).into(),
        E::Id(n) => d::Expression::identifier(*n),
        E::Vararg => d::Expression::variable_arguments(),
        E::Paren(x) => d::ParentheseExpression::new(d_expr(x)).into(),
        E::Un(op, x) => d::UnaryExpression::new(
            match op {
                r::UnOp::Neg => d::UnaryOperator::Minus,
                r::UnOp::Not => d::UnaryOperator::Not,
                r::UnOp::Len => d::UnaryOperator::Length,
            },
            d_expr(x),
        )
        .into(),
        E::Bin(op, a, b) => d::BinaryExpression::new(d_binop(*op), d_expr(a), d_expr(b)).into(),
        E::Field(b, f) => d::FieldExpression::new(d_prefix(b), *f).into(),
        E::Index(b, k) => d::IndexExpression::new(d_prefix(b), d_expr(k)).into(),
        E::Call(f, a) => d::FunctionCall::from_prefix(d_prefix(f)).with_arguments(d_args(a)).into(),
        E::Method(o, m, a) => d::FunctionCall::from_prefix(d_prefix(o)).with_method(*m).with_arguments(d_args(a)).into(),
        E::MethodInst(o, m, tys, a) => d::FunctionCall::from_prefix(d_prefix(o)).with_type_instantiation_method(*m, tys.iter().map(d_type).collect()).with_arguments(d_args(a)).into(),
        E::Inst(f, tys) => d::TypeInstantiationExpression::new(d_prefix(f), tys.iter().map(d_type).collect()).into(),
        E::Table(items) => d_items(items).into(),
        E::Func(params, variadic, body) => d::FunctionExpression::new(d_block(body), params.iter().map(|p| d::TypedIdentifier::new(*p)).collect(), *variadic).into(),
        E::If(c, t, elseifs, el) => {
            let mut x = d::IfExpression::new(d_expr(c), d_expr(t), d_expr(el));
            for (ec, ev) in elseifs {
                x = x.with_branch(d_expr(ec), d_expr(ev));
            }
            x.into()
        }
        E::Interp(parts) => {
            let mut s = d::InterpolatedStringExpression::empty();
            for p in parts {
                s = match p {
                    IPart::Str(b) => s.with_segment(d::StringSegment::from_value(b.clone())),
                    IPart::Val(v) => s.with_segment(d::ValueSegment::new(d_expr(v))),
                };
            }
            s.into()
        }
        E::Cast(x, t) => d::TypeCastExpression::new(d_expr(x), d_type(t)).into(),
    }
}

// ------------------------------------------------------------------------------------------------ luaref side (already normalised)

fn is_prefix(e: &E) -> bool {
    matches!(e, E::Id(_) | E::Paren(_) | E::Field(..) | E::Index(..) | E::Call(..) | E::Method(..))
}

fn r_prefix(e: &E) -> r::Expr {
    // normal form has no redundant parentheses; multi-valued expressions keep theirs
    let x = r_expr(e);
    if !is_prefix(e) && matches!(e, E::Vararg) {
        r::Expr::Paren(Box::new(x))
    } else {
        x
    }
}

fn r_items(items: &[Item]) -> Vec<r::TableItem> {
    items
        .iter()
        .map(|it| match it {
            Item::Pos(v) => r::TableItem::Pos(r_expr(v)),
            Item::Named(n, v) => r::TableItem::Named(n.to_string(), r_expr(v)),
            Item::Keyed(k, v) => r::TableItem::Keyed(r_expr(k), r_expr(v)),
        })
        .collect()
}

fn r_args(a: &Args) -> Vec<r::Expr> {
    match a {
        Args::Tuple(v) => v.iter().map(r_expr).collect(),
        Args::Str(s) => vec![r::Expr::Str(s.clone())],
        Args::Table(items) => vec![r::Expr::Table(r_items(items))],
    }
}

fn r_func(params: &[&'static str], variadic: bool, body: &[S], has_self: bool) -> Rc<r::FuncBody> {
    Rc::new(r::FuncBody {
        generics: vec![],
        params: params.iter().map(|p| r::TypedName { name: p.to_string(), pos: 0, ty: None }).collect(),
        vararg: variadic,
        vararg_type: None,
        ret: None,
        body: r_block(body),
        attributes: vec![],
        has_self,
    })
}

pub fn r_block(stats: &[S]) -> r::Block {
    r::Block {
        stats: stats.iter().map(|s| r::StatNode { stat: r_stat(s), line: 0, start: 0, end: 0 }).collect(),
    }
}

fn r_stat(s: &S) -> r::Stat {
    match s {
        S::Local(names, exprs) => r::Stat::Local {
            names: names.iter().map(|(n, t)| r::TypedName { name: n.to_string(), pos: 0, ty: t.as_ref().map(r_type) }).collect(),
            exprs: exprs.iter().map(r_expr).collect(),
            is_const: false,
        },
        S::Assign(vars, exprs) => r::Stat::Assign { targets: vars.iter().map(r_expr).collect(), exprs: exprs.iter().map(r_expr).collect() },
        S::Compound(op, v, e) => r::Stat::CompoundAssign { op: *op, target: r_expr(v), expr: r_expr(e) },
        S::Call(e) => r::Stat::Call(r_expr(e)),
        S::Do(b) => r::Stat::Do(r_block(b)),
        S::While(c, b) => r::Stat::While(r_expr(c), r_block(b)),
        S::Repeat(b, c) => r::Stat::Repeat(r_block(b), r_expr(c)),
        S::If(branches, else_b) => r::Stat::If(branches.iter().map(|(c, b)| (r_expr(c), r_block(b))).collect(), else_b.as_ref().map(|b| r_block(b))),
        S::NumFor(v, a, b, st, body) => r::Stat::NumFor {
            var: r::TypedName { name: v.to_string(), pos: 0, ty: None },
            start: r_expr(a),
            end: r_expr(b),
            step: st.as_ref().map(r_expr),
            body: r_block(body),
        },
        S::GenFor(names, exprs, body) => r::Stat::GenFor {
            names: names.iter().map(|n| r::TypedName { name: n.to_string(), pos: 0, ty: None }).collect(),
            exprs: exprs.iter().map(r_expr).collect(),
            body: r_block(body),
        },
        S::Function(base, fields, method, params, variadic, body) => r::Stat::Function {
            name: r::FuncName { base: base.to_string(), base_pos: 0, fields: fields.iter().map(|f| f.to_string()).collect(), method: method.map(|m| m.to_string()) },
            body: r_func(params, *variadic, body, method.is_some()),
        },
        S::LocalFunction(name, params, variadic, body) => r::Stat::LocalFunction { name: name.to_string(), pos: 0, body: r_func(params, *variadic, body, false), is_const: false },
        S::TypeDecl(exported, name, generics, ty) => r::Stat::TypeDecl {
            exported: *exported,
            name: name.to_string(),
            generics: generics.iter().map(|g| r::GenericParam { name: g.to_string(), pack: false, default: None }).collect(),
            ty: r_type(ty),
        },
        S::Return(v) => r::Stat::Return(v.iter().map(r_expr).collect()),
        S::Break => r::Stat::Break,
        S::Continue => r::Stat::Continue,
    }
}

pub fn r_type(t: &Ty) -> r::Type {
    match t {
        Ty::Name(n) => r::Type::Name { ns: None, ns_pos: 0, name: n.to_string(), params: None },
        Ty::Generic(n, ps) => r::Type::Name { ns: None, ns_pos: 0, name: n.to_string(), params: Some(ps.iter().map(r_type).collect()) },
        Ty::Field(ns, n) => r::Type::Name { ns: Some(ns.to_string()), ns_pos: 0, name: n.to_string(), params: None },
        Ty::True => r::Type::True,
        Ty::False => r::Type::False,
        Ty::Nil => r::Type::Nil,
        Ty::Str(s) => r::Type::Str(s.as_bytes().to_vec()),
        Ty::Array(inner) => r::Type::Array(Box::new(r_type(inner)), None),
        Ty::Table(props, indexer) => {
            let mut entries: Vec<r::TableTypeEntry> = props.iter().map(|(n, t)| r::TableTypeEntry::Prop { access: None, name: n.to_string(), ty: r_type(t) }).collect();
            if let Some((k, v)) = indexer {
                entries.push(r::TableTypeEntry::Indexer { access: None, key: r_type(k), ty: r_type(v) });
            }
            r::Type::Table(entries)
        }
        Ty::TypeOf(e) => r::Type::Typeof(Box::new(r_expr(e))),
        Ty::Paren(inner) => r_type(inner),
        Ty::Func(args, variadic, ret) => r::Type::Function {
            generics: vec![],
            params: args.iter().map(|(n, t)| (n.map(|s| s.to_string()), r_type(t))).collect(),
            variadic: variadic.as_ref().map(|v| Box::new(r::Type::Variadic(Box::new(r_type(v))))),
            ret: Box::new(match &**ret {
                Ret::Type(t) => r_type(t),
                Ret::Pack(ts) => r::Type::Pack(ts.iter().map(r_type).collect(), None),
                Ret::Variadic(t) => r::Type::Variadic(Box::new(r_type(t))),
                Ret::GenericPack(n) => r::Type::GenericPack(n.to_string()),
            }),
        },
        Ty::Optional(inner) => r::Type::Optional(Box::new(r_type(inner))),
        Ty::Union(ts) => r::Type::Union(ts.iter().map(r_type).collect()),
        Ty::Inter(ts) => r::Type::Inter(ts.iter().map(r_type).collect()),
    }
}

pub fn r_expr(e: &E) -> r::Expr {
    match e {
        E::Nil => r::Expr::Nil,
        E::True => r::Expr::True,
        E::False => r::Expr::False,
        E::Num(n) => r::Expr::Number(*n),
        E::Str(s) => r::Expr::Str(s.clone()),
        E::Id(n) => r::Expr::Name(n.to_string(), 0),
        E::Vararg => r::Expr::Vararg,
        E::Paren(x) => {
            let inner = r_expr(x);
            if keeps_parens(&inner) {
                r::Expr::Paren(Box::new(inner))
            } else {
                inner
            }
        }
        E::Un(op, x) => r::Expr::Unary(*op, Box::new(r_expr(x))),
        E::Bin(op, a, b) => r::Expr::Binary(*op, Box::new(r_expr(a)), Box::new(r_expr(b))),
        E::Field(b, f) => r::Expr::Field(Box::new(r_prefix(b)), f.to_string()),
        E::Index(b, k) => r::Expr::Index(Box::new(r_prefix(b)), Box::new(r_expr(k))),
        E::Call(f, a) => r::Expr::Call(Box::new(r_prefix(f)), r_args(a), r::CallArgsKind::Paren),
        E::Method(o, m, a) => r::Expr::MethodCall(Box::new(r_prefix(o)), m.to_string(), r_args(a), r::CallArgsKind::Paren, None),
        E::MethodInst(o, m, tys, a) => r::Expr::MethodCall(Box::new(r_prefix(o)), m.to_string(), r_args(a), r::CallArgsKind::Paren, Some(tys.iter().map(r_type).collect())),
        E::Inst(f, tys) => r::Expr::Instantiate(Box::new(r_prefix(f)), tys.iter().map(r_type).collect()),
        E::Table(items) => r::Expr::Table(r_items(items)),
        E::Func(params, variadic, body) => r::Expr::Function(r_func(params, *variadic, body, false)),
        E::If(c, t, elseifs, el) => {
            let mut branches = vec![(r_expr(c), r_expr(t))];
            for (ec, ev) in elseifs {
                branches.push((r_expr(ec), r_expr(ev)));
            }
            r::Expr::IfExpr(branches, Box::new(r_expr(el)))
        }
        E::Interp(parts) => {
            // adjacent string segments merge when parsed back; empty ones vanish
            let mut out: Vec<r::InterpPart> = Vec::new();
            for p in parts {
                match p {
                    IPart::Str(b) => {
                        if b.is_empty() {
                            continue;
                        }
                        if let Some(r::InterpPart::Str(prev)) = out.last_mut() {
                            prev.extend_from_slice(b);
                        } else {
                            out.push(r::InterpPart::Str(b.clone()));
                        }
                    }
                    IPart::Val(v) => out.push(r::InterpPart::Expr(r_expr(v))),
                }
            }
            r::Expr::Interp(out)
        }
        E::Cast(x, t) => r::Expr::Cast(Box::new(r_expr(x)), Box::new(r_type(t))),
    }
}

/// parentheses change meaning only around multi-valued expressions
pub fn keeps_parens(inner: &r::Expr) -> bool {
    matches!(inner, r::Expr::Call(..) | r::Expr::MethodCall(..) | r::Expr::Vararg)
}

// ------------------------------------------------------------------------------------------------ normalisation of parsed text

pub fn normalize_type(t: &mut r::Type) {
    use r::Type as T;
    loop {
        if let T::Paren(inner) = t {
            let x = std::mem::replace(&mut **inner, T::Nil);
            *t = x;
            continue;
        }
        break;
    }
    match t {
        T::Name { params, ns_pos, .. } => {
            *ns_pos = 0;
            if let Some(ps) = params {
                for p in ps {
                    normalize_type(p);
                }
            }
        }
        T::Typeof(e) => normalize_expr(e),
        T::Table(entries) => {
            for e in entries {
                match e {
                    r::TableTypeEntry::Prop { ty, .. } | r::TableTypeEntry::StringProp { ty, .. } => normalize_type(ty),
                    r::TableTypeEntry::Indexer { key, ty, .. } => {
                        normalize_type(key);
                        normalize_type(ty);
                    }
                }
            }
        }
        T::Array(inner, _) | T::Optional(inner) | T::Variadic(inner) => normalize_type(inner),
        T::Function { params, variadic, ret, .. } => {
            for (_, p) in params {
                normalize_type(p);
            }
            if let Some(v) = variadic {
                normalize_type(v);
            }
            normalize_type(ret);
        }
        T::Union(ts) | T::Inter(ts) => {
            for x in ts {
                normalize_type(x);
            }
        }
        T::Pack(ts, v) => {
            for x in ts {
                normalize_type(x);
            }
            if let Some(v) = v {
                normalize_type(v);
            }
        }
        T::Paren(_) | T::Nil | T::True | T::False | T::Str(_) | T::GenericPack(_) => {}
    }
}

pub fn normalize_expr(e: &mut r::Expr) {
    crate::luaref::walk::map_expr(e, &mut |x| {
        match x {
            r::Expr::Name(_, pos) => *pos = 0,
            r::Expr::Call(_, _, kind) => *kind = r::CallArgsKind::Paren,
            r::Expr::MethodCall(_, _, _, kind, tys) => {
                *kind = r::CallArgsKind::Paren;
                for t in tys.iter_mut().flatten() {
                    normalize_type(t);
                }
            }
            r::Expr::Instantiate(_, tys) => {
                for t in tys.iter_mut() {
                    normalize_type(t);
                }
            }
            r::Expr::Cast(_, t) => normalize_type(t),
            r::Expr::Function(body) => normalize_body(body),
            _ => {}
        }
        // a non-finite number node has no literal: it denotes the division the generators write for it
        if let r::Expr::Number(n) = x {
            if n.is_nan() {
                *x = r::Expr::Binary(r::BinOp::Div, Box::new(r::Expr::Number(0.0)), Box::new(r::Expr::Number(0.0)));
            } else if n.is_infinite() {
                let one = if n.is_sign_negative() { r::Expr::Unary(r::UnOp::Neg, Box::new(r::Expr::Number(1.0))) } else { r::Expr::Number(1.0) };
                *x = r::Expr::Binary(r::BinOp::Div, Box::new(one), Box::new(r::Expr::Number(0.0)));
            }
        }
        // a negative literal can only be written with a minus sign: same value as the unary form
        if let r::Expr::Number(n) = x {
            if n.is_sign_negative() && !n.is_nan() {
                let abs = -*n;
                *x = r::Expr::Unary(r::UnOp::Neg, Box::new(r::Expr::Number(abs)));
            }
        }
        if let r::Expr::Paren(inner) = x {
            if !keeps_parens(inner) {
                let v = std::mem::replace(&mut **inner, r::Expr::Nil);
                *x = v;
            }
        }
    });
}

fn normalize_body(body: &mut Rc<r::FuncBody>) {
    let b = Rc::make_mut(body);
    for p in b.params.iter_mut() {
        p.pos = 0;
        if let Some(t) = &mut p.ty {
            normalize_type(t);
        }
    }
    if let Some(t) = &mut b.ret {
        normalize_type(t);
    }
    if let Some(t) = &mut b.vararg_type {
        normalize_type(t);
    }
    normalize_block(&mut b.body);
}

pub fn normalize_block(block: &mut r::Block) {
    for s in block.stats.iter_mut() {
        s.line = 0;
        s.start = 0;
        s.end = 0;
        match &mut s.stat {
            r::Stat::Local { names, .. } => {
                for n in names {
                    n.pos = 0;
                    if let Some(t) = &mut n.ty {
                        normalize_type(t);
                    }
                }
            }
            r::Stat::NumFor { var, .. } => var.pos = 0,
            r::Stat::GenFor { names, .. } => {
                for n in names {
                    n.pos = 0;
                }
            }
            r::Stat::Function { name, body } => {
                name.base_pos = 0;
                normalize_body(body);
            }
            r::Stat::LocalFunction { pos, body, .. } => {
                *pos = 0;
                normalize_body(body);
            }
            r::Stat::TypeDecl { ty, .. } => normalize_type(ty),
            _ => {}
        }
        // nested blocks
        match &mut s.stat {
            r::Stat::Do(b) | r::Stat::While(_, b) | r::Stat::Repeat(b, _) => normalize_block(b),
            r::Stat::If(branches, else_b) => {
                for (_, b) in branches {
                    normalize_block(b);
                }
                if let Some(b) = else_b {
                    normalize_block(b);
                }
            }
            r::Stat::NumFor { body, .. } | r::Stat::GenFor { body, .. } => normalize_block(body),
            _ => {}
        }
    }
    // expressions (function-expression bodies are normalised through normalize_expr)
    let mut copy = std::mem::take(block);
    for s in copy.stats.iter_mut() {
        crate::luaref::walk::map_stat_top(&mut s.stat, &mut |e| normalize_expr(e));
    }
    *block = copy;
}
