//! Lexical binding resolution: maps every identifier occurrence to its declaration or to a global name.
use super::ast::*;

#[derive(Clone, Debug, PartialEq, Eq)]
pub enum Binding {
    Local(usize),
    Global(String),
}

#[derive(Clone, Debug)]
pub struct Occurrence {
    pub pos: usize,
    pub name: String,
    pub binding: Binding,
    pub is_decl: bool,
}

struct Rz {
    scopes: Vec<Vec<(String, usize)>>,
    next_decl: usize,
    out: Vec<Occurrence>,
}

impl Rz {
    fn push(&mut self) {
        self.scopes.push(Vec::new());
    }
    fn pop(&mut self) {
        self.scopes.pop();
    }
    fn declare(&mut self, name: &str, pos: Option<usize>) -> usize {
        let id = self.next_decl;
        self.next_decl += 1;
        self.scopes.last_mut().unwrap().push((name.to_owned(), id));
        if let Some(pos) = pos {
            self.out.push(Occurrence {
                pos,
                name: name.to_owned(),
                binding: Binding::Local(id),
                is_decl: true,
            });
        }
        id
    }
    fn lookup(&self, name: &str) -> Binding {
        for scope in self.scopes.iter().rev() {
            for (n, id) in scope.iter().rev() {
                if n == name {
                    return Binding::Local(*id);
                }
            }
        }
        Binding::Global(name.to_owned())
    }
    fn use_name(&mut self, name: &str, pos: usize) {
        let binding = self.lookup(name);
        self.out.push(Occurrence {
            pos,
            name: name.to_owned(),
            binding,
            is_decl: false,
        });
    }

    fn block(&mut self, b: &Block) {
        self.push();
        self.stats(b);
        self.pop();
    }

    fn stats(&mut self, b: &Block) {
        for s in &b.stats {
            self.stat(&s.stat);
        }
    }

    fn ty_opt(&mut self, t: &Option<Type>) {
        if let Some(t) = t {
            self.ty(t);
        }
    }

    fn ty(&mut self, t: &Type) {
        match t {
            Type::Typeof(e) => self.expr(e),
            Type::Name { ns, ns_pos, params, .. } => {
                // `Module.Type`: the namespace is a variable reference
                if let Some(ns) = ns {
                    self.use_name(ns, *ns_pos);
                }
                if let Some(ps) = params {
                    for p in ps {
                        self.ty(p);
                    }
                }
            }
            Type::Table(entries) => {
                for e in entries {
                    match e {
                        TableTypeEntry::Prop { ty, .. } | TableTypeEntry::StringProp { ty, .. } => self.ty(ty),
                        TableTypeEntry::Indexer { key, ty, .. } => {
                            self.ty(key);
                            self.ty(ty);
                        }
                    }
                }
            }
            Type::Array(t, _) | Type::Paren(t) | Type::Optional(t) | Type::Variadic(t) => self.ty(t),
            Type::Function {
                generics,
                params,
                variadic,
                ret,
            } => {
                for g in generics {
                    self.ty_opt(&g.default);
                }
                for (_, p) in params {
                    self.ty(p);
                }
                if let Some(v) = variadic {
                    self.ty(v);
                }
                self.ty(ret);
            }
            Type::Union(ts) | Type::Inter(ts) => {
                for t in ts {
                    self.ty(t);
                }
            }
            Type::Pack(ts, v) => {
                for t in ts {
                    self.ty(t);
                }
                if let Some(v) = v {
                    self.ty(v);
                }
            }
            Type::Nil | Type::True | Type::False | Type::Str(_) | Type::GenericPack(_) => {}
        }
    }

    /// Luau resolves names while it parses: the annotations of the signature are read before the parameters (and the
    /// name of a `local function`) are declared, so they see the names of the code around the function.
    fn func(&mut self, f: &FuncBody) {
        self.func_named(f, None);
    }

    fn func_named(&mut self, f: &FuncBody, local_name: Option<(&str, usize)>) {
        for p in &f.params {
            self.ty_opt(&p.ty);
        }
        self.ty_opt(&f.vararg_type);
        self.ty_opt(&f.ret);
        if let Some((name, pos)) = local_name {
            self.declare(name, Some(pos));
        }
        self.push();
        if f.has_self {
            self.declare("self", None);
        }
        for p in &f.params {
            self.declare(&p.name, Some(p.pos));
        }
        self.block(&f.body);
        self.pop();
    }

    fn stat(&mut self, s: &Stat) {
        match s {
            Stat::Local { names, exprs, .. } => {
                for e in exprs {
                    self.expr(e);
                }
                for n in names {
                    self.ty_opt(&n.ty);
                }
                for n in names {
                    self.declare(&n.name, Some(n.pos));
                }
            }
            Stat::Assign { targets, exprs } => {
                for t in targets {
                    self.expr(t);
                }
                for e in exprs {
                    self.expr(e);
                }
            }
            Stat::CompoundAssign { target, expr, .. } => {
                self.expr(target);
                self.expr(expr);
            }
            Stat::Call(e) => self.expr(e),
            Stat::Do(b) => self.block(b),
            Stat::While(c, b) => {
                self.expr(c);
                self.block(b);
            }
            Stat::Repeat(b, c) => {
                self.push();
                self.stats(b);
                self.expr(c);
                self.pop();
            }
            Stat::If(branches, else_b) => {
                for (c, b) in branches {
                    self.expr(c);
                    self.block(b);
                }
                if let Some(b) = else_b {
                    self.block(b);
                }
            }
            Stat::NumFor {
                var,
                start,
                end,
                step,
                body,
            } => {
                self.expr(start);
                self.expr(end);
                if let Some(s) = step {
                    self.expr(s);
                }
                self.push();
                self.ty_opt(&var.ty);
                self.declare(&var.name, Some(var.pos));
                self.block(body);
                self.pop();
            }
            Stat::GenFor { names, exprs, body } => {
                for e in exprs {
                    self.expr(e);
                }
                self.push();
                for n in names {
                    self.ty_opt(&n.ty);
                }
                for n in names {
                    self.declare(&n.name, Some(n.pos));
                }
                self.block(body);
                self.pop();
            }
            Stat::Function { name, body } => {
                self.use_name(&name.base, name.base_pos);
                self.func(body);
            }
            Stat::LocalFunction { name, pos, body, .. } => {
                self.func_named(body, Some((name, *pos)));
            }
            Stat::Return(exprs) => {
                for e in exprs {
                    self.expr(e);
                }
            }
            Stat::Break | Stat::Continue => {}
            Stat::TypeDecl { generics, ty, .. } => {
                for g in generics {
                    self.ty_opt(&g.default);
                }
                self.ty(ty);
            }
            Stat::TypeFunction { body, .. } => {
                // a type function runs in an environment of its own: it sees its parameters and locals, never the
                // locals of the code around it
                let saved = std::mem::take(&mut self.scopes);
                self.func(body);
                self.scopes = saved;
            }
        }
    }

    fn expr(&mut self, e: &Expr) {
        match e {
            Expr::Nil | Expr::True | Expr::False | Expr::Number(_) | Expr::Str(_) | Expr::Vararg => {}
            Expr::Function(f) => self.func(f),
            Expr::Name(n, pos) => self.use_name(n, *pos),
            Expr::Index(a, b) => {
                self.expr(a);
                self.expr(b);
            }
            Expr::Field(a, _) => self.expr(a),
            Expr::Call(f, args, _) => {
                self.expr(f);
                for a in args {
                    self.expr(a);
                }
            }
            Expr::MethodCall(o, _, args, _, tys) => {
                self.expr(o);
                for t in tys.iter().flatten() {
                    self.ty(t);
                }
                for a in args {
                    self.expr(a);
                }
            }
            Expr::Binary(_, a, b) => {
                self.expr(a);
                self.expr(b);
            }
            Expr::Unary(_, a) | Expr::Paren(a) => self.expr(a),
            Expr::Table(items) => {
                for it in items {
                    match it {
                        TableItem::Pos(v) | TableItem::Named(_, v) => self.expr(v),
                        TableItem::Keyed(k, v) => {
                            self.expr(k);
                            self.expr(v);
                        }
                    }
                }
            }
            Expr::IfExpr(branches, else_e) => {
                for (c, v) in branches {
                    self.expr(c);
                    self.expr(v);
                }
                self.expr(else_e);
            }
            Expr::Interp(parts) => {
                for p in parts {
                    if let InterpPart::Expr(x) = p {
                        self.expr(x);
                    }
                }
            }
            Expr::Cast(x, t) => {
                self.expr(x);
                self.ty(t);
            }
            Expr::Instantiate(x, ts) => {
                self.expr(x);
                for t in ts {
                    self.ty(t);
                }
            }
        }
    }
}

/// all identifier occurrences (declarations and uses) sorted by source position
pub fn resolve(block: &Block) -> Vec<Occurrence> {
    let mut r = Rz {
        scopes: Vec::new(),
        next_decl: 0,
        out: Vec::new(),
    };
    r.block(block);
    r.out.sort_by_key(|o| o.pos);
    r.out
}
