//! Conformance vectors for the reference interpreter, transcribed from the Lua 5.1 manual (§2.2–2.8, §5.1, §5.4)
//! and the Luau documentation. `ret` is the canonical serialisation of the chunk's return values.
use super::{observe, Mode, Outcome, DEFAULT_FUEL};

pub struct Vector {
    pub src: &'static str,
    pub ret: &'static str,
    pub log: &'static [&'static str],
}

const fn v(src: &'static str, ret: &'static str) -> Vector {
    Vector { src, ret, log: &[] }
}
const fn vl(src: &'static str, ret: &'static str, log: &'static [&'static str]) -> Vector {
    Vector { src, ret, log }
}

pub const VECTORS: &[Vector] = &[
    // literals & arithmetic
    v("return 1 + 2", "3.0"),
    v("return 7 - 10", "-3.0"),
    v("return 2 * 3.5", "7.0"),
    v("return 7 / 2", "3.5"),
    v("return 7 % 3", "1.0"),
    v("return -7 % 3", "2.0"),
    v("return 7 % -3", "-2.0"),
    v("return -7 % -3", "-1.0"),
    v("return 7.5 % 2", "1.5"),
    v("return -7.5 % 2", "0.5"),
    v("return 2 ^ 10", "1024.0"),
    v("return 2 ^ 0.5 == math.sqrt(2)", "true"),
    v("return 1 / 0", "inf"),
    v("return -1 / 0", "-inf"),
    v("return 0 / 0 ~= 0 / 0", "true"),
    v("return 7 // 2", "3.0"),
    v("return -7 // 2", "-4.0"),
    v("return 7 // -2", "-4.0"),
    v("return 7.5 // 2", "3.0"),
    v("return -7.5 // 2", "-4.0"),
    v("return 7 // 0.5", "14.0"),
    v("return 7 // 0", "inf"),
    v("return -7 // 0", "-inf"),
    v("return 1 // (1/0)", "0.0"),
    v("return -1 // (1/0)", "-0.0"),
    v("return 1 / (-0 // 1)", "-inf"),
    v("return math.floor(-0.5), math.floor(7 / 2)", "-1.0, 3.0"),
    v("return -2 ^ 2", "-4.0"),
    v("return 2 ^ 3 ^ 2", "512.0"),
    v("return 2 ^ -1", "0.5"),
    v("return -2 ^ -2", "-0.25"),
    v("return 1 + 2 * 3", "7.0"),
    v("return (1 + 2) * 3", "9.0"),
    v("return 10 - 2 - 3", "5.0"),
    v("return 2 * 3 % 4", "2.0"),
    v("return 1 .. 2", "\"12\""),
    v("return 'a' .. 'b' .. 'c'", "\"abc\""),
    v("return 1 .. 2 == '12'", "true"),
    v("return 'a' .. 1 + 2", "\"a3\""),
    v("return 1 < 2 == true", "true"),
    v("return not 1 == 2", "false"),
    v("return not (1 == 2)", "true"),
    v("return #'abc' + 1", "4.0"),
    v("return -'2'", "-2.0"),
    v("return '10' + 1", "11.0"),
    v("return '0x10' + 0", "16.0"),
    v("return ' 1 ' + 0", "1.0"),
    v("return '1e2' * 1", "100.0"),
    v("return 10 .. ''", "\"10\""),
    v("return 1.5 .. ''", "\"1.5\""),
    v("return -0.0 .. ''", "\"-0\""),
    v("return 2^31 .. ''", "\"2147483648\""),
    v("return 0.1 .. ''", "\"0.1\""),
    v("return 1/0 .. ''", "\"inf\""),
    // comparison
    v("return 1 == 1, 1 == '1', 'a' == 'a', nil == false", "true, false, true, false"),
    v("return 1 ~= 2, 'a' < 'b', 'a' < 'B', 'Z' < 'a', '' < 'a'", "true, true, false, true, true"),
    v("return 'a' <= 'a', 2 >= 3, 2 > 1", "true, false, true"),
    v("return {} == {}", "false"),
    v("local t = {} return t == t", "true"),
    // and / or / not
    v("return 1 and 2", "2.0"),
    v("return nil and 2", "nil"),
    v("return false and 2", "false"),
    v("return 1 or 2", "1.0"),
    v("return nil or 2", "2.0"),
    v("return false or nil", "nil"),
    v("return nil or false", "false"),
    v("return 1 and nil or 3", "3.0"),
    v("return false or false and 1", "false"),
    v("return 1 or error('no')", "1.0"),
    v("return not nil, not 0, not ''", "true, false, false"),
    vl("return EN() and E1('x')", "nil", &["EN()"]),
    vl("return E1() or E1('x')", "1.0", &["E1()"]),
    // multiple values
    vl("return E1()", "1.0, 2.0", &["E1()"]),
    vl("return (E1())", "1.0", &["E1()"]),
    vl("return E1(), 0", "1.0, 0.0", &["E1()"]),
    vl("return 0, E1()", "0.0, 1.0, 2.0", &["E1()"]),
    vl("local a, b, c = E1() return a, b, c", "1.0, 2.0, nil", &["E1()"]),
    vl("local a, b = E1(), 5 return a, b", "1.0, 5.0", &["E1()"]),
    vl("local a = E1() return a", "1.0", &["E1()"]),
    vl("return {E1()}", "#1{1.0,2.0,}", &["E1()"]),
    vl("return {E1(), 3}", "#1{1.0,3.0,}", &["E1()"]),
    vl("return #{E1(), E1()}", "3.0", &["E1()", "E1()"]),
    vl("return E1(E1())", "1.0, 2.0", &["E1()", "E1(1.0, 2.0)"]),
    vl("return E1((E1()))", "1.0, 2.0", &["E1()", "E1(1.0)"]),
    vl("return true and E1()", "1.0", &["E1()"]),
    vl("return E0()", "", &["E0()"]),
    vl("return (E0())", "nil", &["E0()"]),
    vl("local a = E0() return a", "nil", &["E0()"]),
    v("return (function(...) return ... end)(1, nil, 3)", "1.0, nil, 3.0"),
    v("return (function(...) return (...) end)(1, nil, 3)", "1.0"),
    v("return (function(...) return select('#', ...) end)(1, nil, nil)", "3.0"),
    v("return (function(...) return select(2, ...) end)(1, 2, 3)", "2.0, 3.0"),
    v("return (function(...) local a, b = ... return b end)(1, 2, 3)", "2.0"),
    v("return (function(...) return {...} end)(1, 2)", "#1{1.0,2.0,}"),
    v("return (function(...) return ..., 0 end)(1, 2)", "1.0, 0.0"),
    v("return select('#')", "0.0"),
    v("return select('#', nil)", "1.0"),
    v("return unpack({1, 2, 3})", "1.0, 2.0, 3.0"),
    v("return unpack({1, 2, 3}, 2)", "2.0, 3.0"),
    v("return (unpack({1, 2}))", "1.0"),
    // assignment
    v("local a, b = 1, 2 a, b = b, a return a, b", "2.0, 1.0"),
    v("local a = 1 local a = a + 1 return a", "2.0"),
    v("local i = 1 local t = {} i, t[i] = i + 1, 20 return i, t[1], t[2]", "2.0, 20.0, nil"),
    v("local a, b, c = 1 return a, b, c", "1.0, nil, nil"),
    v("local a, b = 1, 2, 3 return a, b", "1.0, 2.0"),
    vl("local a = 1, E1('x') return a", "1.0", &["E1(\"x\")"]),
    v("x = 1 return x, _G.x, _G['x']", "1.0, 1.0, 1.0"),
    v("local x = 1 return _G.x", "nil"),
    // scoping
    v("local x = 1 do local x = 2 end return x", "1.0"),
    v("local x = 1 do x = 2 end return x", "2.0"),
    v("local function f() return f end return f() == f", "true"),
    v("local f = 1 local f = function() return f end return f()", "1.0"),
    v("local function f(n) if n == 0 then return 0 end return n + f(n - 1) end return f(4)", "10.0"),
    v("local x = 0 repeat local y = x + 1 x = y until y >= 3 return x", "3.0"),
    v("local t = {} for i = 1, 3 do t[i] = function() return i end end return t[1](), t[2](), t[3]()", "1.0, 2.0, 3.0"),
    v("local t = {} for i = 1, 2 do local j = i * 10 t[i] = function() j = j + 1 return j end end return t[1](), t[1](), t[2]()", "11.0, 12.0, 21.0"),
    v("local a = 1 local function f() a = a + 1 return a end local b = f() return a, b", "2.0, 2.0"),
    v("local function mk() local c = 0 return function() c = c + 1 return c end end local a, b = mk(), mk() return a(), a(), b()", "1.0, 2.0, 1.0"),
    v("for i = 1, 3 do local i = i * 2 end return 1", "1.0"),
    v("local s = 0 for i = 1, 3 do s = s + i end return s", "6.0"),
    v("local s = 0 for i = 3, 1, -1 do s = s * 10 + i end return s", "321.0"),
    v("local s = 0 for i = 1, 0 do s = 1 end return s", "0.0"),
    v("local s = 0 for i = 1, 2, 0.5 do s = s + 1 end return s", "3.0"),
    v("local n = 3 local s = 0 for i = 1, n do n = 0 s = s + 1 end return s", "3.0"),
    v("local s = 0 for i = 1, 3 do i = 10 s = s + 1 end return s", "3.0"),
    v("local s = '' for i, v in ipairs({'a', 'b', nil, 'd'}) do s = s .. i .. v end return s", "\"1a2b\""),
    v("local s = 0 for k, v in pairs({5, 6}) do s = s + k * v end return s", "17.0"),
    v("local s = 0 for k, v in next, {5, 6} do s = s + k * v end return s", "17.0"),
    v("local i = 0 while true do i = i + 1 if i > 3 then break end end return i", "4.0"),
    v("local i = 0 while i < 3 do i = i + 1 end return i", "3.0"),
    v("local i = 0 repeat i = i + 1 until true return i", "1.0"),
    v("for i = 1, 3 do for j = 1, 3 do if j == 2 then break end end if i == 2 then return i end end", "2.0"),
    v("if nil then return 1 elseif 0 then return 2 else return 3 end", "2.0"),
    v("if false then return 1 end", ""),
    // tables
    v("local t = {1, 2, 3} return #t", "3.0"),
    v("local t = {} t[1] = 1 t[2] = 2 return #t", "2.0"),
    v("local t = {10, 20, x = 1, ['y z'] = 2, [3] = 30} return t[1], t[3], t.x, t['y z']", "10.0, 30.0, 1.0, 2.0"),
    v("local t = {} t.a = {} t.a.b = 5 return t.a.b, t['a']['b']", "5.0, 5.0"),
    v("local t = {[1] = 'a', 'b'} return t[1]", "\"b\""),
    v("local t = {f = function(self, x) return self.v + x end, v = 1} return t:f(2), t.f(t, 3)", "3.0, 4.0"),
    v("local t = {v = 1} function t:get() return self.v end function t.set(o, x) o.v = x end t:set(5) return t:get()", "5.0"),
    v("local t = {a = {b = {}}} function t.a.b.c(x) return x end function t.a.b:d() return self == t.a.b end return t.a.b.c(1), t.a.b:d()", "1.0, true"),
    v("local t = {} t[1.0] = 'a' return t[1]", "\"a\""),
    v("local t = {} t['1'] = 'a' return t[1]", "nil"),
    v("return ({1, 2})[2], ({n = 1}).n", "2.0, 1.0"),
    v("return #'', #'\\0a'", "0.0, 2.0"),
    v("local t = {1, 2} table.insert(t, 3) table.insert(t, 1, 0) return table.concat(t, ',')", "\"0,1,2,3\""),
    v("return {1, {2}}", "#1{1.0,#2{2.0,},}"),
    v("local t = {} t.t = t return t", "#1{[\"t\"]=#1,}"),
    // strings
    v("return 'a\\nb', \"\\65\\066\\x43\", '\\u{48}', 'a\\z   b'", "\"a\\x0ab\", \"ABC\", \"H\", \"ab\""),
    v("return [[\nab]], [==[a]]b]==], #[[\r\nx]]", "\"ab\", \"a]]b\", 1.0"),
    v("return ('x'):rep(3), ('abc'):sub(2), ('abc'):sub(-2, -2), ('abc'):len(), ('abc'):upper()", "\"xxx\", \"bc\", \"b\", 3.0, \"ABC\""),
    v("return string.format('%s-%d-%%', 'a', 3), string.format('%s', 1.5)", "\"a-3-%\", \"1.5\""),
    v("return tostring(nil), tostring(true), tostring(12), tostring('x')", "\"nil\", \"true\", \"12\", \"x\""),
    v("return tonumber('12'), tonumber('  0x1F '), tonumber('1e1'), tonumber('z'), tonumber(''), tonumber(nil)", "12.0, 31.0, 10.0, nil, nil, nil"),
    v("return type(nil), type(1), type('a'), type({}), type(print), type(function() end)", "\"nil\", \"number\", \"string\", \"table\", \"function\", \"function\""),
    v("return 0x10, 0xff, 1e2, .5, 5., 3e-2", "16.0, 255.0, 100.0, 0.5, 5.0, 0.03"),
    v("return 0b101, 1_000, 0x_f, 1e1_0", "5.0, 1000.0, 15.0, 10000000000.0"),
    // metatables
    v("local t = setmetatable({}, {__index = function(t, k) return k .. '!' end}) return t.x, rawget(t, 'x')", "\"x!\", nil"),
    v("local b = {y = 2} local t = setmetatable({}, {__index = b}) return t.y, t.z", "2.0, nil"),
    v("local log = {} local t = setmetatable({}, {__newindex = function(t, k, v) rawset(t, k, v * 2) end}) t.a = 1 t.a = 5 return t.a", "5.0"),
    v("local mt = {__add = function(a, b) return 'add' end} local t = setmetatable({}, mt) return t + 1, 1 + t, t + t", "\"add\", \"add\", \"add\""),
    v("local mt = {__concat = function(a, b) return 'cat' end} local t = setmetatable({}, mt) return t .. 'x', 'x' .. t, 1 .. t", "\"cat\", \"cat\", \"cat\""),
    v("local mt = {__call = function(self, a, b) return a + b, self end} local t = setmetatable({}, mt) local r, s = t(1, 2) return r, s == t", "3.0, true"),
    v("local mt = {__eq = function() return true end} local a, b = setmetatable({}, mt), setmetatable({}, mt) return a == b, a ~= b, a == 1", "true, false, false"),
    v("local mt = {__lt = function() return true end, __le = function() return false end} local a, b = setmetatable({}, mt), setmetatable({}, mt) return a < b, a <= b, a > b, a >= b", "true, false, true, false"),
    v("local mt = {__unm = function() return 'neg' end} return -setmetatable({}, mt)", "\"neg\""),
    v("local mt = {} mt.__index = mt function mt.hi() return 'hi' end local o = setmetatable({}, mt) return o.hi(), getmetatable(o) == mt", "\"hi\", true"),
    vl("local m = ET'm' return m.k", "7.0", &["ET(m)", "mm:__index(<ET:m>, \"k\")"]),
    vl("local m = ET'm' m.k = 1 return m + 1", "11.0", &["ET(m)", "mm:__newindex(<ET:m>, \"k\", 1.0)", "mm:__add(<ET:m>, 1.0)"]),
    vl("local m = ET'm' return m(5)", "1.0, 2.0", &["ET(m)", "mm:__call(<ET:m>, 5.0)"]),
    vl("local m, n = ET'm', ET'n' return m == n, m < n, m >= n", "true, true, false", &["ET(m)", "ET(n)", "mm:__eq(<ET:m>, <ET:n>)", "mm:__lt(<ET:m>, <ET:n>)", "mm:__le(<ET:n>, <ET:m>)"]),
    // evaluation order
    vl("return EI(1) + EI(2) * EI(3)", "7.0", &["EI(1.0)", "EI(2.0)", "EI(3.0)"]),
    vl("return EI(1) .. EI(2) .. EI(3)", "\"123\"", &["EI(1.0)", "EI(2.0)", "EI(3.0)"]),
    vl("local t = {} t[EI(1)] = EI(2) return t[1]", "2.0", &["EI(1.0)", "EI(2.0)"]),
    vl("local t = {} t[EI(1)], t[EI(2)] = EI(3), EI(4) return t[1], t[2]", "3.0, 4.0", &["EI(1.0)", "EI(2.0)", "EI(3.0)", "EI(4.0)"]),
    vl("return EI(EI)(EI(1), EI(2))", "1.0, 2.0", &["EI(<ext:EI>)", "EI(1.0)", "EI(2.0)", "EI(1.0, 2.0)"]),
    vl("return {EI(1), k = EI(2), [EI(3)] = EI(4)}", "#1{1.0,[\"k\"]=2.0,[3.0]=4.0,}", &["EI(1.0)", "EI(2.0)", "EI(3.0)", "EI(4.0)"]),
    vl("local o = {m = function(self, a) return a end} return EI(o):m(EI(1))", "1.0", &["EI(#1{[\"m\"]=<fn>,})", "EI(1.0)"]),
    // pcall / error
    v("return pcall(function() error({code = 1}) end)", "false, #1{[\"code\"]=1.0,}"),
    v("return pcall(function() error('msg', 0) end)", "false, \"msg\""),
    v("return pcall(function() return 1, 2 end)", "true, 1.0, 2.0"),
    v("return pcall(error)", "false, nil"),
    v("return select('#', pcall(function() local x = nil; return x.y end))", "2.0"),
    v("return (pcall(function() return 1 + {} end))", "false"),
    v("return (pcall(function() return #5 end))", "false"),
    v("return (pcall(function() return {} < {} end))", "false"),
    v("return (pcall(function() return 1 < 'a' end))", "false"),
    v("return (pcall(function() return nil .. 'a' end))", "false"),
    v("return (pcall(function() local t = {} t[nil] = 1 end))", "false"),
    v("return assert(1, 2, 3)", "1.0, 2.0, 3.0"),
    v("return pcall(assert, false, 'm')", "false, \"m\""),
    v("return pcall(assert, nil)", "false, \"<error:assertion failed!>\""),
    // luau extensions
    v("local a = 1 a += 2 a *= 3 a -= 1 a /= 2 a ^= 2 a %= 5 a //= 2 return a", "0.0"),
    v("local s = 'a' s ..= 'b' return s", "\"ab\""),
    vl("local t = {v = 1} EI(t).v += EI(2) return t.v", "3.0", &["EI(#1{[\"v\"]=1.0,})", "EI(2.0)"]),
    vl("local m = ET'm' m[EI('k')] += EI(1)", "", &["ET(m)", "EI(\"k\")", "mm:__index(<ET:m>, \"k\")", "EI(1.0)", "mm:__newindex(<ET:m>, \"k\", 8.0)"]),
    v("local s = 0 for i = 1, 5 do if i % 2 == 0 then continue end s = s + i end return s", "9.0"),
    v("local i, s = 0, 0 while i < 5 do i = i + 1 if i == 2 then continue end s = s + i end return s", "13.0"),
    v("local i = 0 repeat i = i + 1 if i < 3 then continue end until i >= 3 return i", "3.0"),
    v("local s = 0 for i = 1, 5 do if i == 2 then continue end if i == 4 then break end s = s + i end return s", "4.0"),
    v("return if true then 1 else 2", "1.0"),
    v("return if nil then 1 elseif false then 2 elseif 0 then 3 else 4", "3.0"),
    v("return if false then 1 else false", "false"),
    vl("return if EN() then E1('a') else E1('b')", "1.0", &["EN()", "E1(\"b\")"]),
    v("return (if true then 1 else 2) + 1", "2.0"),
    v("local x = 5 return `a{x}b`, `{x}{x}`, `plain`, `{1 + 1}`, `\\{x}`", "\"a5b\", \"55\", \"plain\", \"2\", \"{x}\""),
    v("return `{nil} {true} {'s'}`", "\"nil true s\""),
    v("local t = setmetatable({}, {__tostring = function() return 'T' end}) return `{t}`, tostring(t)", "\"T\", \"T\""),
    v("return `a{`b{1}`}c`", "\"ab1c\""),
    v("return `{ ({1, 2})[2] }`", "\"2\""),
    v("local x: number = 1 local y = x :: any return y", "1.0"),
    vl("return E1() :: any", "1.0", &["E1()"]),
    v("type T = {a: number} export type U<X> = X | nil local function f<A>(a: A, ...: any): (A, ...any) return a, ... end return f(1, 2)", "1.0, 2.0"),
    v("const a = 1 const function f() return a end return f()", "1.0"),
    v("local continue = 1 local type = 2 local export = 3 return continue + type + export", "6.0"),
    v("return math.sqrt(4), 4 ^ 0.5, math.sqrt(-0.0) , (-0.0) ^ 0.5", "2.0, 2.0, -0.0, 0.0"),
    v("return math.sqrt(-1/0) ~= math.sqrt(-1/0), (-1/0) ^ 0.5", "true, inf"),
    v("return math.huge, -math.huge, math.max(1, 3, 2), math.min(2, 1), math.abs(-2)", "inf, -inf, 3.0, 1.0, 2.0"),
    v("return rawequal('a', 'a'), rawequal({}, {}), next({}), next({5})", "true, false, nil, 1.0, 5.0"),
    v("local t = {} local r = rawset(t, 'a', 1) return r == t, t.a", "true, 1.0"),
    v("return string.byte('A'), string.char(72, 105), ('x'):byte()", "65.0, \"Hi\", 120.0"),
    vl("local m = ET'q' return tostring(m)", "\"ET\"", &["ET(q)", "mm:__tostring(<ET:q>)"]),
    vl("local m = ET'q' return `a{m}b{E1()}`", "\"aETb1\"", &["ET(q)", "E1()", "mm:__tostring(<ET:q>)"]),
];

/// programs both dialects reject (Lua 5.1 manual 2.5.9: `...` only inside a vararg function)
pub const REJECTED: &[&str] = &[
    "local function f() return ... end",
    "local function f(...) return function() return ... end end",
    "local f = function(a) local b = ... end",
    "function t:m() print(...) end",
];

/// programs Luau rejects (a const binding cannot be assigned)
pub const REJECTED_LUAU: &[&str] = &["const a = 1 a = 2", "const a, b = 1, 2 b += 1", "const function f() end f = nil", "const a = 1 do local function g() a = 3 end end", "const a = 1 function a() end"];
pub const ACCEPTED_LUAU: &[&str] = &["const a = 1 local a = 2 a = 3", "const a = 1 do local a a = 2 end return a", "const t = {} t.x = 1 t[1] = 2", "local a = 1 const b = a a = 2"];

/// Lua 5.1 only (llex.c, read_long_string): `[[` inside a level-0 long string or comment is an error
pub const REJECTED_LUA51: &[&str] = &["return [[a [[b]]", "--[[ c [[ d ]] return 1", "return [[ [[ ]]"];
/// Lua 5.1 (lparser.c, funcargs): a `(` on another line than the expression it would call is "ambiguous syntax". Luau reports
/// the same text as ambiguous too, but luaref's Luau grammar is lenient there, so only the Lua 5.1 side is asserted.
pub const AMBIGUOUS_LUA51: &[&str] = &["f\n(1)", "local a = f\n(g)()", "a:b\n(1)", "return a.b:c\n\n(1)", "f{}\n(1)", "f\"s\"\n(1)"];
pub const ACCEPTED_BOTH: &[&str] = &["return [=[a [[b]=]", "return [[a [=[b]]", "return [[a [ [b]]", "--[==[ c [[ d ]==] return 1"];

pub const ACCEPTED: &[&str] = &["return ...", "local a = ... return function(...) return ... end", "local function f(a, ...) return select('#', ...) end"];

/// returns the list of failures
pub fn run_vectors() -> Vec<String> {
    let mut failures = Vec::new();
    for src in REJECTED {
        for mode in [Mode::Luau, Mode::Lua51] {
            if super::parser::parse(src.as_bytes(), mode).is_ok() {
                failures.push(format!("`{}` must be rejected", src));
            }
        }
    }
    for src in REJECTED_LUA51 {
        if super::parser::parse(src.as_bytes(), Mode::Lua51).is_ok() {
            failures.push(format!("`{}` must be rejected by the Lua 5.1 grammar", src));
        }
        if super::parser::parse(src.as_bytes(), Mode::Luau).is_err() {
            failures.push(format!("`{}` must be accepted by the Luau grammar", src));
        }
    }
    for src in AMBIGUOUS_LUA51 {
        if super::parser::parse(src.as_bytes(), Mode::Lua51).is_ok() {
            failures.push(format!("`{}` must be rejected by the Lua 5.1 grammar (ambiguous syntax)", src));
        }
    }
    for src in ACCEPTED_BOTH {
        for mode in [Mode::Luau, Mode::Lua51] {
            if super::parser::parse(src.as_bytes(), mode).is_err() {
                failures.push(format!("`{}` must be accepted", src));
            }
        }
    }
    for src in REJECTED_LUAU {
        if super::parser::parse(src.as_bytes(), Mode::Luau).is_ok() {
            failures.push(format!("`{}` must be rejected", src));
        }
    }
    for src in ACCEPTED_LUAU {
        if super::parser::parse(src.as_bytes(), Mode::Luau).is_err() {
            failures.push(format!("`{}` must be accepted", src));
        }
    }
    for src in ACCEPTED {
        if super::parser::parse(src.as_bytes(), Mode::Lua51).is_err() {
            failures.push(format!("`{}` must be accepted", src));
        }
    }
    for vec in VECTORS {
        let obs = observe(vec.src, Mode::Luau, DEFAULT_FUEL, &|_| {});
        let ok = match &obs.outcome {
            Outcome::Returned(r) => r == vec.ret && obs.log.iter().map(|s| s.as_str()).collect::<Vec<_>>() == vec.log,
            _ => false,
        };
        if !ok {
            failures.push(format!("vector `{}`: expected {} {:?}, got {}", vec.src, vec.ret, vec.log, obs.render()));
        }
    }
    failures
}
