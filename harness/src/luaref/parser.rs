//! Independent recursive-descent parser for Lua 5.1 and Luau.
use super::ast::*;
use super::lexer::{is_keyword, lex, Comment, Mode, Tok, Token};
use std::fmt;
use std::rc::Rc;

#[derive(Clone, Debug)]
pub struct ParseError {
    pub pos: usize,
    pub msg: String,
}

impl fmt::Display for ParseError {
    fn fmt(&self, f: &mut fmt::Formatter<'_>) -> fmt::Result {
        write!(f, "parse error at byte {}: {}", self.pos, self.msg)
    }
}

pub struct Parsed {
    pub block: Block,
    pub tokens: Vec<Token>,
    pub comments: Vec<Comment>,
    /// byte spans covered by Luau type syntax (annotations incl. their `:`/`::`/`->`, generics, type declarations)
    pub type_spans: Vec<(usize, usize)>,
    pub census: Census,
}

struct P<'a> {
    src: &'a [u8],
    toks: Vec<Token>,
    i: usize,
    mode: Mode,
    type_spans: Vec<(usize, usize)>,
    census: Census,
    depth: usize,
    /// a `>=`/`>` style split pending: when Some, the current token is treated as this symbol first
    split: Option<&'static str>,
    /// whether `...` is available in each enclosing function (the main chunk is a vararg function)
    vararg_scopes: Vec<bool>,
}

type R<T> = Result<T, ParseError>;

const MAX_DEPTH: usize = 400;

fn binop_of(sym: &str) -> Option<(BinOp, u8, u8)> {
    Some(match sym {
        "or" => (BinOp::Or, 1, 1),
        "and" => (BinOp::And, 2, 2),
        "<" => (BinOp::Lt, 3, 3),
        ">" => (BinOp::Gt, 3, 3),
        "<=" => (BinOp::Le, 3, 3),
        ">=" => (BinOp::Ge, 3, 3),
        "~=" => (BinOp::Ne, 3, 3),
        "==" => (BinOp::Eq, 3, 3),
        ".." => (BinOp::Concat, 9, 8),
        "+" => (BinOp::Add, 10, 10),
        "-" => (BinOp::Sub, 10, 10),
        "*" => (BinOp::Mul, 11, 11),
        "/" => (BinOp::Div, 11, 11),
        "//" => (BinOp::IDiv, 11, 11),
        "%" => (BinOp::Mod, 11, 11),
        "^" => (BinOp::Pow, 14, 13),
        _ => return None,
    })
}
const UNARY_PRIORITY: u8 = 12;

fn compound_of(sym: &str) -> Option<BinOp> {
    Some(match sym {
        "+=" => BinOp::Add,
        "-=" => BinOp::Sub,
        "*=" => BinOp::Mul,
        "/=" => BinOp::Div,
        "//=" => BinOp::IDiv,
        "%=" => BinOp::Mod,
        "^=" => BinOp::Pow,
        "..=" => BinOp::Concat,
        _ => return None,
    })
}

impl<'a> P<'a> {
    fn err<T>(&self, msg: impl Into<String>) -> R<T> {
        Err(ParseError {
            pos: self.toks[self.i].start,
            msg: msg.into(),
        })
    }
    fn cur(&self) -> &Tok {
        &self.toks[self.i].tok
    }
    fn peek(&self, k: usize) -> &Tok {
        let j = (self.i + k).min(self.toks.len() - 1);
        &self.toks[j].tok
    }
    fn pos(&self) -> usize {
        self.toks[self.i].start
    }
    fn prev_end(&self) -> usize {
        if self.i == 0 {
            0
        } else {
            self.toks[self.i - 1].end
        }
    }
    fn line(&self) -> u32 {
        self.toks[self.i].line
    }
    fn advance(&mut self) {
        if self.i < self.toks.len() - 1 {
            self.i += 1;
        }
    }
    fn is_sym(&self, s: &str) -> bool {
        matches!(self.cur(), Tok::Sym(x) if *x == s)
    }
    fn is_kw(&self, s: &str) -> bool {
        matches!(self.cur(), Tok::Name(x) if x == s)
    }
    fn peek_is_sym(&self, k: usize, s: &str) -> bool {
        matches!(self.peek(k), Tok::Sym(x) if *x == s)
    }
    fn peek_is_name(&self, k: usize) -> bool {
        matches!(self.peek(k), Tok::Name(x) if !is_keyword(x))
    }
    fn accept_sym(&mut self, s: &str) -> bool {
        if self.is_sym(s) {
            self.advance();
            true
        } else {
            false
        }
    }
    fn accept_kw(&mut self, s: &str) -> bool {
        if self.is_kw(s) {
            self.advance();
            true
        } else {
            false
        }
    }
    fn expect_sym(&mut self, s: &str) -> R<()> {
        if self.accept_sym(s) {
            Ok(())
        } else {
            self.err(format!("expected `{}` got {:?}", s, self.cur()))
        }
    }
    fn expect_kw(&mut self, s: &str) -> R<()> {
        if self.accept_kw(s) {
            Ok(())
        } else {
            self.err(format!("expected `{}` got {:?}", s, self.cur()))
        }
    }
    fn expect_name(&mut self) -> R<(String, usize)> {
        match self.cur().clone() {
            Tok::Name(n) if !is_keyword(&n) => {
                let p = self.pos();
                self.advance();
                Ok((n, p))
            }
            other => self.err(format!("expected a name, got {:?}", other)),
        }
    }
    fn luau_only(&self, what: &str) -> R<()> {
        if self.mode == Mode::Lua51 {
            self.err(format!("{} is not Lua 5.1", what))
        } else {
            Ok(())
        }
    }
    fn enter(&mut self) -> R<()> {
        self.depth += 1;
        if self.depth > MAX_DEPTH {
            return self.err("nesting too deep for the reference parser");
        }
        Ok(())
    }
    fn leave(&mut self) {
        self.depth -= 1;
    }

    // in type context, `>` may be glued as `>=` ; we split tokens in place
    fn accept_type_gt(&mut self) -> bool {
        if self.is_sym(">") {
            self.advance();
            return true;
        }
        if self.is_sym(">=") {
            // turn into `=`
            let t = &mut self.toks[self.i];
            t.tok = Tok::Sym("=");
            t.start += 1;
            return true;
        }
        false
    }

    fn block_end(&self) -> bool {
        match self.cur() {
            Tok::Eof => true,
            Tok::Name(n) => matches!(n.as_str(), "end" | "else" | "elseif" | "until"),
            _ => false,
        }
    }

    fn parse_block(&mut self) -> R<Block> {
        self.enter()?;
        let mut stats = Vec::new();
        loop {
            while self.is_sym(";") {
                if self.mode == Mode::Lua51 {
                    // Lua 5.1 does not allow empty statements
                    return self.err("empty statement is not Lua 5.1");
                }
                self.advance();
            }
            if self.block_end() {
                break;
            }
            let line = self.line();
            let start = self.pos();
            let stat = self.parse_statement()?;
            let last = matches!(stat, Stat::Return(_) | Stat::Break | Stat::Continue);
            let end = self.prev_end();
            stats.push(StatNode {
                stat,
                line,
                start,
                end,
            });
            self.accept_sym(";");
            if last {
                if self.mode == Mode::Luau {
                    while self.accept_sym(";") {}
                }
                if !self.block_end() {
                    return self.err("statement after a final statement");
                }
                break;
            }
        }
        self.leave();
        Ok(Block { stats })
    }

    fn parse_attributes(&mut self) -> R<Vec<String>> {
        let mut out = Vec::new();
        while self.is_sym("@") {
            self.luau_only("attribute")?;
            self.census.attribute += 1;
            self.advance();
            if self.accept_sym("[") {
                loop {
                    if self.is_sym("]") {
                        break;
                    }
                    let (n, _) = self.expect_name()?;
                    out.push(n);
                    // optional arguments
                    if self.is_sym("(") {
                        self.advance();
                        if !self.is_sym(")") {
                            loop {
                                self.parse_expr()?;
                                if !self.accept_sym(",") {
                                    break;
                                }
                            }
                        }
                        self.expect_sym(")")?;
                    } else if matches!(self.cur(), Tok::Str(_)) {
                        self.advance();
                    } else if self.is_sym("{") {
                        self.parse_table()?;
                    }
                    if !self.accept_sym(",") {
                        break;
                    }
                }
                self.expect_sym("]")?;
            } else {
                let (n, _) = self.expect_name()?;
                out.push(n);
            }
        }
        Ok(out)
    }

    fn parse_statement(&mut self) -> R<Stat> {
        if self.is_sym("@") {
            let attributes = self.parse_attributes()?;
            if self.is_kw("function") {
                return self.parse_function_stat(attributes);
            }
            if self.is_kw("local") && matches!(self.peek(1), Tok::Name(n) if n == "function") {
                self.advance();
                self.advance();
                return self.parse_local_function(attributes, false);
            }
            if self.is_kw("const") && matches!(self.peek(1), Tok::Name(n) if n == "function") {
                self.census.const_decl += 1;
                self.advance();
                self.advance();
                return self.parse_local_function(attributes, true);
            }
            return self.err("attribute must precede a function");
        }
        let name = match self.cur() {
            Tok::Name(n) => n.clone(),
            _ => String::new(),
        };
        match name.as_str() {
            "if" => {
                self.advance();
                let mut branches = Vec::new();
                let cond = self.parse_expr()?;
                self.expect_kw("then")?;
                let b = self.parse_block()?;
                branches.push((cond, b));
                let mut else_block = None;
                loop {
                    if self.accept_kw("elseif") {
                        let cond = self.parse_expr()?;
                        self.expect_kw("then")?;
                        let b = self.parse_block()?;
                        branches.push((cond, b));
                    } else if self.accept_kw("else") {
                        else_block = Some(self.parse_block()?);
                        self.expect_kw("end")?;
                        break;
                    } else {
                        self.expect_kw("end")?;
                        break;
                    }
                }
                Ok(Stat::If(branches, else_block))
            }
            "while" => {
                self.advance();
                let cond = self.parse_expr()?;
                self.expect_kw("do")?;
                let b = self.parse_block()?;
                self.expect_kw("end")?;
                Ok(Stat::While(cond, b))
            }
            "do" => {
                self.advance();
                let b = self.parse_block()?;
                self.expect_kw("end")?;
                Ok(Stat::Do(b))
            }
            "for" => {
                self.advance();
                let first = self.parse_typed_name()?;
                if self.accept_sym("=") {
                    let start = self.parse_expr()?;
                    self.expect_sym(",")?;
                    let end = self.parse_expr()?;
                    let step = if self.accept_sym(",") {
                        Some(self.parse_expr()?)
                    } else {
                        None
                    };
                    self.expect_kw("do")?;
                    let body = self.parse_block()?;
                    self.expect_kw("end")?;
                    Ok(Stat::NumFor {
                        var: first,
                        start,
                        end,
                        step,
                        body,
                    })
                } else {
                    let mut names = vec![first];
                    while self.accept_sym(",") {
                        names.push(self.parse_typed_name()?);
                    }
                    self.expect_kw("in")?;
                    let exprs = self.parse_expr_list()?;
                    self.expect_kw("do")?;
                    let body = self.parse_block()?;
                    self.expect_kw("end")?;
                    Ok(Stat::GenFor { names, exprs, body })
                }
            }
            "repeat" => {
                self.advance();
                let b = self.parse_block()?;
                self.expect_kw("until")?;
                let cond = self.parse_expr()?;
                Ok(Stat::Repeat(b, cond))
            }
            "function" => self.parse_function_stat(Vec::new()),
            "local" => {
                self.advance();
                if self.accept_kw("function") {
                    return self.parse_local_function(Vec::new(), false);
                }
                self.parse_local_rest(false)
            }
            "return" => {
                self.advance();
                let exprs = if self.block_end() || self.is_sym(";") {
                    Vec::new()
                } else {
                    self.parse_expr_list()?
                };
                Ok(Stat::Return(exprs))
            }
            "break" => {
                self.advance();
                Ok(Stat::Break)
            }
            _ => self.parse_expr_statement(),
        }
    }

    fn parse_local_rest(&mut self, is_const: bool) -> R<Stat> {
        let mut names = vec![self.parse_typed_name()?];
        while self.accept_sym(",") {
            names.push(self.parse_typed_name()?);
        }
        let exprs = if self.accept_sym("=") {
            self.parse_expr_list()?
        } else {
            if is_const {
                return self.err("const declaration needs a value");
            }
            Vec::new()
        };
        Ok(Stat::Local {
            names,
            exprs,
            is_const,
        })
    }

    fn parse_local_function(&mut self, attributes: Vec<String>, is_const: bool) -> R<Stat> {
        let (name, pos) = self.expect_name()?;
        let body = self.parse_func_body(attributes, false)?;
        Ok(Stat::LocalFunction {
            name,
            pos,
            body: Rc::new(body),
            is_const,
        })
    }

    fn parse_function_stat(&mut self, attributes: Vec<String>) -> R<Stat> {
        self.expect_kw("function")?;
        let (base, base_pos) = self.expect_name()?;
        let mut fields = Vec::new();
        let mut method = None;
        loop {
            if self.accept_sym(".") {
                let (n, _) = self.expect_field_name()?;
                fields.push(n);
            } else if self.accept_sym(":") {
                let (n, _) = self.expect_field_name()?;
                method = Some(n);
                break;
            } else {
                break;
            }
        }
        let body = self.parse_func_body(attributes, method.is_some())?;
        Ok(Stat::Function {
            name: FuncName {
                base,
                base_pos,
                fields,
                method,
            },
            body: Rc::new(body),
        })
    }

    /// field names after `.` / `:` — Lua requires a Name (keywords not allowed)
    fn expect_field_name(&mut self) -> R<(String, usize)> {
        self.expect_name()
    }

    fn parse_typed_name(&mut self) -> R<TypedName> {
        let (name, pos) = self.expect_name()?;
        let ty = self.parse_optional_annotation()?;
        Ok(TypedName { name, pos, ty })
    }

    fn parse_optional_annotation(&mut self) -> R<Option<Type>> {
        if self.is_sym(":") {
            self.luau_only("type annotation")?;
            let start = self.pos();
            self.advance();
            let t = self.parse_type()?;
            self.census.types += 1;
            self.type_spans.push((start, self.prev_end()));
            Ok(Some(t))
        } else {
            Ok(None)
        }
    }

    fn parse_generics(&mut self, with_defaults: bool) -> R<Vec<GenericParam>> {
        let mut out = Vec::new();
        if !self.is_sym("<") {
            return Ok(out);
        }
        self.luau_only("generics")?;
        let start = self.pos();
        self.advance();
        loop {
            if self.is_sym(">") || self.is_sym(">=") {
                break;
            }
            let (name, _) = self.expect_name()?;
            let pack = self.accept_sym("...");
            let mut default = None;
            if with_defaults && self.accept_sym("=") {
                default = Some(if pack {
                    self.parse_type_or_pack()?
                } else {
                    self.parse_type()?
                });
            }
            out.push(GenericParam {
                name,
                pack,
                default,
            });
            if !self.accept_sym(",") {
                break;
            }
        }
        if !self.accept_type_gt() {
            return self.err("expected `>` to close generics");
        }
        self.census.types += 1;
        self.type_spans.push((start, self.prev_end()));
        Ok(out)
    }

    fn parse_func_body(&mut self, attributes: Vec<String>, has_self: bool) -> R<FuncBody> {
        self.enter()?;
        let generics = self.parse_generics(false)?;
        self.expect_sym("(")?;
        let mut params = Vec::new();
        let mut vararg = false;
        let mut vararg_type = None;
        if !self.is_sym(")") {
            loop {
                if self.accept_sym("...") {
                    vararg = true;
                    if self.is_sym(":") {
                        self.luau_only("type annotation")?;
                        let start = self.pos();
                        self.advance();
                        // `...: T` or `...: T...`
                        let t = self.parse_type_or_pack()?;
                        self.census.types += 1;
                        self.type_spans.push((start, self.prev_end()));
                        vararg_type = Some(t);
                    }
                    break;
                }
                params.push(self.parse_typed_name()?);
                if !self.accept_sym(",") {
                    break;
                }
            }
        }
        self.expect_sym(")")?;
        let mut ret = None;
        if self.is_sym(":") {
            self.luau_only("return type")?;
            let start = self.pos();
            self.advance();
            ret = Some(self.parse_return_type()?);
            self.census.types += 1;
            self.type_spans.push((start, self.prev_end()));
        }
        self.vararg_scopes.push(vararg);
        let body = self.parse_block();
        self.vararg_scopes.pop();
        let body = body?;
        self.expect_kw("end")?;
        self.leave();
        Ok(FuncBody {
            generics,
            params,
            vararg,
            vararg_type,
            ret,
            body,
            attributes,
            has_self,
        })
    }

    fn parse_expr_statement(&mut self) -> R<Stat> {
        // contextual keywords of Luau
        if self.mode == Mode::Luau {
            if self.is_kw("type") {
                // `type X = ...` / `type function X`
                if matches!(self.peek(1), Tok::Name(n) if n == "function") && self.peek_is_name(2) {
                    return self.parse_type_function(false);
                }
                if self.peek_is_name(1) && (self.peek_is_sym(2, "=") || self.peek_is_sym(2, "<")) {
                    return self.parse_type_decl(false);
                }
            }
            if self.is_kw("export")
                && matches!(self.peek(1), Tok::Name(n) if n == "type")
                && (self.peek_is_name(2) || matches!(self.peek(2), Tok::Name(n) if n == "function"))
            {
                let start = self.pos();
                self.advance();
                if matches!(self.peek(1), Tok::Name(n) if n == "function") {
                    let s = self.parse_type_function(true)?;
                    self.fix_last_span(start);
                    return Ok(s);
                }
                let s = self.parse_type_decl(true)?;
                self.fix_last_span(start);
                return Ok(s);
            }
            if self.is_kw("const") {
                if matches!(self.peek(1), Tok::Name(n) if n == "function") && self.peek_is_name(2) {
                    self.census.const_decl += 1;
                    self.advance();
                    self.advance();
                    return self.parse_local_function(Vec::new(), true);
                }
                if self.peek_is_name(1) {
                    self.census.const_decl += 1;
                    self.advance();
                    return self.parse_local_rest(true);
                }
            }
            if self.is_kw("continue") {
                let next_continues_expr = match self.peek(1) {
                    Tok::Sym(s) => {
                        matches!(*s, "=" | "," | "(" | "." | "[" | ":" | "{" | "::") || compound_of(s).is_some()
                    }
                    Tok::Str(_) | Tok::InterpSimple(_) | Tok::InterpBegin(_) => true,
                    _ => false,
                };
                if !next_continues_expr {
                    self.advance();
                    self.census.continue_stat += 1;
                    return Ok(Stat::Continue);
                }
            }
        }
        let first_line = self.line();
        let _ = first_line;
        let e = self.parse_suffixed(true)?;
        if self.is_sym("=") || self.is_sym(",") {
            let mut targets = vec![e];
            while self.accept_sym(",") {
                targets.push(self.parse_suffixed(false)?);
            }
            self.expect_sym("=")?;
            for t in &targets {
                if !matches!(t, Expr::Name(..) | Expr::Index(..) | Expr::Field(..)) {
                    return self.err("cannot assign to this expression");
                }
            }
            let exprs = self.parse_expr_list()?;
            return Ok(Stat::Assign { targets, exprs });
        }
        if let Tok::Sym(s) = self.cur() {
            if let Some(op) = compound_of(s) {
                self.luau_only("compound assignment")?;
                if !matches!(e, Expr::Name(..) | Expr::Index(..) | Expr::Field(..)) {
                    return self.err("cannot assign to this expression");
                }
                self.advance();
                self.census.compound_assign += 1;
                if op == BinOp::IDiv {
                    self.census.floor_div += 1;
                }
                let expr = self.parse_expr()?;
                return Ok(Stat::CompoundAssign {
                    op,
                    target: e,
                    expr,
                });
            }
        }
        match e {
            Expr::Call(..) | Expr::MethodCall(..) => Ok(Stat::Call(e)),
            _ => self.err("expression is not a statement"),
        }
    }

    fn fix_last_span(&mut self, start: usize) {
        if let Some(last) = self.type_spans.last_mut() {
            last.0 = start;
        }
    }

    fn parse_type_decl(&mut self, exported: bool) -> R<Stat> {
        let start = self.pos();
        self.advance(); // type
        let (name, _) = self.expect_name()?;
        let generics = self.parse_generics(true)?;
        self.expect_sym("=")?;
        let ty = self.parse_type()?;
        self.census.types += 1;
        self.type_spans.push((start, self.prev_end()));
        Ok(Stat::TypeDecl {
            exported,
            name,
            generics,
            ty,
        })
    }

    fn parse_type_function(&mut self, exported: bool) -> R<Stat> {
        let start = self.pos();
        self.advance(); // type
        self.advance(); // function
        let (name, _) = self.expect_name()?;
        let body = self.parse_func_body(Vec::new(), false)?;
        self.census.types += 1;
        self.type_spans.push((start, self.prev_end()));
        Ok(Stat::TypeFunction {
            exported,
            name,
            body: Rc::new(body),
        })
    }

    fn parse_expr_list(&mut self) -> R<Vec<Expr>> {
        let mut v = vec![self.parse_expr()?];
        while self.accept_sym(",") {
            v.push(self.parse_expr()?);
        }
        Ok(v)
    }

    pub fn parse_expr(&mut self) -> R<Expr> {
        self.parse_subexpr(0)
    }

    fn cur_binop(&self) -> Option<(BinOp, u8, u8)> {
        match self.cur() {
            Tok::Sym(s) => binop_of(s),
            Tok::Name(n) if n == "and" || n == "or" => binop_of(n),
            _ => None,
        }
    }

    fn parse_subexpr(&mut self, limit: u8) -> R<Expr> {
        self.enter()?;
        let mut left = if self.is_kw("not") {
            self.advance();
            Expr::Unary(UnOp::Not, Box::new(self.parse_subexpr(UNARY_PRIORITY)?))
        } else if self.is_sym("-") {
            self.advance();
            Expr::Unary(UnOp::Neg, Box::new(self.parse_subexpr(UNARY_PRIORITY)?))
        } else if self.is_sym("#") {
            self.advance();
            Expr::Unary(UnOp::Len, Box::new(self.parse_subexpr(UNARY_PRIORITY)?))
        } else {
            self.parse_assertion()?
        };
        while let Some((op, lp, rp)) = self.cur_binop() {
            if lp <= limit {
                break;
            }
            if op == BinOp::IDiv {
                self.luau_only("floor division")?;
                self.census.floor_div += 1;
            }
            self.advance();
            let right = self.parse_subexpr(rp)?;
            left = Expr::Binary(op, Box::new(left), Box::new(right));
        }
        self.leave();
        Ok(left)
    }

    fn parse_assertion(&mut self) -> R<Expr> {
        let mut e = self.parse_simple()?;
        while self.is_sym("::") {
            self.luau_only("type cast")?;
            let start = self.pos();
            self.advance();
            let t = self.parse_type()?;
            self.census.types += 1;
            self.type_spans.push((start, self.prev_end()));
            e = Expr::Cast(Box::new(e), Box::new(t));
        }
        Ok(e)
    }

    fn parse_simple(&mut self) -> R<Expr> {
        let tok = self.cur().clone();
        match tok {
            Tok::Number(v) => {
                // census of Luau-only spellings
                let t = &self.toks[self.i];
                let raw = &self.src[t.start..t.end];
                if raw.contains(&b'_') || raw.starts_with(b"0b") || raw.starts_with(b"0B") {
                    self.census.luau_number += 1;
                }
                self.advance();
                Ok(Expr::Number(v))
            }
            Tok::Str(s) => {
                self.advance();
                Ok(Expr::Str(s))
            }
            Tok::InterpSimple(_) | Tok::InterpBegin(_) => self.parse_interp(),
            Tok::Sym("...") => {
                if self.vararg_scopes.last() == Some(&false) {
                    return self.err("cannot use `...` outside a vararg function");
                }
                self.advance();
                Ok(Expr::Vararg)
            }
            Tok::Sym("{") => self.parse_table(),
            Tok::Sym("@") => {
                let attributes = self.parse_attributes()?;
                self.expect_kw("function")?;
                let body = self.parse_func_body(attributes, false)?;
                Ok(Expr::Function(Rc::new(body)))
            }
            Tok::Name(n) => match n.as_str() {
                "nil" => {
                    self.advance();
                    Ok(Expr::Nil)
                }
                "true" => {
                    self.advance();
                    Ok(Expr::True)
                }
                "false" => {
                    self.advance();
                    Ok(Expr::False)
                }
                "function" => {
                    self.advance();
                    let body = self.parse_func_body(Vec::new(), false)?;
                    Ok(Expr::Function(Rc::new(body)))
                }
                "if" => {
                    self.luau_only("if expression")?;
                    self.census.if_expr += 1;
                    self.advance();
                    let mut branches = Vec::new();
                    let c = self.parse_expr()?;
                    self.expect_kw("then")?;
                    let v = self.parse_expr()?;
                    branches.push((c, v));
                    loop {
                        if self.accept_kw("elseif") {
                            let c = self.parse_expr()?;
                            self.expect_kw("then")?;
                            let v = self.parse_expr()?;
                            branches.push((c, v));
                        } else {
                            self.expect_kw("else")?;
                            let e = self.parse_expr()?;
                            return Ok(Expr::IfExpr(branches, Box::new(e)));
                        }
                    }
                }
                _ => self.parse_suffixed(false),
            },
            _ => self.parse_suffixed(false),
        }
    }

    fn parse_interp(&mut self) -> R<Expr> {
        self.census.interp_string += 1;
        let mut parts = Vec::new();
        match self.cur().clone() {
            Tok::InterpSimple(s) => {
                self.advance();
                if !s.is_empty() {
                    parts.push(InterpPart::Str(s));
                }
                return Ok(Expr::Interp(parts));
            }
            Tok::InterpBegin(s) => {
                self.advance();
                if !s.is_empty() {
                    parts.push(InterpPart::Str(s));
                }
            }
            _ => return self.err("expected interpolated string"),
        }
        loop {
            let e = self.parse_expr()?;
            parts.push(InterpPart::Expr(e));
            match self.cur().clone() {
                Tok::InterpMid(s) => {
                    self.advance();
                    if !s.is_empty() {
                        parts.push(InterpPart::Str(s));
                    }
                }
                Tok::InterpEnd(s) => {
                    self.advance();
                    if !s.is_empty() {
                        parts.push(InterpPart::Str(s));
                    }
                    return Ok(Expr::Interp(parts));
                }
                other => return self.err(format!("malformed interpolated string, got {:?}", other)),
            }
        }
    }

    fn parse_table(&mut self) -> R<Expr> {
        self.enter()?;
        self.expect_sym("{")?;
        let mut items = Vec::new();
        loop {
            if self.is_sym("}") {
                break;
            }
            if self.is_sym("[") {
                self.advance();
                let k = self.parse_expr()?;
                self.expect_sym("]")?;
                self.expect_sym("=")?;
                let v = self.parse_expr()?;
                items.push(TableItem::Keyed(k, v));
            } else if self.peek_is_name(0) && self.peek_is_sym(1, "=") {
                let (n, _) = self.expect_name()?;
                self.advance();
                let v = self.parse_expr()?;
                items.push(TableItem::Named(n, v));
            } else {
                let v = self.parse_expr()?;
                items.push(TableItem::Pos(v));
            }
            if !(self.accept_sym(",") || self.accept_sym(";")) {
                break;
            }
        }
        self.expect_sym("}")?;
        self.leave();
        Ok(Expr::Table(items))
    }

    fn parse_primary(&mut self) -> R<Expr> {
        match self.cur().clone() {
            Tok::Name(n) if !is_keyword(&n) => {
                let p = self.pos();
                self.advance();
                Ok(Expr::Name(n, p))
            }
            Tok::Sym("(") => {
                self.enter()?;
                self.advance();
                let e = self.parse_expr()?;
                self.expect_sym(")")?;
                self.leave();
                Ok(Expr::Paren(Box::new(e)))
            }
            other => self.err(format!("unexpected token {:?}", other)),
        }
    }

    fn parse_call_args(&mut self) -> R<(Vec<Expr>, CallArgsKind)> {
        match self.cur().clone() {
            Tok::Str(s) => {
                self.advance();
                Ok((vec![Expr::Str(s)], CallArgsKind::String))
            }
            Tok::InterpSimple(_) | Tok::InterpBegin(_) => {
                let e = self.parse_interp()?;
                Ok((vec![e], CallArgsKind::String))
            }
            Tok::Sym("{") => {
                let t = self.parse_table()?;
                Ok((vec![t], CallArgsKind::Table))
            }
            Tok::Sym("(") => {
                self.advance();
                let args = if self.is_sym(")") {
                    Vec::new()
                } else {
                    self.parse_expr_list()?
                };
                self.expect_sym(")")?;
                Ok((args, CallArgsKind::Paren))
            }
            other => self.err(format!("expected call arguments, got {:?}", other)),
        }
    }

    fn parse_suffixed(&mut self, _as_statement: bool) -> R<Expr> {
        let mut e = self.parse_primary()?;
        loop {
            match self.cur().clone() {
                Tok::Sym(".") => {
                    self.advance();
                    let (n, _) = self.expect_field_name()?;
                    e = Expr::Field(Box::new(e), n);
                }
                Tok::Sym("[") => {
                    self.advance();
                    let k = self.parse_expr()?;
                    self.expect_sym("]")?;
                    e = Expr::Index(Box::new(e), Box::new(k));
                }
                Tok::Sym(":") => {
                    self.advance();
                    let (n, _) = self.expect_field_name()?;
                    // optional explicit type instantiation `o:m<<T>>(...)`
                    let mut tys = None;
                    if self.mode == Mode::Luau && self.is_sym("<") && self.peek_is_sym(1, "<") && self.toks[self.i].end == self.toks[self.i + 1].start {
                        let start = self.pos();
                        self.advance();
                        self.advance();
                        let mut list = Vec::new();
                        if !self.is_sym(">") {
                            loop {
                                list.push(self.parse_type_or_pack()?);
                                if !self.accept_sym(",") {
                                    break;
                                }
                            }
                        }
                        if !self.accept_type_gt() || !self.accept_type_gt() {
                            return self.err("expected `>>` to close the type instantiation");
                        }
                        self.census.types += 1;
                        self.type_spans.push((start, self.prev_end()));
                        tys = Some(list);
                    }
                    // Lua 5.1 (lparser.c funcargs): the same "ambiguous syntax" rule applies to the arguments of a method call
                    if self.mode == Mode::Lua51 && self.peek_is_sym(0, "(") && self.i > 0 {
                        let prev_end = self.toks[self.i - 1].end;
                        if self.src[prev_end..self.pos()].contains(&b'\n') {
                            return self.err("ambiguous syntax (function call x new statement)");
                        }
                    }
                    let (args, kind) = self.parse_call_args()?;
                    e = Expr::MethodCall(Box::new(e), n, args, kind, tys);
                }
                Tok::Sym("(") => {
                    // Lua 5.1: a `(` on a new line after a prefix expression is "ambiguous syntax"
                    if self.mode == Mode::Lua51 && self.i > 0 && self.toks[self.i - 1].line != self.line() {
                        // the previous token's *end* line matters; approximate with source scan
                        let prev_end = self.toks[self.i - 1].end;
                        let between = &self.src[prev_end..self.pos()];
                        if between.contains(&b'\n') {
                            return self.err("ambiguous syntax (function call x new statement)");
                        }
                    }
                    let (args, kind) = self.parse_call_args()?;
                    e = Expr::Call(Box::new(e), args, kind);
                }
                Tok::Str(_) | Tok::Sym("{") | Tok::InterpSimple(_) | Tok::InterpBegin(_) => {
                    let (args, kind) = self.parse_call_args()?;
                    e = Expr::Call(Box::new(e), args, kind);
                }
                Tok::Sym("<") if self.mode == Mode::Luau && self.peek_is_sym(1, "<") && self.toks[self.i].end == self.toks[self.i + 1].start => {
                    // explicit type instantiation `f<<T>>`
                    let save = self.i;
                    let start = self.pos();
                    self.advance();
                    self.advance();
                    let mut tys = Vec::new();
                    let ok = (|| -> R<()> {
                        if !self.is_sym(">") {
                            loop {
                                tys.push(self.parse_type_or_pack()?);
                                if !self.accept_sym(",") {
                                    break;
                                }
                            }
                        }
                        if !self.accept_type_gt() {
                            return self.err("expected `>>`");
                        }
                        if !self.accept_type_gt() {
                            return self.err("expected `>>`");
                        }
                        Ok(())
                    })();
                    if ok.is_err() {
                        self.i = save;
                        break;
                    }
                    self.census.types += 1;
                    self.type_spans.push((start, self.prev_end()));
                    e = Expr::Instantiate(Box::new(e), tys);
                }
                _ => break,
            }
        }
        Ok(e)
    }

    // ---------------------------------------------------------------- types

    fn parse_type_or_pack(&mut self) -> R<Type> {
        // `...T`, `T...`, `(A, B)`, or a plain type
        if self.accept_sym("...") {
            let t = self.parse_type()?;
            return Ok(Type::Variadic(Box::new(t)));
        }
        if self.peek_is_name(0) && self.peek_is_sym(1, "...") {
            let (n, _) = self.expect_name()?;
            self.advance();
            return Ok(Type::GenericPack(n));
        }
        self.parse_type_inner(true)
    }

    fn parse_return_type(&mut self) -> R<Type> {
        self.parse_type_or_pack()
    }

    fn parse_type(&mut self) -> R<Type> {
        self.parse_type_inner(false)
    }

    fn parse_type_inner(&mut self, allow_pack: bool) -> R<Type> {
        self.enter()?;
        let mut parts: Vec<Type> = Vec::new();
        let mut is_union = false;
        let mut is_inter = false;
        // leading | or &
        if self.accept_sym("|") {
            is_union = true;
        } else if self.accept_sym("&") {
            is_inter = true;
        }
        let leading = is_union || is_inter;
        loop {
            let mut t = self.parse_simple_type(allow_pack && parts.is_empty() && !leading)?;
            while self.accept_sym("?") {
                t = Type::Optional(Box::new(t));
            }
            parts.push(t);
            if self.is_sym("|") {
                if is_inter {
                    return self.err("mixing union and intersection types");
                }
                is_union = true;
                self.advance();
            } else if self.is_sym("&") {
                if is_union {
                    return self.err("mixing union and intersection types");
                }
                is_inter = true;
                self.advance();
            } else {
                break;
            }
        }
        self.leave();
        if parts.len() == 1 && !leading {
            return Ok(parts.pop().unwrap());
        }
        if is_inter {
            Ok(Type::Inter(parts))
        } else {
            Ok(Type::Union(parts))
        }
    }

    fn parse_simple_type(&mut self, allow_pack: bool) -> R<Type> {
        match self.cur().clone() {
            Tok::Name(n) if n == "nil" => {
                self.advance();
                Ok(Type::Nil)
            }
            Tok::Name(n) if n == "true" => {
                self.advance();
                Ok(Type::True)
            }
            Tok::Name(n) if n == "false" => {
                self.advance();
                Ok(Type::False)
            }
            Tok::Name(n) if n == "function" => self.err("unexpected `function` in type"),
            Tok::Str(s) => {
                self.advance();
                Ok(Type::Str(s))
            }
            Tok::Name(n) if n == "typeof" && self.peek_is_sym(1, "(") => {
                self.advance();
                self.advance();
                let e = self.parse_expr()?;
                self.expect_sym(")")?;
                Ok(Type::Typeof(Box::new(e)))
            }
            Tok::Name(n) if !is_keyword(&n) => {
                let ns_pos = self.pos();
                self.advance();
                let mut ns = None;
                let mut name = n;
                if self.is_sym(".") {
                    self.advance();
                    let (n2, _) = self.expect_name()?;
                    ns = Some(name);
                    name = n2;
                }
                let mut params = None;
                if self.is_sym("<") {
                    self.advance();
                    let mut ps = Vec::new();
                    if !(self.is_sym(">") || self.is_sym(">=")) {
                        loop {
                            ps.push(self.parse_type_or_pack()?);
                            if !self.accept_sym(",") {
                                break;
                            }
                        }
                    }
                    if !self.accept_type_gt() {
                        return self.err("expected `>` after type parameters");
                    }
                    params = Some(ps);
                }
                Ok(Type::Name { ns, ns_pos, name, params })
            }
            Tok::Sym("{") => {
                self.advance();
                let mut entries = Vec::new();
                // array form `{ T }`
                let mut array: Option<Type> = None;
                let mut array_access = None;
                loop {
                    if self.is_sym("}") {
                        break;
                    }
                    let mut access = None;
                    if (self.is_kw("read") || self.is_kw("write"))
                        && (self.peek_is_name(1) || self.peek_is_sym(1, "["))
                        && !self.peek_is_sym(1, ":")
                    {
                        if let Tok::Name(a) = self.cur().clone() {
                            access = Some(a);
                        }
                        self.advance();
                    }
                    if self.is_sym("[") {
                        self.advance();
                        if let (Tok::Str(s), true) = (self.cur().clone(), self.peek_is_sym(1, "]")) {
                            self.advance();
                            self.advance();
                            self.expect_sym(":")?;
                            let ty = self.parse_type()?;
                            entries.push(TableTypeEntry::StringProp { access, key: s, ty });
                        } else {
                            let key = self.parse_type()?;
                            self.expect_sym("]")?;
                            self.expect_sym(":")?;
                            let ty = self.parse_type()?;
                            entries.push(TableTypeEntry::Indexer { access, key, ty });
                        }
                    } else if self.peek_is_name(0) && self.peek_is_sym(1, ":") {
                        let (name, _) = self.expect_name()?;
                        self.advance();
                        let ty = self.parse_type()?;
                        entries.push(TableTypeEntry::Prop { access, name, ty });
                    } else if entries.is_empty() && array.is_none() {
                        array = Some(self.parse_type()?);
                        array_access = access;
                        break;
                    } else {
                        return self.err("malformed table type");
                    }
                    if !(self.accept_sym(",") || self.accept_sym(";")) {
                        break;
                    }
                }
                self.expect_sym("}")?;
                if let Some(t) = array {
                    Ok(Type::Array(Box::new(t), array_access))
                } else {
                    Ok(Type::Table(entries))
                }
            }
            Tok::Sym("<") | Tok::Sym("(") => {
                let generics = if self.is_sym("<") {
                    // generics span is recorded by parse_generics; harmless double accounting for census only
                    let before = self.census.types;
                    let spans = self.type_spans.len();
                    let g = self.parse_generics(false)?;
                    self.census.types = before;
                    self.type_spans.truncate(spans);
                    g
                } else {
                    Vec::new()
                };
                self.expect_sym("(")?;
                let mut params: Vec<(Option<String>, Type)> = Vec::new();
                let mut variadic = None;
                if !self.is_sym(")") {
                    loop {
                        if self.is_sym("...") {
                            self.advance();
                            let t = self.parse_type()?;
                            variadic = Some(Box::new(Type::Variadic(Box::new(t))));
                            break;
                        }
                        if self.peek_is_name(0) && self.peek_is_sym(1, "...") {
                            let (n, _) = self.expect_name()?;
                            self.advance();
                            variadic = Some(Box::new(Type::GenericPack(n)));
                            break;
                        }
                        if self.peek_is_name(0) && self.peek_is_sym(1, ":") {
                            let (n, _) = self.expect_name()?;
                            self.advance();
                            let t = self.parse_type()?;
                            params.push((Some(n), t));
                        } else {
                            let t = self.parse_type()?;
                            params.push((None, t));
                        }
                        if !self.accept_sym(",") {
                            break;
                        }
                    }
                }
                self.expect_sym(")")?;
                if self.accept_sym("->") {
                    let ret = self.parse_return_type()?;
                    return Ok(Type::Function {
                        generics,
                        params,
                        variadic,
                        ret: Box::new(ret),
                    });
                }
                if !generics.is_empty() {
                    return self.err("expected `->` after generic function type");
                }
                // not a function type: a parenthesised type or a type pack
                let named = params.iter().any(|(n, _)| n.is_some());
                if named {
                    return self.err("expected `->` after named parameters");
                }
                if params.len() == 1 && variadic.is_none() {
                    let (_, t) = params.pop().unwrap();
                    return Ok(Type::Paren(Box::new(t)));
                }
                if allow_pack {
                    return Ok(Type::Pack(params.into_iter().map(|(_, t)| t).collect(), variadic));
                }
                self.err("type pack not allowed here")
            }
            other => self.err(format!("unexpected token in type: {:?}", other)),
        }
    }
}

pub fn parse(src: &[u8], mode: Mode) -> Result<Parsed, ParseError> {
    let lexed = lex(src, mode).map_err(|e| ParseError {
        pos: e.pos,
        msg: e.msg,
    })?;
    let mut p = P {
        src,
        toks: lexed.tokens,
        i: 0,
        mode,
        type_spans: Vec::new(),
        census: Census::default(),
        depth: 0,
        split: None,
        vararg_scopes: vec![true],
    };
    let _ = &p.split;
    let block = p.parse_block()?;
    if !matches!(p.cur(), Tok::Eof) {
        return p.err(format!("unexpected token {:?} at top level", p.cur()));
    }
    if let Some(msg) = super::validate::validate(&block) {
        return Err(ParseError { pos: 0, msg });
    }
    Ok(Parsed {
        block,
        tokens: p.toks,
        comments: lexed.comments,
        type_spans: p.type_spans,
        census: p.census,
    })
}
