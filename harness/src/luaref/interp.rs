//! Tree-walking reference interpreter for Lua 5.1 ∩ Luau (+ the Luau extensions darklua lowers).
//! Anything the two dialects disagree on raises `Stop::Poison` (the run is "unspecified").
use super::ast::*;
use super::lexer::Mode;
use super::value::*;
use std::cell::RefCell;
use std::collections::HashMap;
use std::rc::Rc;

pub enum Stop {
    /// a Lua error carrying a value
    Error(Value),
    /// fuel or stack exhausted: "does not terminate"
    Fuel,
    /// behaviour that Lua 5.1 and Luau do not agree on (or the model does not cover)
    Poison(String),
}

type Res<T> = Result<T, Stop>;

enum Flow {
    Normal,
    Break,
    Continue,
    Return(Vec<Value>),
}

thread_local! {
    static INTERN: RefCell<HashMap<String, &'static str>> = RefCell::new(HashMap::new());
}

pub fn intern(s: &str) -> &'static str {
    INTERN.with(|m| {
        let mut m = m.borrow_mut();
        if let Some(v) = m.get(s) {
            return *v;
        }
        let leaked: &'static str = Box::leak(s.to_owned().into_boxed_str());
        m.insert(s.to_owned(), leaked);
        leaked
    })
}

struct Frame {
    vars: Vec<(&'static str, Cell)>,
    varargs: Vec<Value>,
    file: Rc<str>,
}

pub type Resolver = Box<dyn Fn(&str, &str) -> Result<String, String>>;

pub enum ModuleSource {
    Lua(Rc<Block>),
    Value(Value),
    /// module that cannot be loaded (syntax error...)
    Broken(String),
}

#[derive(Clone, Copy, PartialEq, Eq, Debug)]
pub enum NumFmt {
    /// only renderings both dialects agree on; otherwise poison
    Common,
    /// Lua 5.1: %.14g
    G14,
    /// shortest round-trip digits, fixed notation
    ShortestFixed,
    /// shortest round-trip digits, scientific notation outside [1e-5, 1e21)
    ShortestSci,
}

pub struct Interp {
    pub mode: Mode,
    pub numfmt: NumFmt,
    pub globals: TableRef,
    pub log: Vec<String>,
    pub fuel: i64,
    depth: usize,
    string_lib: TableRef,
    et_meta: TableRef,
    pub modules: HashMap<String, ModuleSource>,
    pub module_cache: HashMap<String, Value>,
    pub resolver: Option<Resolver>,
    pub current_file: Rc<str>,
    /// repair-model switch: evaluate `x ^ 0.5` with sqrt semantics (only used to attribute a known finding)
    pub pow_half_as_sqrt: bool,
    /// bug model: every value of an interpolated string is converted (`__tostring`) right after it is evaluated
    pub interp_convert_eagerly: bool,
    next_id: u64,
    /// every table and variable cell created by this interpreter: emptied on drop to break reference cycles
    all_tables: Vec<TableRef>,
    all_cells: Vec<Cell>,
}

impl Drop for Interp {
    fn drop(&mut self) {
        for c in self.all_cells.drain(..) {
            *c.borrow_mut() = Value::Nil;
        }
        for t in self.all_tables.drain(..) {
            let mut t = t.borrow_mut();
            t.map.clear();
            t.order.clear();
            t.meta = None;
        }
        self.module_cache.clear();
        self.modules.clear();
        let mut g = self.globals.borrow_mut();
        g.map.clear();
        g.order.clear();
    }
}

const MAX_DEPTH: usize = 90;

fn new_table() -> TableRef {
    Rc::new(RefCell::new(Table::default()))
}

fn builtin(name: &'static str) -> Value {
    Value::Builtin(Rc::new(Builtin::Named(name)))
}

pub fn ext(name: &str, ret: ExtRet) -> Value {
    Value::Builtin(Rc::new(Builtin::Ext(name.to_owned(), ret)))
}

fn err_str<T>(msg: &str) -> Res<T> {
    Err(Stop::Error(Value::str(&format!("<error:{}>", msg))))
}

fn poison<T>(msg: &str) -> Res<T> {
    Err(Stop::Poison(msg.to_owned()))
}

/// C `%.14g`
pub fn fmt_g14(x: f64) -> String {
    if x.is_nan() {
        return "nan".into();
    }
    if x.is_infinite() {
        return if x > 0.0 { "inf".into() } else { "-inf".into() };
    }
    if x == 0.0 {
        return if x.is_sign_negative() { "-0".into() } else { "0".into() };
    }
    let sci = format!("{:.13e}", x); // d.ddddddddddddde[-]X
    let (mant, exp) = sci.split_once('e').unwrap();
    let exp: i32 = exp.parse().unwrap();
    if exp < -4 || exp >= 14 {
        let mut m = mant.to_owned();
        if m.contains('.') {
            while m.ends_with('0') {
                m.pop();
            }
            if m.ends_with('.') {
                m.pop();
            }
        }
        let sign = if exp < 0 { '-' } else { '+' };
        format!("{}e{}{:02}", m, sign, exp.abs())
    } else {
        let prec = (13 - exp).max(0) as usize;
        let mut s = format!("{:.*}", prec, x);
        if s.contains('.') {
            while s.ends_with('0') {
                s.pop();
            }
            if s.ends_with('.') {
                s.pop();
            }
        }
        s
    }
}

/// shortest round-trip rendering (Luau style); `sci` selects scientific notation for large/small magnitudes
pub fn fmt_shortest(x: f64, sci: bool) -> String {
    if x.is_nan() {
        return "nan".into();
    }
    if x.is_infinite() {
        return if x > 0.0 { "inf".into() } else { "-inf".into() };
    }
    if x == 0.0 {
        return if x.is_sign_negative() { "-0".into() } else { "0".into() };
    }
    let e = format!("{:e}", x); // shortest digits: d.ddde[-]X
    let (mant, exp) = e.split_once('e').unwrap();
    let exp: i32 = exp.parse().unwrap();
    if sci && !(-5..21).contains(&exp) {
        let sign = if exp < 0 { '-' } else { '+' };
        return format!("{}e{}{:02}", mant, sign, exp.abs());
    }
    format!("{}", x)
}

/// number -> string shared by both dialects, or None when they (may) differ
pub fn num_to_string_common(x: f64) -> Option<String> {
    if x.is_nan() {
        return None;
    }
    if x.is_infinite() {
        return Some(if x > 0.0 { "inf".into() } else { "-inf".into() });
    }
    let s = fmt_g14(x);
    if s.contains('e') {
        return None;
    }
    match s.parse::<f64>() {
        Ok(back) if back.to_bits() == x.to_bits() => Some(s),
        _ => None,
    }
}

/// string -> number coercion: Ok(Some) number, Ok(None) not a number, Err = dialects differ
pub fn str_to_number(s: &[u8]) -> Result<Option<f64>, ()> {
    let text = match std::str::from_utf8(s) {
        Ok(t) => t,
        Err(_) => return Ok(None),
    };
    let t = text.trim_matches(|c: char| matches!(c, ' ' | '\t' | '\n' | '\r' | '\x0b' | '\x0c'));
    if t.is_empty() {
        return Ok(None);
    }
    let (neg, body) = if let Some(r) = t.strip_prefix('-') {
        (true, r)
    } else if let Some(r) = t.strip_prefix('+') {
        (false, r)
    } else {
        (false, t)
    };
    let lower = body.to_ascii_lowercase();
    if lower.starts_with("0x") {
        let digits = &lower[2..];
        if !digits.is_empty() && digits.bytes().all(|c| c.is_ascii_hexdigit()) && digits.len() <= 8 && !(neg || t.starts_with('+')) {
            return Ok(Some(u64::from_str_radix(digits, 16).unwrap() as f64));
        }
        return Err(());
    }
    if lower.contains('_') || lower.starts_with("0b") {
        // literal-only spellings: no runtime accepts them in a string
        return Ok(None);
    }
    if lower.starts_with("inf") || lower.starts_with("nan") || lower.contains('p') {
        return Err(());
    }
    match super::lexer::parse_luau_number(body) {
        Some(v) if body.bytes().all(|c| c.is_ascii_digit() || matches!(c, b'.' | b'e' | b'E' | b'+' | b'-')) => {
            Ok(Some(if neg { -v } else { v }))
        }
        _ => Ok(None),
    }
}

pub fn quote_bytes(b: &[u8]) -> String {
    let mut s = String::with_capacity(b.len() + 2);
    s.push('"');
    for &c in b {
        match c {
            b'"' => s.push_str("\\\""),
            b'\\' => s.push_str("\\\\"),
            0x20..=0x7e => s.push(c as char),
            _ => s.push_str(&format!("\\x{:02x}", c)),
        }
    }
    s.push('"');
    s
}

impl Interp {
    pub fn new(mode: Mode) -> Interp {
        let globals = new_table();
        let string_lib = new_table();
        let et_meta = new_table();
        let registry = vec![globals.clone(), string_lib.clone(), et_meta.clone()];
        let mut it = Interp {
            mode,
            numfmt: NumFmt::Common,
            globals,
            log: Vec::new(),
            fuel: 20_000,
            depth: 0,
            string_lib,
            et_meta,
            modules: HashMap::new(),
            module_cache: HashMap::new(),
            resolver: None,
            current_file: Rc::from("main"),
            pow_half_as_sqrt: false,
            interp_convert_eagerly: false,
            next_id: 0,
            all_tables: registry,
            all_cells: Vec::new(),
        };
        it.install();
        it
    }

    fn install(&mut self) {
        let g = self.globals.clone();
        let mut g = g.borrow_mut();
        for name in [
            "select", "type", "tostring", "tonumber", "rawget", "rawset", "rawequal", "setmetatable", "getmetatable",
            "ipairs", "pairs", "next", "unpack", "pcall", "error", "assert",
        ] {
            g.set_str(name, builtin(intern(name)));
        }
        g.set_str("_G", Value::Table(self.globals.clone()));
        g.set_str("E1", ext("E1", ExtRet::OneTwo));
        g.set_str("E0", ext("E0", ExtRet::Nothing));
        g.set_str("EF", ext("EF", ExtRet::FalseX));
        g.set_str("EN", ext("EN", ExtRet::Nil));
        g.set_str("EI", ext("EI", ExtRet::Args));
        g.set_str("print", ext("print", ExtRet::Nothing));
        g.set_str("ET", Value::Builtin(Rc::new(Builtin::ET)));
        g.set_str("EG", Value::Num(42.0));
        let lib = |names: &[&str], prefix: &str| -> Value {
            let t = new_table();
            for n in names {
                t.borrow_mut().set_str(n, builtin(intern(&format!("{}.{}", prefix, n))));
            }
            Value::Table(t)
        };
        let math = lib(&["floor", "ceil", "sqrt", "abs", "max", "min", "pow", "fmod"], "math");
        if let Value::Table(t) = &math {
            t.borrow_mut().set_str("huge", Value::Num(f64::INFINITY));
            t.borrow_mut().set_str("pi", Value::Num(std::f64::consts::PI));
        }
        g.set_str("math", math);
        g.set_str("table", lib(&["insert", "remove", "concat", "unpack"], "table"));
        for n in ["format", "rep", "sub", "len", "byte", "char", "upper", "lower", "reverse"] {
            self.string_lib.borrow_mut().set_str(n, builtin(intern(&format!("string.{}", n))));
        }
        g.set_str("string", Value::Table(self.string_lib.clone()));
        let dbg = new_table();
        dbg.borrow_mut().set_str("profilebegin", ext("debug.profilebegin", ExtRet::Nothing));
        dbg.borrow_mut().set_str("profileend", ext("debug.profileend", ExtRet::Nothing));
        g.set_str("debug", Value::Table(dbg));
        g.set_str("require", Value::Builtin(Rc::new(Builtin::Require)));
        let mut m = self.et_meta.borrow_mut();
        for mm in [
            "__index", "__newindex", "__call", "__add", "__sub", "__mul", "__div", "__mod", "__pow", "__unm", "__concat",
            "__eq", "__lt", "__le", "__idiv", "__tostring",
        ] {
            m.set_str(mm, Value::Builtin(Rc::new(Builtin::EtMeta(mm))));
        }
    }

    pub fn set_global(&mut self, name: &str, v: Value) {
        self.globals.borrow_mut().set_str(name, v);
    }

    pub fn new_table_value(&mut self) -> TableRef {
        self.next_id += 1;
        let t = new_table();
        self.all_tables.push(t.clone());
        t
    }

    // ------------------------------------------------------------------ serialisation

    pub fn serialize(&self, v: &Value) -> String {
        let mut seen: Vec<*const RefCell<Table>> = Vec::new();
        let mut out = String::new();
        self.ser(v, &mut seen, &mut out, 0);
        out
    }

    fn ser(&self, v: &Value, seen: &mut Vec<*const RefCell<Table>>, out: &mut String, depth: usize) {
        match v {
            Value::Nil => out.push_str("nil"),
            Value::Bool(b) => out.push_str(if *b { "true" } else { "false" }),
            Value::Num(n) => {
                if n.is_nan() {
                    out.push_str("NaN")
                } else {
                    out.push_str(&format!("{:?}", n))
                }
            }
            Value::Str(s) => out.push_str(&quote_bytes(s)),
            Value::Func(_) => out.push_str("<fn>"),
            Value::Builtin(b) => match &**b {
                Builtin::Ext(n, _) => out.push_str(&format!("<ext:{}>", n)),
                Builtin::Named(n) => out.push_str(&format!("<builtin:{}>", n)),
                other => out.push_str(&format!("<builtin:{:?}>", other)),
            },
            Value::Table(t) => {
                let ptr = Rc::as_ptr(t);
                if let Some(tag) = &t.borrow().tag {
                    out.push_str(&format!("<ET:{}>", tag));
                    return;
                }
                if let Some(i) = seen.iter().position(|p| *p == ptr) {
                    out.push_str(&format!("#{}", i + 1));
                    return;
                }
                seen.push(ptr);
                let id = seen.len();
                if depth > 6 {
                    out.push_str(&format!("#{}{{...}}", id));
                    return;
                }
                let tb = t.borrow();
                let mut entries: Vec<(String, String)> = Vec::new();
                // sequence part first in order, others sorted by serialised key
                let (n, _) = tb.border();
                out.push_str(&format!("#{}{{", id));
                for i in 1..=n {
                    let mut s = String::new();
                    self.ser(&tb.get(&Value::Num(i as f64)), seen, &mut s, depth + 1);
                    out.push_str(&s);
                    out.push(',');
                }
                // the identity numbers must not depend on the order in which the keys were inserted: the keys are ordered
                // first (by a rendering that consumes no number), then keys and values are rendered in that order
                let mut keys: Vec<(String, Value)> = tb
                    .iteration_keys()
                    .into_iter()
                    .skip(n)
                    .map(|k| {
                        let mut probe = seen.clone();
                        let mut ks = String::new();
                        self.ser(&k, &mut probe, &mut ks, depth + 1);
                        (ks, k)
                    })
                    .collect();
                keys.sort_by(|a, b| a.0.cmp(&b.0));
                for (_, k) in keys {
                    let mut ks = String::new();
                    self.ser(&k, seen, &mut ks, depth + 1);
                    let mut vs = String::new();
                    self.ser(&tb.get(&k), seen, &mut vs, depth + 1);
                    entries.push((ks, vs));
                }
                for (k, v) in entries {
                    out.push_str(&format!("[{}]={},", k, v));
                }
                if tb.meta.is_some() {
                    out.push_str("<meta>");
                }
                out.push('}');
            }
        }
    }

    fn ser_list(&self, vs: &[Value]) -> String {
        vs.iter().map(|v| self.serialize(v)).collect::<Vec<_>>().join(", ")
    }

    // ------------------------------------------------------------------ running

    pub fn run_chunk(&mut self, block: &Block, file: &str) -> Res<Vec<Value>> {
        let mut frame = Frame {
            vars: Vec::new(),
            varargs: Vec::new(),
            file: Rc::from(file),
        };
        match self.exec_block(block, &mut frame)? {
            Flow::Return(v) => Ok(v),
            Flow::Normal => Ok(Vec::new()),
            Flow::Break => poison("break outside loop"),
            Flow::Continue => poison("continue outside loop"),
        }
    }

    fn tick(&mut self) -> Res<()> {
        self.fuel -= 1;
        if self.fuel < 0 {
            Err(Stop::Fuel)
        } else {
            Ok(())
        }
    }

    fn lookup(&self, frame: &Frame, name: &str) -> Option<Cell> {
        for (n, c) in frame.vars.iter().rev() {
            if *n == name {
                return Some(c.clone());
            }
        }
        None
    }

    fn declare(&mut self, frame: &mut Frame, name: &str, v: Value) {
        let cell = Rc::new(RefCell::new(v));
        self.all_cells.push(cell.clone());
        frame.vars.push((intern(name), cell));
    }

    fn exec_block(&mut self, block: &Block, frame: &mut Frame) -> Res<Flow> {
        let base = frame.vars.len();
        let r = self.exec_stats(block, frame);
        frame.vars.truncate(base);
        r
    }

    /// executes statements without closing the scope (used by repeat-until)
    fn exec_stats(&mut self, block: &Block, frame: &mut Frame) -> Res<Flow> {
        for s in &block.stats {
            match self.exec_stat(&s.stat, frame)? {
                Flow::Normal => {}
                other => return Ok(other),
            }
        }
        Ok(Flow::Normal)
    }

    fn adjust(mut vals: Vec<Value>, n: usize) -> Vec<Value> {
        vals.resize(n, Value::Nil);
        vals
    }

    fn eval_list(&mut self, exprs: &[Expr], frame: &mut Frame) -> Res<Vec<Value>> {
        let mut out = Vec::with_capacity(exprs.len());
        for (i, e) in exprs.iter().enumerate() {
            if i + 1 == exprs.len() {
                out.extend(self.eval_multi(e, frame)?);
            } else {
                out.push(self.eval(e, frame)?);
            }
        }
        Ok(out)
    }

    fn make_closure(&mut self, body: &Rc<FuncBody>, frame: &Frame) -> Value {
        Value::Func(Rc::new(Closure {
            body: body.clone(),
            upvals: frame.vars.clone(),
            file: frame.file.clone(),
        }))
    }

    fn exec_stat(&mut self, stat: &Stat, frame: &mut Frame) -> Res<Flow> {
        self.tick()?;
        match stat {
            Stat::Local { names, exprs, .. } => {
                let vals = Self::adjust(self.eval_list(exprs, frame)?, names.len());
                for (n, v) in names.iter().zip(vals) {
                    self.declare(frame, &n.name, v);
                }
            }
            Stat::Assign { targets, exprs } => {
                // evaluate target prefixes and keys left to right
                enum Target {
                    Var(Option<Cell>, String),
                    Slot(Value, Value),
                }
                let mut ts = Vec::new();
                for t in targets {
                    match t {
                        Expr::Name(n, _) => ts.push(Target::Var(self.lookup(frame, n), n.clone())),
                        Expr::Field(o, k) => {
                            let o = self.eval(o, frame)?;
                            ts.push(Target::Slot(o, Value::str(k)));
                        }
                        Expr::Index(o, k) => {
                            let o = self.eval(o, frame)?;
                            let k = self.eval(k, frame)?;
                            ts.push(Target::Slot(o, k));
                        }
                        _ => return poison("bad assignment target"),
                    }
                }
                let vals = Self::adjust(self.eval_list(exprs, frame)?, ts.len());
                let mut meta_stores = 0;
                let before = self.log.len();
                for (t, v) in ts.into_iter().zip(vals).rev() {
                    let l0 = self.log.len();
                    match t {
                        Target::Var(Some(c), _) => *c.borrow_mut() = v,
                        Target::Var(None, n) => self.globals.borrow_mut().set_str(&n, v),
                        Target::Slot(o, k) => self.set_index(&o, k, v)?,
                    }
                    if self.log.len() != l0 {
                        meta_stores += 1;
                    }
                }
                let _ = before;
                if meta_stores > 1 {
                    return poison("order of several observable stores in one assignment");
                }
            }
            Stat::CompoundAssign { op, target, expr } => match target {
                Expr::Name(n, _) => {
                    let cur = self.eval(target, frame)?;
                    let rhs = self.eval(expr, frame)?;
                    let v = self.binary(*op, cur, rhs)?;
                    match self.lookup(frame, n) {
                        Some(c) => *c.borrow_mut() = v,
                        None => self.globals.borrow_mut().set_str(n, v),
                    }
                }
                Expr::Field(o, k) => {
                    let o = self.eval(o, frame)?;
                    let k = Value::str(k);
                    let cur = self.index(&o, &k)?;
                    let rhs = self.eval(expr, frame)?;
                    let v = self.binary(*op, cur, rhs)?;
                    self.set_index(&o, k, v)?;
                }
                Expr::Index(o, k) => {
                    let o = self.eval(o, frame)?;
                    let k = self.eval(k, frame)?;
                    let cur = self.index(&o, &k)?;
                    let rhs = self.eval(expr, frame)?;
                    let v = self.binary(*op, cur, rhs)?;
                    self.set_index(&o, k, v)?;
                }
                _ => return poison("bad compound target"),
            },
            Stat::Call(e) => {
                self.eval_multi(e, frame)?;
            }
            Stat::Do(b) => return self.exec_block(b, frame),
            Stat::While(c, b) => loop {
                self.tick()?;
                if !self.eval(c, frame)?.truthy() {
                    break;
                }
                match self.exec_block(b, frame)? {
                    Flow::Break => break,
                    Flow::Return(v) => return Ok(Flow::Return(v)),
                    Flow::Normal | Flow::Continue => {}
                }
            },
            Stat::Repeat(b, c) => loop {
                self.tick()?;
                let base = frame.vars.len();
                let flow = self.exec_stats(b, frame);
                let flow = match flow {
                    Ok(f) => f,
                    Err(e) => {
                        frame.vars.truncate(base);
                        return Err(e);
                    }
                };
                match flow {
                    Flow::Break => {
                        frame.vars.truncate(base);
                        break;
                    }
                    Flow::Return(v) => {
                        frame.vars.truncate(base);
                        return Ok(Flow::Return(v));
                    }
                    Flow::Normal | Flow::Continue => {}
                }
                let cond = self.eval(c, frame);
                frame.vars.truncate(base);
                if cond?.truthy() {
                    break;
                }
            },
            Stat::If(branches, else_b) => {
                for (c, b) in branches {
                    if self.eval(c, frame)?.truthy() {
                        return self.exec_block(b, frame);
                    }
                }
                if let Some(b) = else_b {
                    return self.exec_block(b, frame);
                }
            }
            Stat::NumFor {
                var,
                start,
                end,
                step,
                body,
            } => {
                let a = self.eval(start, frame)?;
                let b = self.eval(end, frame)?;
                let s = match step {
                    Some(s) => self.eval(s, frame)?,
                    None => Value::Num(1.0),
                };
                let (a, b, s) = match (a, b, s) {
                    (Value::Num(a), Value::Num(b), Value::Num(s)) => (a, b, s),
                    (a, b, s) => {
                        if [&a, &b, &s].iter().all(|v| matches!(v, Value::Num(_) | Value::Str(_))) {
                            return poison("string bounds in numeric for");
                        }
                        return err_str("'for' bounds must be numbers");
                    }
                };
                if s == 0.0 || s.is_nan() || a.is_nan() || b.is_nan() {
                    return poison("numeric for with zero/NaN step or bounds");
                }
                let mut i = a;
                loop {
                    self.tick()?;
                    if (s > 0.0 && i > b) || (s < 0.0 && i < b) {
                        break;
                    }
                    let base = frame.vars.len();
                    self.declare(frame, &var.name, Value::Num(i));
                    let flow = self.exec_block(body, frame);
                    frame.vars.truncate(base);
                    match flow? {
                        Flow::Break => break,
                        Flow::Return(v) => return Ok(Flow::Return(v)),
                        Flow::Normal | Flow::Continue => {}
                    }
                    i += s;
                }
            }
            Stat::GenFor { names, exprs, body } => {
                let vals = Self::adjust(self.eval_list(exprs, frame)?, 3);
                let f = vals[0].clone();
                let st = vals[1].clone();
                let mut ctl = vals[2].clone();
                if !matches!(f, Value::Func(_) | Value::Builtin(_)) {
                    return poison("generic for over a non-function");
                }
                loop {
                    self.tick()?;
                    let rets = self.call(&f, vec![st.clone(), ctl.clone()])?;
                    let rets = Self::adjust(rets, names.len().max(1));
                    if matches!(rets[0], Value::Nil) {
                        break;
                    }
                    ctl = rets[0].clone();
                    let base = frame.vars.len();
                    for (n, v) in names.iter().zip(rets) {
                        self.declare(frame, &n.name, v);
                    }
                    let flow = self.exec_block(body, frame);
                    frame.vars.truncate(base);
                    match flow? {
                        Flow::Break => break,
                        Flow::Return(v) => return Ok(Flow::Return(v)),
                        Flow::Normal | Flow::Continue => {}
                    }
                }
            }
            Stat::Function { name, body } => {
                let f = self.make_closure(body, frame);
                if name.fields.is_empty() && name.method.is_none() {
                    match self.lookup(frame, &name.base) {
                        Some(c) => *c.borrow_mut() = f,
                        None => self.globals.borrow_mut().set_str(&name.base, f),
                    }
                } else {
                    let mut obj = self.eval(&Expr::Name(name.base.clone(), name.base_pos), frame)?;
                    let mut keys: Vec<&String> = name.fields.iter().collect();
                    if let Some(m) = &name.method {
                        keys.push(m);
                    }
                    let last = keys.pop().unwrap();
                    for k in keys {
                        obj = self.index(&obj, &Value::str(k))?;
                    }
                    self.set_index(&obj, Value::str(last), f)?;
                }
            }
            Stat::LocalFunction { name, body, .. } => {
                self.declare(frame, name, Value::Nil);
                let f = self.make_closure(body, frame);
                *frame.vars.last().unwrap().1.borrow_mut() = f;
            }
            Stat::Return(exprs) => {
                let vals = self.eval_list(exprs, frame)?;
                return Ok(Flow::Return(vals));
            }
            Stat::Break => return Ok(Flow::Break),
            Stat::Continue => return Ok(Flow::Continue),
            Stat::TypeDecl { .. } | Stat::TypeFunction { .. } => {}
        }
        Ok(Flow::Normal)
    }

    // ------------------------------------------------------------------ expressions

    pub fn eval_multi(&mut self, e: &Expr, frame: &mut Frame) -> Res<Vec<Value>> {
        match e {
            Expr::Vararg => Ok(frame.varargs.clone()),
            Expr::Call(f, args, _) => {
                self.tick()?;
                let fv = self.eval(f, frame)?;
                let argv = self.eval_list(args, frame)?;
                self.call(&fv, argv)
            }
            Expr::MethodCall(o, m, args, _, _) => {
                self.tick()?;
                let ov = self.eval(o, frame)?;
                let fv = self.index(&ov, &Value::str(m))?;
                let mut argv = vec![ov];
                argv.extend(self.eval_list(args, frame)?);
                self.call(&fv, argv)
            }
            Expr::Instantiate(inner, _) => self.eval_multi(inner, frame),
            _ => Ok(vec![self.eval(e, frame)?]),
        }
    }

    fn eval(&mut self, e: &Expr, frame: &mut Frame) -> Res<Value> {
        self.tick()?;
        Ok(match e {
            Expr::Nil => Value::Nil,
            Expr::True => Value::Bool(true),
            Expr::False => Value::Bool(false),
            Expr::Number(n) => Value::Num(*n),
            Expr::Str(s) => Value::bytes(s.clone()),
            Expr::Vararg => frame.varargs.first().cloned().unwrap_or(Value::Nil),
            Expr::Function(body) => self.make_closure(body, frame),
            Expr::Name(n, _) => match self.lookup(frame, n) {
                Some(c) => c.borrow().clone(),
                None => self.globals.borrow().get_str(n),
            },
            Expr::Index(o, k) => {
                let o = self.eval(o, frame)?;
                let k = self.eval(k, frame)?;
                self.index(&o, &k)?
            }
            Expr::Field(o, k) => {
                let o = self.eval(o, frame)?;
                self.index(&o, &Value::str(k))?
            }
            Expr::Call(..) | Expr::MethodCall(..) | Expr::Instantiate(..) => {
                self.eval_multi(e, frame)?.into_iter().next().unwrap_or(Value::Nil)
            }
            Expr::Binary(op, l, r) => match op {
                BinOp::And => {
                    let lv = self.eval(l, frame)?;
                    if lv.truthy() {
                        self.eval(r, frame)?
                    } else {
                        lv
                    }
                }
                BinOp::Or => {
                    let lv = self.eval(l, frame)?;
                    if lv.truthy() {
                        lv
                    } else {
                        self.eval(r, frame)?
                    }
                }
                _ => {
                    let lv = self.eval(l, frame)?;
                    let rv = self.eval(r, frame)?;
                    self.binary(*op, lv, rv)?
                }
            },
            Expr::Unary(op, x) => {
                let v = self.eval(x, frame)?;
                self.unary(*op, v)?
            }
            Expr::Paren(x) => self.eval(x, frame)?,
            Expr::Cast(x, _) => self.eval(x, frame)?,
            Expr::Table(items) => {
                let t = new_table();
                self.all_tables.push(t.clone());
                let mut pos = 1usize;
                for (i, item) in items.iter().enumerate() {
                    match item {
                        TableItem::Pos(x) => {
                            if i + 1 == items.len() {
                                for v in self.eval_multi(x, frame)? {
                                    t.borrow_mut().set(Value::Num(pos as f64), v);
                                    pos += 1;
                                }
                            } else {
                                let v = self.eval(x, frame)?;
                                t.borrow_mut().set(Value::Num(pos as f64), v);
                                pos += 1;
                            }
                        }
                        TableItem::Named(k, x) => {
                            let v = self.eval(x, frame)?;
                            t.borrow_mut().set(Value::str(k), v);
                        }
                        TableItem::Keyed(k, x) => {
                            let k = self.eval(k, frame)?;
                            let v = self.eval(x, frame)?;
                            if k.to_key().is_none() {
                                return err_str("table index is nil or NaN");
                            }
                            t.borrow_mut().set(k, v);
                        }
                    }
                }
                Value::Table(t)
            }
            Expr::IfExpr(branches, else_e) => {
                for (c, v) in branches {
                    if self.eval(c, frame)?.truthy() {
                        return self.eval(v, frame);
                    }
                }
                self.eval(else_e, frame)?
            }
            Expr::Interp(parts) => {
                // Luau compiles an interpolated string to `string.format(fmt, v1, v2, ...)`: every value is
                // evaluated first, then each one is converted (`__tostring`) in order
                if self.interp_convert_eagerly {
                    let mut out = Vec::new();
                    for p in parts {
                        match p {
                            InterpPart::Str(s) => out.extend_from_slice(s),
                            InterpPart::Expr(x) => {
                                let v = self.eval(x, frame)?;
                                let s = self.tostring(&v)?;
                                out.extend_from_slice(&s);
                            }
                        }
                    }
                    return Ok(Value::bytes(out));
                }
                let mut values = Vec::new();
                for p in parts {
                    if let InterpPart::Expr(x) = p {
                        values.push(self.eval(x, frame)?);
                    }
                }
                let mut values = values.into_iter();
                let mut out = Vec::new();
                for p in parts {
                    match p {
                        InterpPart::Str(s) => out.extend_from_slice(s),
                        InterpPart::Expr(_) => {
                            let v = values.next().unwrap();
                            let s = self.tostring(&v)?;
                            out.extend_from_slice(&s);
                        }
                    }
                }
                Value::bytes(out)
            }
        })
    }

    // ------------------------------------------------------------------ operations

    fn metamethod(&self, v: &Value, name: &str) -> Value {
        match v {
            Value::Table(t) => match &t.borrow().meta {
                Some(m) => m.borrow().get_str(name),
                None => Value::Nil,
            },
            _ => Value::Nil,
        }
    }

    pub fn index(&mut self, o: &Value, k: &Value) -> Res<Value> {
        let mut cur = o.clone();
        for _ in 0..20 {
            match &cur {
                Value::Table(t) => {
                    let raw = t.borrow().get(k);
                    if !matches!(raw, Value::Nil) {
                        return Ok(raw);
                    }
                    let h = self.metamethod(&cur, "__index");
                    match h {
                        Value::Nil => return Ok(Value::Nil),
                        Value::Func(_) | Value::Builtin(_) => {
                            let r = self.call(&h, vec![cur.clone(), k.clone()])?;
                            return Ok(r.into_iter().next().unwrap_or(Value::Nil));
                        }
                        other => cur = other,
                    }
                }
                Value::Str(_) => {
                    let lib = self.string_lib.clone();
                    let v = lib.borrow().get(k);
                    return Ok(v);
                }
                other => {
                    return err_str(&format!("attempt to index a {} value", other.type_name()));
                }
            }
        }
        poison("__index chain too long")
    }

    pub fn set_index(&mut self, o: &Value, k: Value, v: Value) -> Res<()> {
        let mut cur = o.clone();
        for _ in 0..20 {
            match &cur {
                Value::Table(t) => {
                    let exists = !matches!(t.borrow().get(&k), Value::Nil);
                    let h = if exists { Value::Nil } else { self.metamethod(&cur, "__newindex") };
                    match h {
                        Value::Nil => {
                            if k.to_key().is_none() {
                                return err_str("table index is nil or NaN");
                            }
                            t.borrow_mut().set(k, v);
                            return Ok(());
                        }
                        Value::Func(_) | Value::Builtin(_) => {
                            self.call(&h, vec![cur.clone(), k, v])?;
                            return Ok(());
                        }
                        other => cur = other,
                    }
                }
                other => return err_str(&format!("attempt to index a {} value", other.type_name())),
            }
        }
        poison("__newindex chain too long")
    }

    fn to_number_arith(&self, v: &Value) -> Res<Option<f64>> {
        match v {
            Value::Num(n) => Ok(Some(*n)),
            Value::Str(s) => match str_to_number(s) {
                Ok(r) => Ok(r),
                Err(()) => poison("string->number coercion that differs between dialects"),
            },
            _ => Ok(None),
        }
    }

    fn arith_meta(&mut self, name: &str, a: Value, b: Value) -> Res<Value> {
        let mut h = self.metamethod(&a, name);
        if matches!(h, Value::Nil) {
            h = self.metamethod(&b, name);
        }
        if matches!(h, Value::Nil) {
            let bad = if matches!(a, Value::Num(_)) || (matches!(a, Value::Str(_)) && name != "__concat") { &b } else { &a };
            return err_str(&format!("attempt to perform arithmetic ({}) on a {} value", name, bad.type_name()));
        }
        let r = self.call(&h, vec![a, b])?;
        Ok(r.into_iter().next().unwrap_or(Value::Nil))
    }

    pub fn binary(&mut self, op: BinOp, a: Value, b: Value) -> Res<Value> {
        use BinOp::*;
        match op {
            Add | Sub | Mul | Div | Mod | Pow | IDiv => {
                let x = self.to_number_arith(&a)?;
                let y = self.to_number_arith(&b)?;
                if let (Some(x), Some(y)) = (x, y) {
                    if (matches!(a, Value::Str(_)) || matches!(b, Value::Str(_))) && self.mode == Mode::Luau {
                        // Luau also coerces strings in arithmetic; same result
                    }
                    return Ok(Value::Num(match op {
                        Add => x + y,
                        Sub => x - y,
                        Mul => x * y,
                        Div => x / y,
                        Pow => {
                            if self.pow_half_as_sqrt && y == 0.5 {
                                x.sqrt()
                            } else {
                                pow(x, y)
                            }
                        }
                        IDiv => (x / y).floor(),
                        Mod => {
                            if y.is_infinite() {
                                return poison("modulo by infinity");
                            }
                            // Lua 5.1: a - floor(a/b)*b ; Luau: fmod adjusted. They agree for finite operands
                            // except in rounding corner cases where the quotient is huge.
                            if y == 0.0 || x.is_nan() || y.is_nan() || x.is_infinite() {
                                f64::NAN
                            } else {
                                let r51 = x - (x / y).floor() * y;
                                let mut rl = x % y;
                                if rl != 0.0 && ((rl < 0.0) != (y < 0.0)) {
                                    rl += y;
                                }
                                if r51.to_bits() != rl.to_bits() && !(r51 == 0.0 && rl == 0.0) {
                                    return poison("modulo result differs between dialects");
                                }
                                if r51 == 0.0 && rl == 0.0 && r51.to_bits() != rl.to_bits() {
                                    return poison("modulo zero sign differs between dialects");
                                }
                                r51
                            }
                        }
                        _ => unreachable!(),
                    }));
                }
                let name = match op {
                    Add => "__add",
                    Sub => "__sub",
                    Mul => "__mul",
                    Div => "__div",
                    Mod => "__mod",
                    Pow => "__pow",
                    IDiv => "__idiv",
                    _ => unreachable!(),
                };
                self.arith_meta(name, a, b)
            }
            Concat => {
                let sa = matches!(a, Value::Str(_) | Value::Num(_));
                let sb = matches!(b, Value::Str(_) | Value::Num(_));
                if sa && sb {
                    let mut out = self.tostring(&a)?;
                    out.extend(self.tostring(&b)?);
                    return Ok(Value::bytes(out));
                }
                let mut h = self.metamethod(&a, "__concat");
                if matches!(h, Value::Nil) {
                    h = self.metamethod(&b, "__concat");
                }
                if matches!(h, Value::Nil) {
                    let bad = if sa { &b } else { &a };
                    return err_str(&format!("attempt to concatenate a {} value", bad.type_name()));
                }
                let r = self.call(&h, vec![a, b])?;
                Ok(r.into_iter().next().unwrap_or(Value::Nil))
            }
            Eq => Ok(Value::Bool(self.equals(&a, &b)?)),
            Ne => Ok(Value::Bool(!self.equals(&a, &b)?)),
            Lt => Ok(Value::Bool(self.less(&a, &b, "__lt")?)),
            Le => Ok(Value::Bool(self.less(&a, &b, "__le")?)),
            Gt => Ok(Value::Bool(self.less(&b, &a, "__lt")?)),
            Ge => Ok(Value::Bool(self.less(&b, &a, "__le")?)),
            And | Or => unreachable!(),
        }
    }

    fn equals(&mut self, a: &Value, b: &Value) -> Res<bool> {
        if a.raw_equal(b) {
            return Ok(true);
        }
        if let (Value::Table(_), Value::Table(_)) = (a, b) {
            let h1 = self.metamethod(a, "__eq");
            let h2 = self.metamethod(b, "__eq");
            if matches!(h1, Value::Nil) && matches!(h2, Value::Nil) {
                return Ok(false);
            }
            if h1.raw_equal(&h2) {
                let r = self.call(&h1, vec![a.clone(), b.clone()])?;
                return Ok(r.into_iter().next().unwrap_or(Value::Nil).truthy());
            }
            return poison("__eq with different metamethods");
        }
        Ok(false)
    }

    fn less(&mut self, a: &Value, b: &Value, mm: &str) -> Res<bool> {
        match (a, b) {
            (Value::Num(x), Value::Num(y)) => Ok(if mm == "__lt" { x < y } else { x <= y }),
            (Value::Str(x), Value::Str(y)) => Ok(if mm == "__lt" { x < y } else { x <= y }),
            (Value::Table(_), Value::Table(_)) => {
                let h1 = self.metamethod(a, mm);
                let h2 = self.metamethod(b, mm);
                if matches!(h1, Value::Nil) && matches!(h2, Value::Nil) {
                    if mm == "__le" && (!matches!(self.metamethod(a, "__lt"), Value::Nil) || !matches!(self.metamethod(b, "__lt"), Value::Nil)) {
                        return poison("__le falling back to __lt");
                    }
                    return err_str("attempt to compare two table values");
                }
                if h1.raw_equal(&h2) {
                    let r = self.call(&h1, vec![a.clone(), b.clone()])?;
                    return Ok(r.into_iter().next().unwrap_or(Value::Nil).truthy());
                }
                poison("comparison with different metamethods")
            }
            _ => {
                let has_meta = |v: &Value| matches!(v, Value::Table(t) if t.borrow().meta.is_some());
                if has_meta(a) || has_meta(b) {
                    return poison("mixed-type comparison with a metatable");
                }
                err_str(&format!("attempt to compare {} with {}", a.type_name(), b.type_name()))
            }
        }
    }

    fn unary(&mut self, op: UnOp, v: Value) -> Res<Value> {
        match op {
            UnOp::Not => Ok(Value::Bool(!v.truthy())),
            UnOp::Neg => {
                if let Some(n) = self.to_number_arith(&v)? {
                    return Ok(Value::Num(-n));
                }
                let h = self.metamethod(&v, "__unm");
                if matches!(h, Value::Nil) {
                    return err_str(&format!("attempt to perform arithmetic on a {} value", v.type_name()));
                }
                let r = self.call(&h, vec![v.clone(), v])?;
                Ok(r.into_iter().next().unwrap_or(Value::Nil))
            }
            UnOp::Len => match &v {
                Value::Str(s) => Ok(Value::Num(s.len() as f64)),
                Value::Table(t) => {
                    if !matches!(self.metamethod(&v, "__len"), Value::Nil) {
                        return poison("__len on a table");
                    }
                    let (n, holes) = t.borrow().border();
                    if holes {
                        return poison("length of a table with holes");
                    }
                    Ok(Value::Num(n as f64))
                }
                other => err_str(&format!("attempt to get length of a {} value", other.type_name())),
            },
        }
    }

    pub fn tostring(&mut self, v: &Value) -> Res<Vec<u8>> {
        Ok(match v {
            Value::Nil => b"nil".to_vec(),
            Value::Bool(true) => b"true".to_vec(),
            Value::Bool(false) => b"false".to_vec(),
            Value::Num(n) => match self.numfmt {
                NumFmt::Common => match num_to_string_common(*n) {
                    Some(s) => s.into_bytes(),
                    None => return poison("number formatting differs between dialects"),
                },
                NumFmt::G14 => fmt_g14(*n).into_bytes(),
                NumFmt::ShortestFixed => fmt_shortest(*n, false).into_bytes(),
                NumFmt::ShortestSci => fmt_shortest(*n, true).into_bytes(),
            },
            Value::Str(s) => (**s).clone(),
            Value::Table(_) => {
                let h = self.metamethod(v, "__tostring");
                if matches!(h, Value::Nil) {
                    return poison("tostring of a table");
                }
                let r = self.call(&h, vec![v.clone()])?;
                match r.into_iter().next() {
                    Some(Value::Str(s)) => (*s).clone(),
                    _ => return poison("__tostring returned a non-string"),
                }
            }
            Value::Func(_) | Value::Builtin(_) => return poison("tostring of a function"),
        })
    }

    // ------------------------------------------------------------------ calls

    pub fn call(&mut self, f: &Value, args: Vec<Value>) -> Res<Vec<Value>> {
        self.tick()?;
        match f {
            Value::Func(c) => {
                self.depth += 1;
                if self.depth > MAX_DEPTH {
                    self.depth -= 1;
                    return Err(Stop::Fuel);
                }
                let body = c.body.clone();
                let mut frame = Frame {
                    vars: c.upvals.clone(),
                    varargs: Vec::new(),
                    file: c.file.clone(),
                };
                let mut it = args.into_iter();
                if body.has_self {
                    let v = it.next().unwrap_or(Value::Nil);
                    self.declare(&mut frame, "self", v);
                }
                for p in &body.params {
                    let v = it.next().unwrap_or(Value::Nil);
                    self.declare(&mut frame, &p.name, v);
                }
                if body.vararg {
                    frame.varargs = it.collect();
                }
                let saved_file = std::mem::replace(&mut self.current_file, c.file.clone());
                let r = self.exec_block(&body.body, &mut frame);
                self.current_file = saved_file;
                self.depth -= 1;
                match r? {
                    Flow::Return(v) => Ok(v),
                    Flow::Normal => Ok(Vec::new()),
                    Flow::Break => poison("break outside loop"),
                    Flow::Continue => poison("continue outside loop"),
                }
            }
            Value::Builtin(b) => {
                let b = b.clone();
                self.call_builtin(&b, args)
            }
            Value::Table(_) => {
                let h = self.metamethod(f, "__call");
                if matches!(h, Value::Nil) {
                    return err_str("attempt to call a table value");
                }
                let mut a = vec![f.clone()];
                a.extend(args);
                self.call(&h, a)
            }
            other => err_str(&format!("attempt to call a {} value", other.type_name())),
        }
    }

    fn arg(args: &[Value], i: usize) -> Value {
        args.get(i).cloned().unwrap_or(Value::Nil)
    }

    fn check_num(&self, args: &[Value], i: usize) -> Res<f64> {
        match Self::arg(args, i) {
            Value::Num(n) => Ok(n),
            Value::Str(s) => match str_to_number(&s) {
                Ok(Some(n)) => Ok(n),
                Ok(None) => err_str("number expected"),
                Err(()) => poison("string->number coercion"),
            },
            _ => err_str("number expected"),
        }
    }

    fn check_int(&self, args: &[Value], i: usize) -> Res<i64> {
        let n = self.check_num(args, i)?;
        if n.fract() != 0.0 || n.abs() > 1e15 {
            return poison("non-integer where an integer is expected");
        }
        Ok(n as i64)
    }

    fn check_str(&self, args: &[Value], i: usize) -> Res<Vec<u8>> {
        match Self::arg(args, i) {
            Value::Str(s) => Ok((*s).clone()),
            Value::Num(n) => match num_to_string_common(n) {
                Some(s) => Ok(s.into_bytes()),
                None => poison("number formatting"),
            },
            _ => err_str("string expected"),
        }
    }

    fn check_table(&self, args: &[Value], i: usize) -> Res<TableRef> {
        match Self::arg(args, i) {
            Value::Table(t) => Ok(t),
            _ => err_str("table expected"),
        }
    }

    fn call_builtin(&mut self, b: &Builtin, args: Vec<Value>) -> Res<Vec<Value>> {
        match b {
            Builtin::Ext(name, ret) => {
                let line = format!("{}({})", name, self.ser_list(&args));
                self.log.push(line);
                Ok(match ret {
                    ExtRet::OneTwo => vec![Value::Num(1.0), Value::Num(2.0)],
                    ExtRet::Nothing => vec![],
                    ExtRet::FalseX => vec![Value::Bool(false), Value::str("x")],
                    ExtRet::Nil => vec![Value::Nil],
                    ExtRet::Args => args,
                    ExtRet::Table => args,
                })
            }
            Builtin::ET => {
                let tag = match Self::arg(&args, 0) {
                    Value::Str(s) => String::from_utf8_lossy(&s).into_owned(),
                    other => self.serialize(&other),
                };
                self.log.push(format!("ET({})", tag));
                let t = new_table();
                self.all_tables.push(t.clone());
                t.borrow_mut().tag = Some(tag);
                t.borrow_mut().meta = Some(self.et_meta.clone());
                Ok(vec![Value::Table(t)])
            }
            Builtin::EtMeta(mm) => {
                self.log.push(format!("mm:{}({})", mm, self.ser_list(&args)));
                Ok(match *mm {
                    "__index" => vec![Value::Num(7.0)],
                    "__newindex" => vec![],
                    "__call" => vec![Value::Num(1.0), Value::Num(2.0)],
                    "__add" => vec![Value::Num(11.0)],
                    "__sub" => vec![Value::Num(12.0)],
                    "__mul" => vec![Value::Num(13.0)],
                    "__div" => vec![Value::Num(14.0)],
                    "__mod" => vec![Value::Num(15.0)],
                    "__pow" => vec![Value::Num(16.0)],
                    "__idiv" => vec![Value::Num(17.0)],
                    "__unm" => vec![Value::Num(21.0)],
                    "__concat" => vec![Value::str("cc")],
                    "__eq" => vec![Value::Bool(true)],
                    "__lt" => vec![Value::Bool(true)],
                    "__le" => vec![Value::Bool(false)],
                    "__tostring" => vec![Value::str("ET")],
                    _ => vec![],
                })
            }
            Builtin::Identity => Ok(args),
            Builtin::Noop => Ok(vec![]),
            Builtin::ReturnNil => Ok(vec![Value::Nil]),
            Builtin::IdentityOrNil => Ok(if args.is_empty() { vec![Value::Nil] } else { args }),
            Builtin::IpairsIter => {
                let t = self.check_table(&args, 0)?;
                let i = self.check_num(&args, 1)? + 1.0;
                let v = t.borrow().get(&Value::Num(i));
                if matches!(v, Value::Nil) {
                    Ok(vec![Value::Nil])
                } else {
                    Ok(vec![Value::Num(i), v])
                }
            }
            Builtin::Require => self.model_require(args),
            Builtin::Named(name) => self.call_named(name, args),
        }
    }

    fn model_require(&mut self, args: Vec<Value>) -> Res<Vec<Value>> {
        // which file is calling? the innermost Lua closure's file is not tracked through builtins, so the
        // harness sets `current_file` through closures: we use the log of the frame stack instead.
        let arg = match Self::arg(&args, 0) {
            Value::Str(s) => String::from_utf8_lossy(&s).into_owned(),
            _ => return err_str("require expects a string"),
        };
        let from = self.current_file.to_string();
        let resolver = match &self.resolver {
            Some(r) => r,
            None => {
                // no module system: plain logging external
                self.log.push(format!("require({})", quote_bytes(arg.as_bytes())));
                return Ok(vec![Value::Nil]);
            }
        };
        let path = match resolver(&from, &arg) {
            Ok(p) => p,
            Err(e) => return err_str(&format!("require: {}", e)),
        };
        if let Some(v) = self.module_cache.get(&path) {
            return Ok(vec![v.clone()]);
        }
        let src = match self.modules.get(&path) {
            Some(ModuleSource::Lua(b)) => Ok(b.clone()),
            Some(ModuleSource::Value(v)) => Err(Ok(v.clone())),
            Some(ModuleSource::Broken(m)) => Err(Err(m.clone())),
            None => Err(Err(format!("module {} not found", path))),
        };
        let value = match src {
            Ok(block) => {
                let saved = std::mem::replace(&mut self.current_file, Rc::from(path.as_str()));
                self.depth += 1;
                if self.depth > MAX_DEPTH {
                    self.depth -= 1;
                    return Err(Stop::Fuel);
                }
                let r = self.run_chunk(&block, &path);
                self.depth -= 1;
                self.current_file = saved;
                let vals = r?;
                if vals.len() != 1 {
                    return poison("module returning other than exactly one value");
                }
                vals.into_iter().next().unwrap()
            }
            Err(Ok(v)) => v,
            Err(Err(m)) => return err_str(&m),
        };
        self.module_cache.insert(path, value.clone());
        Ok(vec![value])
    }

    fn call_named(&mut self, name: &str, args: Vec<Value>) -> Res<Vec<Value>> {
        match name {
            "select" => match Self::arg(&args, 0) {
                Value::Str(s) if &**s == b"#" => Ok(vec![Value::Num((args.len() - 1) as f64)]),
                _ => {
                    let n = self.check_int(&args, 0)?;
                    if n <= 0 {
                        return poison("select with a non-positive index");
                    }
                    Ok(args.into_iter().skip(n as usize).collect())
                }
            },
            "type" => {
                if args.is_empty() {
                    return err_str("type: value expected");
                }
                Ok(vec![Value::str(args[0].type_name())])
            }
            "tostring" => {
                if args.is_empty() {
                    return err_str("tostring: value expected");
                }
                let s = self.tostring(&args[0])?;
                Ok(vec![Value::bytes(s)])
            }
            "tonumber" => {
                if args.len() > 1 && !matches!(args[1], Value::Nil) {
                    return poison("tonumber with base");
                }
                if args.is_empty() {
                    return err_str("tonumber: value expected");
                }
                Ok(vec![match &args[0] {
                    Value::Num(n) => Value::Num(*n),
                    Value::Str(s) => match str_to_number(s) {
                        Ok(Some(n)) => Value::Num(n),
                        Ok(None) => Value::Nil,
                        Err(()) => return poison("tonumber on a dialect-specific spelling"),
                    },
                    _ => Value::Nil,
                }])
            }
            "rawget" => {
                let t = self.check_table(&args, 0)?;
                let v = t.borrow().get(&Self::arg(&args, 1));
                Ok(vec![v])
            }
            "rawset" => {
                let t = self.check_table(&args, 0)?;
                let k = Self::arg(&args, 1);
                if k.to_key().is_none() {
                    return err_str("table index is nil or NaN");
                }
                t.borrow_mut().set(k, Self::arg(&args, 2));
                Ok(vec![args[0].clone()])
            }
            "rawequal" => Ok(vec![Value::Bool(Self::arg(&args, 0).raw_equal(&Self::arg(&args, 1)))]),
            "setmetatable" => {
                let t = self.check_table(&args, 0)?;
                if t.borrow().tag.is_some() {
                    return poison("setmetatable on an ET table");
                }
                match Self::arg(&args, 1) {
                    Value::Nil => t.borrow_mut().meta = None,
                    Value::Table(m) => {
                        if !matches!(m.borrow().get_str("__metatable"), Value::Nil) {
                            return poison("__metatable field");
                        }
                        for k in ["__gc", "__mode", "__iter", "__len", "__type", "__namecall"] {
                            if !matches!(m.borrow().get_str(k), Value::Nil) {
                                return poison("dialect-specific metamethod");
                            }
                        }
                        t.borrow_mut().meta = Some(m)
                    }
                    _ => return err_str("setmetatable: nil or table expected"),
                }
                Ok(vec![args[0].clone()])
            }
            "getmetatable" => match Self::arg(&args, 0) {
                Value::Table(t) => Ok(vec![match &t.borrow().meta {
                    Some(m) => Value::Table(m.clone()),
                    None => Value::Nil,
                }]),
                Value::Str(_) => poison("getmetatable of a string"),
                _ => Ok(vec![Value::Nil]),
            },
            "ipairs" => {
                let t = self.check_table(&args, 0)?;
                if t.borrow().meta.is_some() {
                    return poison("ipairs over a table with a metatable");
                }
                Ok(vec![Value::Builtin(Rc::new(Builtin::IpairsIter)), Value::Table(t), Value::Num(0.0)])
            }
            "pairs" => {
                let t = self.check_table(&args, 0)?;
                if t.borrow().meta.is_some() {
                    return poison("pairs over a table with a metatable");
                }
                Ok(vec![builtin("next"), Value::Table(t), Value::Nil])
            }
            "next" => {
                let t = self.check_table(&args, 0)?;
                let keys = t.borrow().iteration_keys();
                let (n, _) = t.borrow().border();
                if keys.len() - n > 1 {
                    return poison("iteration order over several hash keys");
                }
                let k = Self::arg(&args, 1);
                let idx = if matches!(k, Value::Nil) {
                    0
                } else {
                    match keys.iter().position(|x| x.raw_equal(&k)) {
                        Some(i) => i + 1,
                        None => return poison("next with a removed key"),
                    }
                };
                if idx < keys.len() {
                    let key = keys[idx].clone();
                    let v = t.borrow().get(&key);
                    Ok(vec![key, v])
                } else {
                    Ok(vec![Value::Nil])
                }
            }
            "unpack" | "table.unpack" => {
                let t = self.check_table(&args, 0)?;
                let i = if matches!(Self::arg(&args, 1), Value::Nil) { 1 } else { self.check_int(&args, 1)? };
                let j = if matches!(Self::arg(&args, 2), Value::Nil) {
                    let (n, holes) = t.borrow().border();
                    if holes {
                        return poison("unpack of a table with holes");
                    }
                    n as i64
                } else {
                    self.check_int(&args, 2)?
                };
                if j - i > 200 {
                    return poison("unpack of too many values");
                }
                let mut out = Vec::new();
                let mut k = i;
                while k <= j {
                    out.push(t.borrow().get(&Value::Num(k as f64)));
                    k += 1;
                }
                Ok(out)
            }
            "pcall" => {
                if args.is_empty() {
                    return err_str("pcall: value expected");
                }
                let f = args[0].clone();
                let rest: Vec<Value> = args.into_iter().skip(1).collect();
                let depth = self.depth;
                match self.call(&f, rest) {
                    Ok(mut v) => {
                        v.insert(0, Value::Bool(true));
                        Ok(v)
                    }
                    Err(Stop::Error(e)) => {
                        self.depth = depth;
                        Ok(vec![Value::Bool(false), e])
                    }
                    Err(other) => Err(other),
                }
            }
            "error" => {
                let v = Self::arg(&args, 0);
                let level = match Self::arg(&args, 1) {
                    Value::Nil => 1.0,
                    Value::Num(n) => n,
                    _ => return poison("error level"),
                };
                match &v {
                    Value::Str(s) if level != 0.0 => {
                        // position information is prefixed: keep it opaque but deterministic
                        let mut m = b"?:?: ".to_vec();
                        m.extend_from_slice(s);
                        Err(Stop::Error(Value::bytes(m)))
                    }
                    _ => Err(Stop::Error(v)),
                }
            }
            "assert" => {
                if args.is_empty() {
                    return err_str("assert: value expected");
                }
                if args[0].truthy() {
                    Ok(args)
                } else {
                    match Self::arg(&args, 1) {
                        Value::Nil => err_str("assertion failed!"),
                        v => Err(Stop::Error(v)),
                    }
                }
            }
            "math.floor" => Ok(vec![Value::Num(self.check_num(&args, 0)?.floor())]),
            "math.ceil" => Ok(vec![Value::Num(self.check_num(&args, 0)?.ceil())]),
            "math.sqrt" => Ok(vec![Value::Num(self.check_num(&args, 0)?.sqrt())]),
            "math.abs" => Ok(vec![Value::Num(self.check_num(&args, 0)?.abs())]),
            "math.pow" => {
                if self.mode == Mode::Lua51 || true {
                    Ok(vec![Value::Num(pow(self.check_num(&args, 0)?, self.check_num(&args, 1)?))])
                } else {
                    unreachable!()
                }
            }
            "math.fmod" => {
                let a = self.check_num(&args, 0)?;
                let b = self.check_num(&args, 1)?;
                Ok(vec![Value::Num(a % b)])
            }
            "math.max" | "math.min" => {
                let mut m = self.check_num(&args, 0)?;
                for i in 1..args.len() {
                    let v = self.check_num(&args, i)?;
                    if v.is_nan() || m.is_nan() {
                        return poison("math.max/min with NaN");
                    }
                    if (name == "math.max" && v > m) || (name == "math.min" && v < m) {
                        m = v;
                    }
                }
                Ok(vec![Value::Num(m)])
            }
            "table.insert" => {
                let t = self.check_table(&args, 0)?;
                let (n, holes) = t.borrow().border();
                if holes {
                    return poison("table.insert with holes");
                }
                match args.len() {
                    2 => {
                        t.borrow_mut().set(Value::Num((n + 1) as f64), args[1].clone());
                    }
                    3 => {
                        let pos = self.check_int(&args, 1)?;
                        if pos < 1 || pos > n as i64 + 1 {
                            return poison("table.insert position out of bounds");
                        }
                        let mut i = n as i64;
                        while i >= pos {
                            let v = t.borrow().get(&Value::Num(i as f64));
                            t.borrow_mut().set(Value::Num((i + 1) as f64), v);
                            i -= 1;
                        }
                        t.borrow_mut().set(Value::Num(pos as f64), args[2].clone());
                    }
                    _ => return err_str("wrong number of arguments to 'insert'"),
                }
                Ok(vec![])
            }
            "table.remove" => {
                let t = self.check_table(&args, 0)?;
                let (n, holes) = t.borrow().border();
                if holes {
                    return poison("table.remove with holes");
                }
                if args.len() > 1 {
                    return poison("table.remove with a position");
                }
                if n == 0 {
                    return Ok(vec![Value::Nil]);
                }
                let v = t.borrow().get(&Value::Num(n as f64));
                t.borrow_mut().set(Value::Num(n as f64), Value::Nil);
                Ok(vec![v])
            }
            "table.concat" => {
                let t = self.check_table(&args, 0)?;
                let sep = if matches!(Self::arg(&args, 1), Value::Nil) { Vec::new() } else { self.check_str(&args, 1)? };
                let (n, holes) = t.borrow().border();
                if holes {
                    return poison("table.concat with holes");
                }
                let mut out = Vec::new();
                for i in 1..=n {
                    let v = t.borrow().get(&Value::Num(i as f64));
                    match v {
                        Value::Str(_) | Value::Num(_) => out.extend(self.tostring(&v)?),
                        _ => return err_str("invalid value in table for 'concat'"),
                    }
                    if i < n {
                        out.extend_from_slice(&sep);
                    }
                }
                Ok(vec![Value::bytes(out)])
            }
            "string.len" => Ok(vec![Value::Num(self.check_str(&args, 0)?.len() as f64)]),
            "string.upper" => Ok(vec![Value::bytes(self.check_str(&args, 0)?.to_ascii_uppercase())]),
            "string.lower" => Ok(vec![Value::bytes(self.check_str(&args, 0)?.to_ascii_lowercase())]),
            "string.reverse" => {
                let mut s = self.check_str(&args, 0)?;
                s.reverse();
                Ok(vec![Value::bytes(s)])
            }
            "string.rep" => {
                let s = self.check_str(&args, 0)?;
                let n = self.check_int(&args, 1)?;
                if n > 1000 {
                    return poison("string.rep too large");
                }
                Ok(vec![Value::bytes(s.repeat(n.max(0) as usize))])
            }
            "string.sub" => {
                let s = self.check_str(&args, 0)?;
                let l = s.len() as i64;
                let mut i = self.check_int(&args, 1)?;
                let mut j = if matches!(Self::arg(&args, 2), Value::Nil) { -1 } else { self.check_int(&args, 2)? };
                if i < 0 {
                    i = (l + i + 1).max(1);
                } else if i == 0 {
                    i = 1;
                }
                if j < 0 {
                    j += l + 1;
                } else if j > l {
                    j = l;
                }
                if i > j {
                    return Ok(vec![Value::str("")]);
                }
                Ok(vec![Value::bytes(s[(i - 1) as usize..j as usize].to_vec())])
            }
            "string.byte" => {
                let s = self.check_str(&args, 0)?;
                let i = if matches!(Self::arg(&args, 1), Value::Nil) { 1 } else { self.check_int(&args, 1)? };
                if !matches!(Self::arg(&args, 2), Value::Nil) {
                    return poison("string.byte range");
                }
                if i < 1 || i as usize > s.len() {
                    return Ok(vec![]);
                }
                Ok(vec![Value::Num(s[(i - 1) as usize] as f64)])
            }
            "string.char" => {
                let mut out = Vec::new();
                for i in 0..args.len() {
                    let c = self.check_int(&args, i)?;
                    if !(0..=255).contains(&c) {
                        return err_str("invalid value for string.char");
                    }
                    out.push(c as u8);
                }
                Ok(vec![Value::bytes(out)])
            }
            "string.format" => {
                let f = self.check_str(&args, 0)?;
                let mut out = Vec::new();
                let mut ai = 1;
                let mut i = 0;
                while i < f.len() {
                    if f[i] != b'%' {
                        out.push(f[i]);
                        i += 1;
                        continue;
                    }
                    i += 1;
                    if i >= f.len() {
                        return err_str("invalid format string");
                    }
                    match f[i] {
                        b'%' => out.push(b'%'),
                        b's' => {
                            if ai >= args.len() {
                                return err_str("bad argument to 'format' (no value)");
                            }
                            let v = args[ai].clone();
                            ai += 1;
                            match (&v, self.mode) {
                                (Value::Str(s), _) => {
                                    if s.contains(&0) {
                                        return poison("%s with embedded zero");
                                    }
                                    out.extend_from_slice(s)
                                }
                                (Value::Num(_), _) => out.extend(self.tostring(&v)?),
                                (_, Mode::Luau) => out.extend(self.tostring(&v)?),
                                (_, Mode::Lua51) => return err_str("bad argument to 'format' (string expected)"),
                            }
                        }
                        b'*' if self.mode == Mode::Luau => {
                            if ai >= args.len() {
                                return err_str("bad argument to 'format' (no value)");
                            }
                            let v = args[ai].clone();
                            ai += 1;
                            out.extend(self.tostring(&v)?);
                        }
                        b'd' => {
                            let n = self.check_num(&args, ai)?;
                            ai += 1;
                            if n.fract() != 0.0 || n.abs() > 1e15 {
                                return poison("%d with a non-integer");
                            }
                            out.extend(format!("{}", n as i64).into_bytes());
                        }
                        _ => return poison("unsupported format directive"),
                    }
                    i += 1;
                }
                Ok(vec![Value::bytes(out)])
            }
            other => poison(&format!("builtin {} not modelled", other)),
        }
    }
}

/// C `pow` semantics (IEEE 754 / C99 Annex F); Rust's powf follows the platform libm for these cases.
pub fn pow(x: f64, y: f64) -> f64 {
    x.powf(y)
}
