//! Runtime values of the reference interpreter.
use super::ast::FuncBody;
use std::cell::RefCell;
use std::collections::HashMap;
use std::rc::Rc;

pub type Cell = Rc<RefCell<Value>>;
pub type TableRef = Rc<RefCell<Table>>;

#[derive(Clone)]
pub enum Value {
    Nil,
    Bool(bool),
    Num(f64),
    Str(Rc<Vec<u8>>),
    Table(TableRef),
    Func(Rc<Closure>),
    Builtin(Rc<Builtin>),
}

pub struct Closure {
    pub body: Rc<FuncBody>,
    pub upvals: Vec<(&'static str, Cell)>,
    /// file this closure was defined in (for the model `require`)
    pub file: Rc<str>,
}

#[derive(Clone, Debug, PartialEq)]
pub enum ExtRet {
    OneTwo,
    Nothing,
    FalseX,
    Nil,
    Args,
    /// returns its first argument unchanged..all arguments (like assert without failing)
    Table,
}

#[derive(Debug)]
pub enum Builtin {
    /// logging external
    Ext(String, ExtRet),
    /// creates a logging-metatable table
    ET,
    /// metamethod of ET tables
    EtMeta(&'static str),
    Identity,
    Noop,
    /// returns exactly one nil
    ReturnNil,
    /// returns its arguments, or one nil when called without arguments
    IdentityOrNil,
    Named(&'static str),
    /// iterator helper for ipairs
    IpairsIter,
    /// model require
    Require,
}

#[derive(Clone, PartialEq, Eq, Hash, Debug)]
pub enum Key {
    Bool(bool),
    Num(u64),
    Str(Rc<Vec<u8>>),
    Ref(usize),
}

#[derive(Default)]
pub struct Table {
    pub map: HashMap<Key, (Value, Value)>,
    /// insertion order of keys (may contain removed keys)
    pub order: Vec<Key>,
    pub meta: Option<TableRef>,
    /// tag of ET tables
    pub tag: Option<String>,
}

impl Value {
    pub fn str(s: &str) -> Value {
        Value::Str(Rc::new(s.as_bytes().to_vec()))
    }
    pub fn bytes(b: Vec<u8>) -> Value {
        Value::Str(Rc::new(b))
    }
    pub fn truthy(&self) -> bool {
        !matches!(self, Value::Nil | Value::Bool(false))
    }
    pub fn type_name(&self) -> &'static str {
        match self {
            Value::Nil => "nil",
            Value::Bool(_) => "boolean",
            Value::Num(_) => "number",
            Value::Str(_) => "string",
            Value::Table(_) => "table",
            Value::Func(_) | Value::Builtin(_) => "function",
        }
    }
    pub fn to_key(&self) -> Option<Key> {
        Some(match self {
            Value::Nil => return None,
            Value::Bool(b) => Key::Bool(*b),
            Value::Num(n) => {
                if n.is_nan() {
                    return None;
                }
                let n = if *n == 0.0 { 0.0 } else { *n };
                Key::Num(n.to_bits())
            }
            Value::Str(s) => Key::Str(s.clone()),
            Value::Table(t) => Key::Ref(Rc::as_ptr(t) as *const u8 as usize),
            Value::Func(f) => Key::Ref(Rc::as_ptr(f) as *const u8 as usize),
            Value::Builtin(b) => Key::Ref(Rc::as_ptr(b) as *const u8 as usize),
        })
    }
    pub fn raw_equal(&self, other: &Value) -> bool {
        match (self, other) {
            (Value::Nil, Value::Nil) => true,
            (Value::Bool(a), Value::Bool(b)) => a == b,
            (Value::Num(a), Value::Num(b)) => a == b,
            (Value::Str(a), Value::Str(b)) => a == b,
            (Value::Table(a), Value::Table(b)) => Rc::ptr_eq(a, b),
            (Value::Func(a), Value::Func(b)) => Rc::ptr_eq(a, b),
            (Value::Builtin(a), Value::Builtin(b)) => Rc::ptr_eq(a, b),
            _ => false,
        }
    }
}

impl Table {
    pub fn get(&self, k: &Value) -> Value {
        match k.to_key() {
            Some(key) => self.map.get(&key).map(|(_, v)| v.clone()).unwrap_or(Value::Nil),
            None => Value::Nil,
        }
    }
    pub fn get_str(&self, k: &str) -> Value {
        self.get(&Value::str(k))
    }
    /// raw set; key must be valid
    pub fn set(&mut self, k: Value, v: Value) {
        let key = k.to_key().expect("valid key");
        if matches!(v, Value::Nil) {
            self.map.remove(&key);
        } else if let Some(slot) = self.map.get_mut(&key) {
            slot.1 = v;
        } else {
            self.order.push(key.clone());
            self.map.insert(key, (k, v));
        }
    }
    pub fn set_str(&mut self, k: &str, v: Value) {
        self.set(Value::str(k), v)
    }
    /// (border, has_holes)
    pub fn border(&self) -> (usize, bool) {
        let mut n = 0usize;
        loop {
            let k = Key::Num(((n + 1) as f64).to_bits());
            if self.map.contains_key(&k) {
                n += 1;
            } else {
                break;
            }
        }
        // any positive integer key beyond the border means holes
        let mut holes = false;
        for key in self.map.keys() {
            if let Key::Num(bits) = key {
                let f = f64::from_bits(*bits);
                if f.fract() == 0.0 && f > n as f64 {
                    holes = true;
                }
            }
        }
        (n, holes)
    }
    /// live keys in iteration order: sequence part ascending, then others in insertion order
    pub fn iteration_keys(&self) -> Vec<Value> {
        let (n, _) = self.border();
        let mut out = Vec::new();
        for i in 1..=n {
            out.push(Value::Num(i as f64));
        }
        let mut seen = std::collections::HashSet::new();
        for key in &self.order {
            if let Some((k, _)) = self.map.get(key) {
                if let Key::Num(bits) = key {
                    let f = f64::from_bits(*bits);
                    if f.fract() == 0.0 && f >= 1.0 && f <= n as f64 {
                        continue;
                    }
                }
                if seen.insert(key.clone()) {
                    out.push(k.clone());
                }
            }
        }
        out
    }
}
