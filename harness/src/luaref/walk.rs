//! Mutable traversal helpers over the reference AST (used by bug models and analyses).
use super::ast::*;
use std::rc::Rc;

/// post-order visit of every expression (children first)
pub fn map_exprs(block: &mut Block, f: &mut dyn FnMut(&mut Expr)) {
    for s in block.stats.iter_mut() {
        map_stat(&mut s.stat, f);
    }
}

fn map_func(body: &mut Rc<FuncBody>, f: &mut dyn FnMut(&mut Expr)) {
    let b = Rc::make_mut(body);
    map_exprs(&mut b.body, f);
}

fn map_list(v: &mut [Expr], f: &mut dyn FnMut(&mut Expr)) {
    for e in v.iter_mut() {
        map_expr(e, f);
    }
}

pub fn map_stat(s: &mut Stat, f: &mut dyn FnMut(&mut Expr)) {
    match s {
        Stat::Local { exprs, .. } => map_list(exprs, f),
        Stat::Assign { targets, exprs } => {
            map_list(targets, f);
            map_list(exprs, f);
        }
        Stat::CompoundAssign { target, expr, .. } => {
            map_expr(target, f);
            map_expr(expr, f);
        }
        Stat::Call(e) => map_expr(e, f),
        Stat::Do(b) => map_exprs(b, f),
        Stat::While(c, b) => {
            map_expr(c, f);
            map_exprs(b, f);
        }
        Stat::Repeat(b, c) => {
            map_exprs(b, f);
            map_expr(c, f);
        }
        Stat::If(branches, else_b) => {
            for (c, b) in branches.iter_mut() {
                map_expr(c, f);
                map_exprs(b, f);
            }
            if let Some(b) = else_b {
                map_exprs(b, f);
            }
        }
        Stat::NumFor { start, end, step, body, .. } => {
            map_expr(start, f);
            map_expr(end, f);
            if let Some(s) = step {
                map_expr(s, f);
            }
            map_exprs(body, f);
        }
        Stat::GenFor { exprs, body, .. } => {
            map_list(exprs, f);
            map_exprs(body, f);
        }
        Stat::Function { body, .. } | Stat::LocalFunction { body, .. } | Stat::TypeFunction { body, .. } => map_func(body, f),
        Stat::Return(exprs) => map_list(exprs, f),
        Stat::Break | Stat::Continue | Stat::TypeDecl { .. } => {}
    }
}

pub fn map_expr(e: &mut Expr, f: &mut dyn FnMut(&mut Expr)) {
    match e {
        Expr::Nil | Expr::True | Expr::False | Expr::Number(_) | Expr::Str(_) | Expr::Vararg | Expr::Name(..) => {}
        Expr::Function(body) => map_func(body, f),
        Expr::Index(a, b) | Expr::Binary(_, a, b) => {
            map_expr(a, f);
            map_expr(b, f);
        }
        Expr::Field(a, _) | Expr::Unary(_, a) | Expr::Paren(a) | Expr::Cast(a, _) | Expr::Instantiate(a, _) => map_expr(a, f),
        Expr::Call(c, args, _) => {
            map_expr(c, f);
            map_list(args, f);
        }
        Expr::MethodCall(o, _, args, _, _) => {
            map_expr(o, f);
            map_list(args, f);
        }
        Expr::Table(items) => {
            for it in items.iter_mut() {
                match it {
                    TableItem::Pos(v) | TableItem::Named(_, v) => map_expr(v, f),
                    TableItem::Keyed(k, v) => {
                        map_expr(k, f);
                        map_expr(v, f);
                    }
                }
            }
        }
        Expr::IfExpr(branches, else_e) => {
            for (c, v) in branches.iter_mut() {
                map_expr(c, f);
                map_expr(v, f);
            }
            map_expr(else_e, f);
        }
        Expr::Interp(parts) => {
            for p in parts.iter_mut() {
                if let InterpPart::Expr(x) = p {
                    map_expr(x, f);
                }
            }
        }
    }
    f(e);
}

/// visit every statement list (blocks), innermost first
pub fn map_blocks(block: &mut Block, f: &mut dyn FnMut(&mut Block)) {
    for s in block.stats.iter_mut() {
        match &mut s.stat {
            Stat::Do(b) | Stat::While(_, b) | Stat::Repeat(b, _) => map_blocks(b, f),
            Stat::If(branches, else_b) => {
                for (_, b) in branches.iter_mut() {
                    map_blocks(b, f);
                }
                if let Some(b) = else_b {
                    map_blocks(b, f);
                }
            }
            Stat::NumFor { body, .. } | Stat::GenFor { body, .. } => map_blocks(body, f),
            Stat::Function { body, .. } | Stat::LocalFunction { body, .. } => {
                let b = Rc::make_mut(body);
                map_blocks(&mut b.body, f);
            }
            _ => {}
        }
    }
    // function expressions inside statements
    let mut bodies: Vec<*mut Block> = Vec::new();
    map_exprs(block, &mut |e| {
        if let Expr::Function(body) = e {
            let b = Rc::make_mut(body);
            bodies.push(&mut b.body as *mut Block);
        }
    });
    let _ = bodies; // nested function-expression bodies are reached through map_exprs by callers that need them
    f(block);
}

/// true when the expression is made of literals and operators only
pub fn is_literal_expr(e: &Expr) -> bool {
    match e {
        Expr::Nil | Expr::True | Expr::False | Expr::Number(_) | Expr::Str(_) => true,
        Expr::Paren(a) | Expr::Unary(_, a) => is_literal_expr(a),
        Expr::Binary(_, a, b) => is_literal_expr(a) && is_literal_expr(b),
        _ => false,
    }
}

/// applies `f` to every expression that is a direct child of the statement (not to nested blocks)
pub fn map_stat_top(s: &mut Stat, f: &mut dyn FnMut(&mut Expr)) {
    match s {
        Stat::Local { exprs, .. } => exprs.iter_mut().for_each(|e| f(e)),
        Stat::Assign { targets, exprs } => {
            targets.iter_mut().for_each(|e| f(e));
            exprs.iter_mut().for_each(|e| f(e));
        }
        Stat::CompoundAssign { target, expr, .. } => {
            f(target);
            f(expr);
        }
        Stat::Call(e) => f(e),
        Stat::While(c, _) | Stat::Repeat(_, c) => f(c),
        Stat::If(branches, _) => branches.iter_mut().for_each(|(c, _)| f(c)),
        Stat::NumFor { start, end, step, .. } => {
            f(start);
            f(end);
            if let Some(s) = step {
                f(s);
            }
        }
        Stat::GenFor { exprs, .. } => exprs.iter_mut().for_each(|e| f(e)),
        Stat::Return(exprs) => exprs.iter_mut().for_each(|e| f(e)),
        Stat::Do(_) | Stat::Function { .. } | Stat::LocalFunction { .. } | Stat::TypeFunction { .. } | Stat::Break | Stat::Continue | Stat::TypeDecl { .. } => {}
    }
}
