//! Independent Lua 5.1 / Luau lexer (shares no code with darklua or full_moon).
//! Written from the Lua 5.1 reference manual (§2.1) and the Luau syntax documentation.

use std::fmt;

#[derive(Clone, Copy, PartialEq, Eq, Debug)]
pub enum Mode {
    /// Luau: all Luau extensions accepted.
    Luau,
    /// Strict Lua 5.1: rejects every Luau-only lexical form.
    Lua51,
}

#[derive(Clone, PartialEq, Debug)]
pub enum Tok {
    Name(String),
    Number(f64),
    Str(Vec<u8>),
    /// `` `abc` `` without any hole
    InterpSimple(Vec<u8>),
    /// `` `abc{ ``
    InterpBegin(Vec<u8>),
    /// `` }abc{ ``
    InterpMid(Vec<u8>),
    /// `` }abc` ``
    InterpEnd(Vec<u8>),
    Sym(&'static str),
    Eof,
}

#[derive(Clone, Debug)]
pub struct Token {
    pub tok: Tok,
    pub start: usize,
    pub end: usize,
    /// 1-based line of the first byte (only `\n` counts)
    pub line: u32,
}

#[derive(Clone, Debug, PartialEq)]
pub struct Comment {
    pub start: usize,
    pub end: usize,
    pub line: u32,
    /// raw text including the leading `--`
    pub text: String,
    pub long: bool,
}

#[derive(Clone, Debug)]
pub struct LexError {
    pub pos: usize,
    pub msg: String,
}

impl fmt::Display for LexError {
    fn fmt(&self, f: &mut fmt::Formatter<'_>) -> fmt::Result {
        write!(f, "lex error at byte {}: {}", self.pos, self.msg)
    }
}

#[derive(Clone, Debug)]
pub struct Lexed {
    pub tokens: Vec<Token>,
    pub comments: Vec<Comment>,
}

pub const KEYWORDS: &[&str] = &[
    "and", "break", "do", "else", "elseif", "end", "false", "for", "function", "if", "in",
    "local", "nil", "not", "or", "repeat", "return", "then", "true", "until", "while",
];

pub fn is_keyword(s: &str) -> bool {
    KEYWORDS.contains(&s)
}

const SYMBOLS: &[&str] = &[
    "...", "..=", "//=", "::", "->", "==", "~=", "<=", ">=", "..", "//", "+=", "-=", "*=", "/=",
    "%=", "^=", "+", "-", "*", "/", "%", "^", "#", "<", ">", "=", "(", ")", "{", "}", "[", "]",
    ";", ":", ",", ".", "?", "|", "&", "@",
];

const LUAU_ONLY_SYMBOLS: &[&str] = &[
    "..=", "//=", "::", "->", "//", "+=", "-=", "*=", "/=", "%=", "^=", "?", "|", "&", "@",
];

struct Lx<'a> {
    s: &'a [u8],
    i: usize,
    line: u32,
    mode: Mode,
    /// stack of brace depths; each entry is the count of open `{` inside an interpolation hole
    interp: Vec<u32>,
    tokens: Vec<Token>,
    comments: Vec<Comment>,
}

fn is_name_start(c: u8) -> bool {
    c.is_ascii_alphabetic() || c == b'_'
}
fn is_name_char(c: u8) -> bool {
    c.is_ascii_alphanumeric() || c == b'_'
}

pub fn is_space(c: u8) -> bool {
    matches!(c, b' ' | b'\t' | b'\n' | b'\r' | 0x0b | 0x0c)
}

impl<'a> Lx<'a> {
    fn err<T>(&self, pos: usize, msg: impl Into<String>) -> Result<T, LexError> {
        Err(LexError {
            pos,
            msg: msg.into(),
        })
    }
    fn peek(&self, k: usize) -> u8 {
        *self.s.get(self.i + k).unwrap_or(&0)
    }
    fn at_end(&self) -> bool {
        self.i >= self.s.len()
    }
    fn bump(&mut self) -> u8 {
        let c = self.s[self.i];
        if c == b'\n' {
            self.line += 1;
        }
        self.i += 1;
        c
    }

    /// if at `[=*[` returns the level
    fn long_bracket_level(&self, at: usize) -> Option<usize> {
        if self.s.get(at) != Some(&b'[') {
            return None;
        }
        let mut j = at + 1;
        let mut level = 0;
        while self.s.get(j) == Some(&b'=') {
            level += 1;
            j += 1;
        }
        if self.s.get(j) == Some(&b'[') {
            Some(level)
        } else {
            None
        }
    }

    /// reads a long bracket body starting at `[`; returns raw content bytes (before newline rules)
    fn read_long(&mut self, level: usize) -> Result<Vec<u8>, LexError> {
        let start = self.i;
        self.i += level + 2;
        let mut out = Vec::new();
        loop {
            if self.at_end() {
                return self.err(start, "unfinished long bracket");
            }
            let c = self.peek(0);
            // stock Lua 5.1 (LUA_COMPAT_LSTR, on by default) refuses another `[[` inside a level-0 long bracket
            if c == b'[' && level == 0 && self.mode == Mode::Lua51 && self.s.get(self.i + 1) == Some(&b'[') {
                return self.err(self.i, "nesting of [[...]] is deprecated");
            }
            if c == b']' {
                let mut j = self.i + 1;
                let mut l = 0;
                while self.s.get(j) == Some(&b'=') {
                    l += 1;
                    j += 1;
                }
                if l == level && self.s.get(j) == Some(&b']') {
                    self.i = j + 1;
                    return Ok(out);
                }
            }
            out.push(self.bump());
        }
    }

    fn long_string_value(&self, raw: Vec<u8>) -> Vec<u8> {
        // newline handling differs: Lua 5.1 normalises every newline sequence (\n, \r, \r\n, \n\r) to \n
        // and skips the first one; Luau skips a leading \r\n or \n and converts \r\n to \n.
        let mut out = Vec::with_capacity(raw.len());
        let mut i = 0;
        match self.mode {
            Mode::Lua51 => {
                let mut first = true;
                while i < raw.len() {
                    let c = raw[i];
                    if c == b'\n' || c == b'\r' {
                        let n = raw.get(i + 1).copied();
                        if (n == Some(b'\n') || n == Some(b'\r')) && n != Some(c) {
                            i += 2;
                        } else {
                            i += 1;
                        }
                        if !(first && out.is_empty()) {
                            out.push(b'\n');
                        }
                        first = false;
                        continue;
                    }
                    first = false;
                    out.push(c);
                    i += 1;
                }
            }
            Mode::Luau => {
                if raw.starts_with(b"\r\n") {
                    i = 2;
                } else if raw.starts_with(b"\n") {
                    i = 1;
                }
                while i < raw.len() {
                    if raw[i] == b'\r' && raw.get(i + 1) == Some(&b'\n') {
                        out.push(b'\n');
                        i += 2;
                    } else {
                        out.push(raw[i]);
                        i += 1;
                    }
                }
            }
        }
        out
    }

    /// reads escape after the backslash has been consumed; pushes decoded bytes
    fn read_escape(&mut self, out: &mut Vec<u8>, in_interp: bool) -> Result<(), LexError> {
        let pos = self.i;
        if self.at_end() {
            return self.err(pos, "unfinished string");
        }
        let c = self.bump();
        match c {
            b'a' => out.push(7),
            b'b' => out.push(8),
            b'f' => out.push(12),
            b'n' => out.push(b'\n'),
            b'r' => out.push(b'\r'),
            b't' => out.push(b'\t'),
            b'v' => out.push(11),
            b'\n' => {
                out.push(b'\n');
                if self.mode == Mode::Lua51 && self.peek(0) == b'\r' {
                    self.i += 1;
                }
            }
            b'\r' => {
                out.push(b'\n');
                if self.peek(0) == b'\n' {
                    self.bump();
                }
            }
            b'0'..=b'9' => {
                let mut v = (c - b'0') as u32;
                let mut n = 1;
                while n < 3 && self.peek(0).is_ascii_digit() && !self.at_end() {
                    v = v * 10 + (self.bump() - b'0') as u32;
                    n += 1;
                }
                if v > 255 {
                    return self.err(pos, "decimal escape too large");
                }
                out.push(v as u8);
            }
            b'x' if self.mode == Mode::Luau => {
                let mut v = 0u32;
                for _ in 0..2 {
                    let h = self.peek(0);
                    if self.at_end() || !h.is_ascii_hexdigit() {
                        return self.err(pos, "malformed \\x escape");
                    }
                    v = v * 16 + (h as char).to_digit(16).unwrap();
                    self.i += 1;
                }
                out.push(v as u8);
            }
            b'z' if self.mode == Mode::Luau => {
                while !self.at_end() && is_space(self.peek(0)) {
                    self.bump();
                }
            }
            b'u' if self.mode == Mode::Luau => {
                if self.peek(0) != b'{' {
                    return self.err(pos, "malformed \\u escape");
                }
                self.i += 1;
                let mut v: u32 = 0;
                let mut n = 0;
                loop {
                    let h = self.peek(0);
                    if self.at_end() {
                        return self.err(pos, "malformed \\u escape");
                    }
                    if h == b'}' {
                        self.i += 1;
                        break;
                    }
                    if !h.is_ascii_hexdigit() {
                        return self.err(pos, "malformed \\u escape");
                    }
                    v = v.checked_mul(16).unwrap_or(u32::MAX);
                    v = v.saturating_add((h as char).to_digit(16).unwrap());
                    if v > 0x10FFFF {
                        return self.err(pos, "\\u escape out of range");
                    }
                    n += 1;
                    self.i += 1;
                }
                if n == 0 {
                    return self.err(pos, "malformed \\u escape");
                }
                // UTF-8 encode (surrogates are encoded as-is, like Luau does)
                if v < 0x80 {
                    out.push(v as u8);
                } else if v < 0x800 {
                    out.push(0xC0 | (v >> 6) as u8);
                    out.push(0x80 | (v & 0x3F) as u8);
                } else if v < 0x10000 {
                    out.push(0xE0 | (v >> 12) as u8);
                    out.push(0x80 | ((v >> 6) & 0x3F) as u8);
                    out.push(0x80 | (v & 0x3F) as u8);
                } else {
                    out.push(0xF0 | (v >> 18) as u8);
                    out.push(0x80 | ((v >> 12) & 0x3F) as u8);
                    out.push(0x80 | ((v >> 6) & 0x3F) as u8);
                    out.push(0x80 | (v & 0x3F) as u8);
                }
            }
            b'x' | b'z' | b'u' => {
                // Lua 5.1 reads an unknown escape as the character itself, but a program relying on that
                // means something else in Luau: strict mode reports it.
                return self.err(pos, "escape not available in Lua 5.1");
            }
            other => {
                let _ = in_interp;
                out.push(other)
            }
        }
        Ok(())
    }

    fn read_quoted(&mut self, quote: u8) -> Result<Vec<u8>, LexError> {
        let start = self.i;
        self.i += 1;
        let mut out = Vec::new();
        loop {
            if self.at_end() {
                return self.err(start, "unfinished string");
            }
            let c = self.peek(0);
            if c == quote {
                self.i += 1;
                return Ok(out);
            }
            match c {
                b'\n' | b'\r' => return self.err(self.i, "unfinished string (newline)"),
                b'\\' => {
                    self.i += 1;
                    self.read_escape(&mut out, false)?;
                }
                _ => {
                    out.push(c);
                    self.i += 1;
                }
            }
        }
    }

    /// reads an interpolated string segment; cursor is just after the opening backtick or closing brace.
    /// Returns (bytes, ended_with_backtick)
    fn read_interp_segment(&mut self, start: usize) -> Result<(Vec<u8>, bool), LexError> {
        let mut out = Vec::new();
        loop {
            if self.at_end() {
                return self.err(start, "unfinished interpolated string");
            }
            let c = self.peek(0);
            match c {
                b'`' => {
                    self.i += 1;
                    return Ok((out, true));
                }
                b'{' => {
                    if self.peek(1) == b'{' {
                        return self.err(self.i, "double braces in interpolated string");
                    }
                    self.i += 1;
                    return Ok((out, false));
                }
                b'\n' | b'\r' => return self.err(self.i, "unfinished interpolated string (newline)"),
                b'\\' => {
                    self.i += 1;
                    self.read_escape(&mut out, true)?;
                }
                _ => {
                    out.push(c);
                    self.i += 1;
                }
            }
        }
    }

    fn read_number(&mut self) -> Result<f64, LexError> {
        let start = self.i;
        match self.mode {
            Mode::Luau => {
                // Luau: consume [0-9._]*, then an exponent sign pair, then alphanumerics; validate afterwards
                let c0 = self.peek(0);
                let c1 = self.peek(1);
                let based = c0 == b'0' && matches!(c1, b'x' | b'X' | b'b' | b'B');
                if based {
                    self.i += 2;
                }
                while !self.at_end() && (self.peek(0).is_ascii_digit() || self.peek(0) == b'.' || self.peek(0) == b'_') {
                    self.i += 1;
                }
                if !based && matches!(self.peek(0), b'e' | b'E') && !self.at_end() {
                    self.i += 1;
                    if matches!(self.peek(0), b'+' | b'-') {
                        self.i += 1;
                    }
                }
                while !self.at_end() && (is_name_char(self.peek(0))) {
                    self.i += 1;
                }
                let text: String = std::str::from_utf8(&self.s[start..self.i])
                    .unwrap()
                    .chars()
                    .filter(|c| *c != '_')
                    .collect();
                parse_luau_number(&text).ok_or_else(|| LexError {
                    pos: start,
                    msg: format!("malformed number `{}`", text),
                })
            }
            Mode::Lua51 => {
                // Lua 5.1 read_numeral: digits and '.', then optional exponent with sign, then alnum/_ ; then strtod / strtoul(16)
                while !self.at_end() && (self.peek(0).is_ascii_digit() || self.peek(0) == b'.') {
                    self.i += 1;
                }
                if matches!(self.peek(0), b'e' | b'E') && !self.at_end() {
                    self.i += 1;
                    if matches!(self.peek(0), b'+' | b'-') {
                        self.i += 1;
                    }
                }
                while !self.at_end() && is_name_char(self.peek(0)) {
                    self.i += 1;
                }
                let text = std::str::from_utf8(&self.s[start..self.i]).unwrap();
                parse_lua51_number(text).ok_or_else(|| LexError {
                    pos: start,
                    msg: format!("malformed number `{}`", text),
                })
            }
        }
    }

    fn push(&mut self, tok: Tok, start: usize, line: u32) {
        self.tokens.push(Token {
            tok,
            start,
            end: self.i,
            line,
        });
    }

    fn run(&mut self) -> Result<(), LexError> {
        // shebang
        if self.s.starts_with(b"#!") {
            while !self.at_end() && self.peek(0) != b'\n' {
                self.i += 1;
            }
        }
        loop {
            // skip whitespace
            while !self.at_end() && is_space(self.peek(0)) {
                self.bump();
            }
            if self.at_end() {
                let line = self.line;
                let start = self.i;
                if !self.interp.is_empty() {
                    return self.err(start, "unfinished interpolated string");
                }
                self.push(Tok::Eof, start, line);
                return Ok(());
            }
            let start = self.i;
            let line = self.line;
            let c = self.peek(0);
            // comments
            if c == b'-' && self.peek(1) == b'-' {
                self.i += 2;
                if let Some(level) = self.long_bracket_level(self.i) {
                    self.read_long(level)?;
                    let text = String::from_utf8_lossy(&self.s[start..self.i]).into_owned();
                    self.comments.push(Comment {
                        start,
                        end: self.i,
                        line,
                        text,
                        long: true,
                    });
                } else {
                    // both dialects end a line comment at a carriage return as well as at a line feed (Lua 5.1 llex.c:
                    // `while (!currIsNewline(ls))`; Luau Lexer.cpp readCommentBody: `peekch() != '\r' && !isNewline(peekch())`)
                    while !self.at_end() && self.peek(0) != b'\n' && self.peek(0) != b'\r' {
                        self.i += 1;
                    }
                    let mut end = self.i;
                    if end > start && self.s[end - 1] == b'\r' && self.peek(0) == b'\n' {
                        end -= 1;
                    }
                    let text = String::from_utf8_lossy(&self.s[start..end]).into_owned();
                    self.comments.push(Comment {
                        start,
                        end,
                        line,
                        text,
                        long: false,
                    });
                }
                continue;
            }
            if is_name_start(c) {
                while !self.at_end() && is_name_char(self.peek(0)) {
                    self.i += 1;
                }
                let name = std::str::from_utf8(&self.s[start..self.i]).unwrap().to_owned();
                self.push(Tok::Name(name), start, line);
                continue;
            }
            if c.is_ascii_digit() || (c == b'.' && self.peek(1).is_ascii_digit()) {
                let v = self.read_number()?;
                self.push(Tok::Number(v), start, line);
                continue;
            }
            if c == b'"' || c == b'\'' {
                let v = self.read_quoted(c)?;
                self.push(Tok::Str(v), start, line);
                continue;
            }
            if c == b'`' {
                if self.mode == Mode::Lua51 {
                    return self.err(start, "interpolated string in Lua 5.1");
                }
                self.i += 1;
                let (bytes, ended) = self.read_interp_segment(start)?;
                if ended {
                    self.push(Tok::InterpSimple(bytes), start, line);
                } else {
                    self.interp.push(0);
                    self.push(Tok::InterpBegin(bytes), start, line);
                }
                continue;
            }
            if c == b'[' {
                if let Some(level) = self.long_bracket_level(self.i) {
                    let raw = self.read_long(level)?;
                    let v = self.long_string_value(raw);
                    self.push(Tok::Str(v), start, line);
                    continue;
                }
            }
            if c == b'{' {
                if let Some(d) = self.interp.last_mut() {
                    *d += 1;
                }
            }
            if c == b'}' {
                if let Some(d) = self.interp.last_mut() {
                    if *d == 0 {
                        // end of hole
                        self.interp.pop();
                        self.i += 1;
                        let (bytes, ended) = self.read_interp_segment(start)?;
                        if ended {
                            self.push(Tok::InterpEnd(bytes), start, line);
                        } else {
                            self.interp.push(0);
                            self.push(Tok::InterpMid(bytes), start, line);
                        }
                        continue;
                    } else {
                        *d -= 1;
                    }
                }
            }
            let mut matched = None;
            for sym in SYMBOLS {
                if self.s[self.i..].starts_with(sym.as_bytes()) {
                    matched = Some(*sym);
                    break;
                }
            }
            match matched {
                Some(sym) => {
                    if self.mode == Mode::Lua51 && LUAU_ONLY_SYMBOLS.contains(&sym) {
                        return self.err(start, format!("symbol `{}` is not Lua 5.1", sym));
                    }
                    self.i += sym.len();
                    self.push(Tok::Sym(sym), start, line);
                }
                None => {
                    return self.err(start, format!("unexpected byte 0x{:02x}", c));
                }
            }
        }
    }
}

/// value of a Luau number literal with underscores already removed
pub fn parse_luau_number(text: &str) -> Option<f64> {
    let b = text.as_bytes();
    if b.len() >= 2 && b[0] == b'0' && (b[1] == b'x' || b[1] == b'X') {
        let digits = &text[2..];
        if digits.is_empty() || !digits.bytes().all(|c| c.is_ascii_hexdigit()) {
            return None;
        }
        return parse_big_radix(digits, 16);
    }
    if b.len() >= 2 && b[0] == b'0' && (b[1] == b'b' || b[1] == b'B') {
        let digits = &text[2..];
        if digits.is_empty() || !digits.bytes().all(|c| c == b'0' || c == b'1') {
            return None;
        }
        return parse_big_radix(digits, 2);
    }
    parse_decimal(text)
}

/// integers in a radix: Luau rejects values >= 2^64; smaller values convert to the nearest double
fn parse_big_radix(digits: &str, radix: u32) -> Option<f64> {
    let mut v: u128 = 0;
    for c in digits.chars() {
        v = v.checked_mul(radix as u128)?;
        v = v.checked_add(c.to_digit(radix)? as u128)?;
        if v > u64::MAX as u128 {
            return None;
        }
    }
    Some(v as u64 as f64)
}

fn parse_decimal(text: &str) -> Option<f64> {
    // [digits][.digits][(e|E)[+-]digits] with at least one digit in the mantissa
    let b = text.as_bytes();
    let mut i = 0;
    let mut mant = 0;
    while i < b.len() && b[i].is_ascii_digit() {
        i += 1;
        mant += 1;
    }
    if i < b.len() && b[i] == b'.' {
        i += 1;
        while i < b.len() && b[i].is_ascii_digit() {
            i += 1;
            mant += 1;
        }
    }
    if mant == 0 {
        return None;
    }
    if i < b.len() && (b[i] == b'e' || b[i] == b'E') {
        i += 1;
        if i < b.len() && (b[i] == b'+' || b[i] == b'-') {
            i += 1;
        }
        let mut e = 0;
        while i < b.len() && b[i].is_ascii_digit() {
            i += 1;
            e += 1;
        }
        if e == 0 {
            return None;
        }
    }
    if i != b.len() {
        return None;
    }
    // Rust's parser accepts "1." and ".5" and is correctly rounded
    let mut norm = text.to_owned();
    if norm.starts_with('.') {
        norm.insert(0, '0');
    }
    norm.parse::<f64>().ok()
}

pub fn parse_lua51_number(text: &str) -> Option<f64> {
    let b = text.as_bytes();
    if b.len() >= 2 && b[0] == b'0' && (b[1] == b'x' || b[1] == b'X') {
        let digits = &text[2..];
        if digits.is_empty() || !digits.bytes().all(|c| c.is_ascii_hexdigit()) {
            return None;
        }
        return parse_big_radix(digits, 16);
    }
    parse_decimal(text)
}

pub fn lex(src: &[u8], mode: Mode) -> Result<Lexed, LexError> {
    let mut lx = Lx {
        s: src,
        i: 0,
        line: 1,
        mode,
        interp: Vec::new(),
        tokens: Vec::new(),
        comments: Vec::new(),
    };
    lx.run()?;
    Ok(Lexed {
        tokens: lx.tokens,
        comments: lx.comments,
    })
}
