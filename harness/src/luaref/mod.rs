//! `luaref`: an independent reference implementation of Lua 5.1 / Luau syntax and semantics.
pub mod ast;
pub mod interp;
pub mod lexer;
pub mod parser;
pub mod resolve;
pub mod validate;
pub mod value;
pub mod vectors;
pub mod walk;

pub use lexer::Mode;

use interp::{Interp, Stop};

#[derive(Clone, Debug, PartialEq, Eq, Hash)]
pub enum Outcome {
    Returned(String),
    Error(String),
    NoTermination,
    Poison(String),
    ParseError(String),
}

#[derive(Clone, Debug, PartialEq, Eq, Hash)]
pub struct Observation {
    pub outcome: Outcome,
    pub log: Vec<String>,
    pub fuel_used: i64,
}

impl Observation {
    /// the run completed normally (precondition of the behavioural properties)
    pub fn is_ok(&self) -> bool {
        matches!(self.outcome, Outcome::Returned(_))
    }
    pub fn same_behaviour(&self, other: &Observation) -> bool {
        if self.outcome == Outcome::NoTermination && other.outcome == Outcome::NoTermination {
            // two diverging runs are cut at different points: their logs must agree on the common prefix
            let n = self.log.len().min(other.log.len());
            return self.log[..n] == other.log[..n];
        }
        self.outcome == other.outcome && self.log == other.log
    }
    pub fn render(&self) -> String {
        if self.log.len() > 16 {
            format!("{:?} log={:?} ... ({} more entries)", self.outcome, &self.log[..16], self.log.len() - 16)
        } else {
            format!("{:?} log={:?}", self.outcome, self.log)
        }
    }
}

pub const DEFAULT_FUEL: i64 = 20_000;

/// run a program text and observe it
pub fn observe(src: &str, mode: Mode, fuel: i64, setup: &dyn Fn(&mut Interp)) -> Observation {
    let parsed = match parser::parse(src.as_bytes(), mode) {
        Ok(p) => p,
        Err(e) => {
            return Observation {
                outcome: Outcome::ParseError(e.to_string()),
                log: vec![],
                fuel_used: 0,
            }
        }
    };
    observe_block(&parsed.block, mode, fuel, setup)
}

pub fn observe_block(block: &ast::Block, mode: Mode, fuel: i64, setup: &dyn Fn(&mut Interp)) -> Observation {
    let mut it = Interp::new(mode);
    it.fuel = fuel;
    setup(&mut it);
    let r = it.run_chunk(block, "main");
    let outcome = match r {
        Ok(vals) => Outcome::Returned(vals.iter().map(|v| it.serialize(v)).collect::<Vec<_>>().join(", ")),
        Err(Stop::Error(v)) => Outcome::Error(it.serialize(&v)),
        Err(Stop::Fuel) => Outcome::NoTermination,
        Err(Stop::Poison(m)) => Outcome::Poison(m),
    };
    Observation {
        outcome,
        log: std::mem::take(&mut it.log),
        fuel_used: fuel - it.fuel,
    }
}

/// pure-Lua definition of the harness externals, so that a violation can be confirmed with a real interpreter:
/// `lua -e "dofile('prelude.lua')" orig.lua` vs `out.lua`
pub const PRELUDE_LUA: &str = r##"-- externals used by the verification harness (Lua 5.1 / Luau)
local function ser(v, seen)
  local t = type(v)
  if t == "string" then return string.format("%q", v)
  elseif t == "table" then
    if rawget(v, "__tag") then return "<ET:" .. rawget(v, "__tag") .. ">" end
    seen = seen or {}
    if seen[v] then return "#" .. seen[v] end
    seen.n = (seen.n or 0) + 1; seen[v] = seen.n
    local parts = {}
    for k, x in pairs(v) do parts[#parts + 1] = "[" .. ser(k, seen) .. "]=" .. ser(x, seen) end
    table.sort(parts)
    return "{" .. table.concat(parts, ",") .. "}"
  elseif t == "function" then return "<fn>"
  else return tostring(v) end
end
local function log(name, ...)
  local parts = {}
  for i = 1, select("#", ...) do parts[i] = ser((select(i, ...))) end
  io.write(name, "(", table.concat(parts, ", "), ")\n")
end
function E1(...) log("E1", ...) return 1, 2 end
function E0(...) log("E0", ...) end
function EF(...) log("EF", ...) return false, "x" end
function EN(...) log("EN", ...) return nil end
function EI(...) log("EI", ...) return ... end
EG = 42
local mt = {}
local rets = {__index = {7}, __newindex = {}, __call = {1, 2}, __add = {11}, __sub = {12}, __mul = {13}, __div = {14},
  __mod = {15}, __pow = {16}, __idiv = {17}, __unm = {21}, __concat = {"cc"}, __eq = {true}, __lt = {true}, __le = {false}, __tostring = {"ET"}}
for name, r in pairs(rets) do
  mt[name] = function(...) log("mm:" .. name, ...) return unpack(r) end
end
function ET(tag) log("ET", tag) return setmetatable({__tag = tag}, mt) end
-- run a chunk and print its results: lua prelude.lua file.lua
if arg and arg[1] then
  local f = assert(loadfile(arg[1]))
  print("returned:", (function(...) local p = {} for i = 1, select("#", ...) do p[i] = ser((select(i, ...))) end return table.concat(p, ", ") end)(f()))
end
"##;
