//! `luaref`: an independent reference implementation of Lua 5.1 / Luau syntax and semantics.
pub mod ast;
pub mod interp;
pub mod lexer;
pub mod parser;
pub mod resolve;
pub mod value;
pub mod vectors;

pub use lexer::Mode;

use interp::{Interp, Stop};

#[derive(Clone, Debug, PartialEq, Eq, Hash)]
pub enum Outcome {
    Returned(String),
    Error(String),
    NoTermination,
    Poison(String),
    ParseError(String),
}

#[derive(Clone, Debug, PartialEq, Eq, Hash)]
pub struct Observation {
    pub outcome: Outcome,
    pub log: Vec<String>,
    pub fuel_used: i64,
}

impl Observation {
    /// the run completed normally (precondition of the behavioural properties)
    pub fn is_ok(&self) -> bool {
        matches!(self.outcome, Outcome::Returned(_))
    }
    pub fn same_behaviour(&self, other: &Observation) -> bool {
        self.outcome == other.outcome && self.log == other.log
    }
    pub fn render(&self) -> String {
        format!("{:?} log={:?}", self.outcome, self.log)
    }
}

pub const DEFAULT_FUEL: i64 = 20_000;

/// run a program text and observe it
pub fn observe(src: &str, mode: Mode, fuel: i64, setup: &dyn Fn(&mut Interp)) -> Observation {
    let parsed = match parser::parse(src.as_bytes(), mode) {
        Ok(p) => p,
        Err(e) => {
            return Observation {
                outcome: Outcome::ParseError(e.to_string()),
                log: vec![],
                fuel_used: 0,
            }
        }
    };
    observe_block(&parsed.block, mode, fuel, setup)
}

pub fn observe_block(block: &ast::Block, mode: Mode, fuel: i64, setup: &dyn Fn(&mut Interp)) -> Observation {
    let mut it = Interp::new(mode);
    it.fuel = fuel;
    setup(&mut it);
    let r = it.run_chunk(block, "main");
    let outcome = match r {
        Ok(vals) => Outcome::Returned(vals.iter().map(|v| it.serialize(v)).collect::<Vec<_>>().join(", ")),
        Err(Stop::Error(v)) => Outcome::Error(it.serialize(&v)),
        Err(Stop::Fuel) => Outcome::NoTermination,
        Err(Stop::Poison(m)) => Outcome::Poison(m),
    };
    Observation {
        outcome,
        log: std::mem::take(&mut it.log),
        fuel_used: fuel - it.fuel,
    }
}
