//! Compile-time rules that are not grammar: a `const` binding cannot be assigned (Luau).
use super::ast::*;

struct V {
    scopes: Vec<Vec<(String, bool)>>,
    error: Option<String>,
}

impl V {
    fn declare(&mut self, name: &str, is_const: bool) {
        self.scopes.last_mut().unwrap().push((name.to_owned(), is_const));
    }
    fn is_const(&self, name: &str) -> bool {
        for scope in self.scopes.iter().rev() {
            for (n, c) in scope.iter().rev() {
                if n == name {
                    return *c;
                }
            }
        }
        false
    }
    fn assign(&mut self, target: &Expr) {
        if let Expr::Name(n, _) = target {
            if self.is_const(n) && self.error.is_none() {
                self.error = Some(format!("assignment to the const variable `{}`", n));
            }
        }
    }
    fn block(&mut self, b: &Block) {
        self.scopes.push(Vec::new());
        self.stats(b);
        self.scopes.pop();
    }
    fn stats(&mut self, b: &Block) {
        for s in &b.stats {
            self.stat(&s.stat);
        }
    }
    fn func(&mut self, f: &FuncBody) {
        self.scopes.push(Vec::new());
        for p in &f.params {
            self.declare(&p.name, false);
        }
        self.block(&f.body);
        self.scopes.pop();
    }
    fn stat(&mut self, s: &Stat) {
        match s {
            Stat::Local { names, exprs, is_const } => {
                for e in exprs {
                    self.expr(e);
                }
                for n in names {
                    self.declare(&n.name, *is_const);
                }
            }
            Stat::Assign { targets, exprs } => {
                for t in targets {
                    self.assign(t);
                    self.expr(t);
                }
                for e in exprs {
                    self.expr(e);
                }
            }
            Stat::CompoundAssign { target, expr, .. } => {
                self.assign(target);
                self.expr(target);
                self.expr(expr);
            }
            Stat::Call(e) => self.expr(e),
            Stat::Do(b) => self.block(b),
            Stat::While(c, b) => {
                self.expr(c);
                self.block(b);
            }
            Stat::Repeat(b, c) => {
                self.scopes.push(Vec::new());
                self.stats(b);
                self.expr(c);
                self.scopes.pop();
            }
            Stat::If(branches, else_b) => {
                for (c, b) in branches {
                    self.expr(c);
                    self.block(b);
                }
                if let Some(b) = else_b {
                    self.block(b);
                }
            }
            Stat::NumFor { var, start, end, step, body } => {
                self.expr(start);
                self.expr(end);
                if let Some(s) = step {
                    self.expr(s);
                }
                self.scopes.push(Vec::new());
                self.declare(&var.name, false);
                self.block(body);
                self.scopes.pop();
            }
            Stat::GenFor { names, exprs, body } => {
                for e in exprs {
                    self.expr(e);
                }
                self.scopes.push(Vec::new());
                for n in names {
                    self.declare(&n.name, false);
                }
                self.block(body);
                self.scopes.pop();
            }
            Stat::Function { name, body } => {
                if name.fields.is_empty() && name.method.is_none() {
                    self.assign(&Expr::Name(name.base.clone(), 0));
                }
                self.func(body);
            }
            Stat::LocalFunction { name, body, is_const, .. } => {
                self.declare(name, *is_const);
                self.func(body);
            }
            Stat::Return(exprs) => {
                for e in exprs {
                    self.expr(e);
                }
            }
            Stat::Break | Stat::Continue | Stat::TypeDecl { .. } | Stat::TypeFunction { .. } => {}
        }
    }
    fn expr(&mut self, e: &Expr) {
        match e {
            Expr::Function(f) => self.func(f),
            Expr::Index(a, b) | Expr::Binary(_, a, b) => {
                self.expr(a);
                self.expr(b);
            }
            Expr::Field(a, _) | Expr::Unary(_, a) | Expr::Paren(a) | Expr::Cast(a, _) | Expr::Instantiate(a, _) => self.expr(a),
            Expr::Call(f, args, _) => {
                self.expr(f);
                for a in args {
                    self.expr(a);
                }
            }
            Expr::MethodCall(o, _, args, _, _) => {
                self.expr(o);
                for a in args {
                    self.expr(a);
                }
            }
            Expr::Table(items) => {
                for it in items {
                    match it {
                        TableItem::Pos(v) | TableItem::Named(_, v) => self.expr(v),
                        TableItem::Keyed(k, v) => {
                            self.expr(k);
                            self.expr(v);
                        }
                    }
                }
            }
            Expr::IfExpr(branches, else_e) => {
                for (c, v) in branches {
                    self.expr(c);
                    self.expr(v);
                }
                self.expr(else_e);
            }
            Expr::Interp(parts) => {
                for p in parts {
                    if let InterpPart::Expr(x) = p {
                        self.expr(x);
                    }
                }
            }
            _ => {}
        }
    }
}

/// Some(message) when the program breaks a compile-time rule
pub fn validate(block: &Block) -> Option<String> {
    let mut v = V { scopes: Vec::new(), error: None };
    v.block(block);
    v.error
}
