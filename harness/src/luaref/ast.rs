//! AST of the reference implementation.
use std::rc::Rc;

#[derive(Clone, Copy, PartialEq, Eq, Debug, Hash)]
pub enum BinOp {
    Add,
    Sub,
    Mul,
    Div,
    IDiv,
    Mod,
    Pow,
    Concat,
    Eq,
    Ne,
    Lt,
    Le,
    Gt,
    Ge,
    And,
    Or,
}

impl BinOp {
    pub fn symbol(self) -> &'static str {
        match self {
            BinOp::Add => "+",
            BinOp::Sub => "-",
            BinOp::Mul => "*",
            BinOp::Div => "/",
            BinOp::IDiv => "//",
            BinOp::Mod => "%",
            BinOp::Pow => "^",
            BinOp::Concat => "..",
            BinOp::Eq => "==",
            BinOp::Ne => "~=",
            BinOp::Lt => "<",
            BinOp::Le => "<=",
            BinOp::Gt => ">",
            BinOp::Ge => ">=",
            BinOp::And => "and",
            BinOp::Or => "or",
        }
    }
}

#[derive(Clone, Copy, PartialEq, Eq, Debug, Hash)]
pub enum UnOp {
    Neg,
    Not,
    Len,
}

#[derive(Clone, Debug, PartialEq)]
pub enum InterpPart {
    Str(Vec<u8>),
    Expr(Expr),
}

#[derive(Clone, Debug, PartialEq)]
pub enum TableItem {
    /// positional
    Pos(Expr),
    /// `name = e`
    Named(String, Expr),
    /// `[k] = e`
    Keyed(Expr, Expr),
}

#[derive(Clone, Debug, PartialEq)]
pub enum CallArgsKind {
    Paren,
    String,
    Table,
}

#[derive(Clone, Debug, PartialEq)]
pub enum Expr {
    Nil,
    True,
    False,
    Number(f64),
    Str(Vec<u8>),
    Vararg,
    Function(Rc<FuncBody>),
    /// name, byte position of the token
    Name(String, usize),
    /// `a[e]`
    Index(Box<Expr>, Box<Expr>),
    /// `a.k`
    Field(Box<Expr>, String),
    Call(Box<Expr>, Vec<Expr>, CallArgsKind),
    /// `o:m<<T>>(args)`: the optional explicit type instantiation is the last field
    MethodCall(Box<Expr>, String, Vec<Expr>, CallArgsKind, Option<Vec<Type>>),
    Binary(BinOp, Box<Expr>, Box<Expr>),
    Unary(UnOp, Box<Expr>),
    Paren(Box<Expr>),
    Table(Vec<TableItem>),
    IfExpr(Vec<(Expr, Expr)>, Box<Expr>),
    Interp(Vec<InterpPart>),
    Cast(Box<Expr>, Box<Type>),
    Instantiate(Box<Expr>, Vec<Type>),
}

#[derive(Clone, Debug, PartialEq)]
pub struct TypedName {
    pub name: String,
    pub pos: usize,
    pub ty: Option<Type>,
}

#[derive(Clone, Debug, PartialEq)]
pub struct GenericParam {
    pub name: String,
    pub pack: bool,
    pub default: Option<Type>,
}

#[derive(Clone, Debug, PartialEq)]
pub struct FuncBody {
    pub generics: Vec<GenericParam>,
    pub params: Vec<TypedName>,
    pub vararg: bool,
    pub vararg_type: Option<Type>,
    pub ret: Option<Type>,
    pub body: Block,
    pub attributes: Vec<String>,
    /// true for `function t:m()`; the interpreter adds the implicit `self`
    pub has_self: bool,
}

#[derive(Clone, Debug, PartialEq)]
pub enum TableTypeEntry {
    Prop {
        access: Option<String>,
        name: String,
        ty: Type,
    },
    StringProp {
        access: Option<String>,
        key: Vec<u8>,
        ty: Type,
    },
    Indexer {
        access: Option<String>,
        key: Type,
        ty: Type,
    },
}

#[derive(Clone, Debug, PartialEq)]
pub enum Type {
    Name {
        ns: Option<String>,
        ns_pos: usize,
        name: String,
        params: Option<Vec<Type>>,
    },
    Typeof(Box<Expr>),
    Nil,
    True,
    False,
    Str(Vec<u8>),
    Table(Vec<TableTypeEntry>),
    Array(Box<Type>, Option<String>),
    Function {
        generics: Vec<GenericParam>,
        params: Vec<(Option<String>, Type)>,
        variadic: Option<Box<Type>>,
        ret: Box<Type>,
    },
    Paren(Box<Type>),
    Optional(Box<Type>),
    Union(Vec<Type>),
    Inter(Vec<Type>),
    /// `(A, B, ...C)` type pack
    Pack(Vec<Type>, Option<Box<Type>>),
    /// `...T`
    Variadic(Box<Type>),
    /// `T...`
    GenericPack(String),
}

#[derive(Clone, Debug, PartialEq)]
pub struct FuncName {
    pub base: String,
    pub base_pos: usize,
    pub fields: Vec<String>,
    pub method: Option<String>,
}

#[derive(Clone, Debug, PartialEq)]
pub enum Stat {
    Local {
        names: Vec<TypedName>,
        exprs: Vec<Expr>,
        is_const: bool,
    },
    Assign {
        targets: Vec<Expr>,
        exprs: Vec<Expr>,
    },
    CompoundAssign {
        op: BinOp,
        target: Expr,
        expr: Expr,
    },
    Call(Expr),
    Do(Block),
    While(Expr, Block),
    Repeat(Block, Expr),
    If(Vec<(Expr, Block)>, Option<Block>),
    NumFor {
        var: TypedName,
        start: Expr,
        end: Expr,
        step: Option<Expr>,
        body: Block,
    },
    GenFor {
        names: Vec<TypedName>,
        exprs: Vec<Expr>,
        body: Block,
    },
    Function {
        name: FuncName,
        body: Rc<FuncBody>,
    },
    LocalFunction {
        name: String,
        pos: usize,
        body: Rc<FuncBody>,
        is_const: bool,
    },
    Return(Vec<Expr>),
    Break,
    Continue,
    TypeDecl {
        exported: bool,
        name: String,
        generics: Vec<GenericParam>,
        ty: Type,
    },
    TypeFunction {
        exported: bool,
        name: String,
        body: Rc<FuncBody>,
    },
}

#[derive(Clone, Debug, PartialEq)]
pub struct StatNode {
    pub stat: Stat,
    pub line: u32,
    pub start: usize,
    pub end: usize,
}

#[derive(Clone, Debug, PartialEq, Default)]
pub struct Block {
    pub stats: Vec<StatNode>,
}

/// counts of Luau-only constructs (for C07)
#[derive(Clone, Debug, Default, PartialEq, Eq)]
pub struct Census {
    pub types: usize,
    pub compound_assign: usize,
    pub continue_stat: usize,
    pub if_expr: usize,
    pub interp_string: usize,
    pub floor_div: usize,
    pub luau_number: usize,
    pub const_decl: usize,
    pub attribute: usize,
}
