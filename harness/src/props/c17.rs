//! C17 — Removal and injection rules change exactly what they name (Engine A with a modified-environment oracle).
use super::behave::{self, Env, FailCtx, Seed, Spec};
use crate::common::{Report, Tier};
use crate::gen::programs::PRELUDE;
use crate::luaref::interp::{ext, Interp};
use crate::luaref::value::{Builtin, ExtRet, Table, Value};
use std::cell::RefCell;
use std::rc::Rc;
use std::sync::Arc;

fn prog(body: &str) -> String {
    format!("{}{}\n", PRELUDE, body)
}

const ARGS: &[&str] = &["m.k, E1(), m.j", "t[EI(1)], EI(2), t[EI(3)]", "{EI(1)}, EI(2), {EI(3)}", "EI(1), m.k, EI(2), m.j", "m.k, m.j", "-m, E1(), m + 1", "", "x", "E1()", "EF()", "t.k", "...", "x, \"msg\"", "E1(), \"msg\"", "x, E1()", "EI(1), EI(2), EI(3)", "m.k", "x == 3, \"m\" .. x", "(E1())", "nil, E1()", "false"];
const PURE_ARGS: &[&str] = &["", "x", "x, \"msg\"", "x == 3", "true, \"a\" .. \"b\"", "...", "nil", "false"];

const CALL_CONTEXTS: &[&str] = &[
    "@\nreturn 1",
    "local v = @\nreturn v",
    "local v, w = @\nreturn v, w",
    "return @",
    "return (@)",
    "return @, 1",
    "E1(@)",
    "E1(@, 2)",
    "if @ then E1(\"t\") else E1(\"f\") end",
    "return {@}",
    "return not @",
    "local r = {}\nr.k = @\nreturn r.k",
    "return (function(...) @ return @ end)(5, 6)",
    "for i = 1, 2 do @ end\nreturn 1",
    "do @ end\nreturn 1",
    "return @ or 7",
    "return EI(@)",
    "return #{@}",
];

fn call_programs(target: &str, args: &[&str]) -> Vec<String> {
    let mut out = Vec::new();
    for a in args {
        let call = format!("{}({})", target, a);
        for c in CALL_CONTEXTS {
            out.push(prog(&c.replace('@', &call)));
        }
    }
    out
}

const TWO_HOLE_CONTEXTS: &[&str] = &[
    "@1\n@2\nreturn 1",
    "return @1, @2",
    "E1(@1, @2)",
    "local v, w = @1, @2\nreturn v, w",
    "return {@1, @2}",
    "if @1 then return @2 end\nreturn 0",
    "return @1 and @2",
    "return @1 or @2",
    "local v = @1\nlocal w = @2\nreturn v, w",
];

/// thorough: two target calls in one program, and target calls nested in the arguments of target calls
fn combined_programs(target: &str, other: &str, args: &[&str]) -> Vec<String> {
    let mut out = Vec::new();
    for a in args {
        for b in args {
            let c1 = format!("{}({})", target, a);
            let c2 = format!("{}({})", other, b);
            for c in TWO_HOLE_CONTEXTS {
                out.push(prog(&c.replace("@1", &c1).replace("@2", &c2)));
            }
            // nested: the inner call is the first, a middle and the last argument
            let inner = c2;
            for outer_args in [format!("{}", inner), format!("{}, \"m\"", inner), format!("x, {}", inner), format!("EI(1), {}, EI(2)", inner)] {
                let call = format!("{}({})", target, outer_args);
                for c in ["@\nreturn 1", "return @", "local v, w = @\nreturn v, w", "E1(@, 2)", "return {@}"] {
                    out.push(prog(&c.replace('@', &call)));
                }
            }
            let _ = a;
        }
    }
    out
}

fn shadow_programs(name: &str, call: &str) -> Vec<String> {
    // `name` is the identifier being shadowed (assert / debug / select / _G / G), `call` a use of the target
    let use_stat = format!("E1({})", call);
    let v = [
        format!("local {n} = EI\n{u}\nreturn 1", n = name, u = use_stat),
        format!("local function f({n}) {u} end\nf(EI)\nreturn 1", n = name, u = use_stat),
        format!("for {n} = 1, 1 do local ok = pcall(function() {u} end) E1(ok) end\nreturn 1", n = name, u = use_stat),
        format!("for _, {n} in ipairs({{EI}}) do local ok = pcall(function() {u} end) E1(ok) end\nreturn 1", n = name, u = use_stat),
        format!("local function {n}(...) E1(\"shadow\", ...) return ... end\n{u}\nreturn 1", n = name, u = use_stat),
        format!("do local {n} = EI {u} end\n{u}\nreturn 1", n = name, u = use_stat),
        format!("{u}\nlocal {n} = EI\n{u}\nreturn 1", n = name, u = use_stat),
        format!("local function f() {u} end\nlocal {n} = EI\nf()\nreturn 1", n = name, u = use_stat),
        format!("local function f() local {n} = EI return function() {u} end end\nf()()\nreturn 1", n = name, u = use_stat),
        format!("if x then local {n} = EI {u} else {u} end\nreturn 1", n = name, u = use_stat),
        format!("repeat local {n} = EI until (function() {u} return true end)()\nreturn 1", n = name, u = use_stat),
        format!("local zz, {n} = (function() return 1, EI end)()\n{u}\nreturn zz", n = name, u = use_stat),
        format!("local zz, yy, {n} = (function() return 1, 2, EI end)()\n{u}\nreturn zz, yy", n = name, u = use_stat),
        format!("local {n}, zz = EI\n{u}\nreturn zz", n = name, u = use_stat),
        format!("local o = {{{n} = EI}}\nE1(o.{n}(1))\nreturn 1", n = name),
        format!("local o = {{{n} = function(self, v) return v end}}\nE1(o:{n}(1))\nreturn 1", n = name),
    ];
    v.iter().map(|p| prog(p)).collect()
}

fn json_to_value(v: &serde_json::Value) -> Value {
    match v {
        serde_json::Value::Null => Value::Nil,
        serde_json::Value::Bool(b) => Value::Bool(*b),
        serde_json::Value::Number(n) => Value::Num(n.as_f64().unwrap()),
        // the numbers JSON5 has and JSON has not, in the model texts of `inject` values
        serde_json::Value::String(s) if s == "$inf" => Value::Num(f64::INFINITY),
        serde_json::Value::String(s) if s == "$-inf" => Value::Num(f64::NEG_INFINITY),
        serde_json::Value::String(s) if s == "$nan" => Value::Num(f64::NAN),
        serde_json::Value::String(s) => Value::str(s),
        serde_json::Value::Array(a) => {
            let t = Rc::new(RefCell::new(Table::default()));
            for (i, x) in a.iter().enumerate() {
                t.borrow_mut().set(Value::Num((i + 1) as f64), json_to_value(x));
            }
            Value::Table(t)
        }
        serde_json::Value::Object(o) => {
            let t = Rc::new(RefCell::new(Table::default()));
            for (k, x) in o.iter() {
                t.borrow_mut().set(Value::str(k), json_to_value(x));
            }
            Value::Table(t)
        }
    }
}

/// bug model "a removed call used as an expression evaluates to exactly one nil, also where the replacement
/// function of the property would produce no value": the seed run with such a function must behave like the output
fn classifier(model_env: Env) -> behave::Classifier {
    Arc::new(move |ctx: &FailCtx| {
        let predicted = crate::luaref::observe(ctx.seed, crate::luaref::Mode::Luau, crate::luaref::DEFAULT_FUEL, &*model_env);
        if predicted.same_behaviour(ctx.actual) {
            return Some("removed-call-yields-one-nil-instead-of-no-value".to_owned());
        }
        super::findings::classify_behaviour("C17", ctx)
    })
}

fn env_model_assert() -> Env {
    Arc::new(|it: &mut Interp| it.set_global("assert", Value::Builtin(Rc::new(Builtin::IdentityOrNil))))
}
fn env_model_profiling() -> Env {
    Arc::new(|it: &mut Interp| {
        let dbg = it.globals.borrow().get_str("debug");
        if let Value::Table(t) = dbg {
            t.borrow_mut().set_str("profilebegin", Value::Builtin(Rc::new(Builtin::ReturnNil)));
            t.borrow_mut().set_str("profileend", Value::Builtin(Rc::new(Builtin::ReturnNil)));
        }
    })
}
fn plain_classifier() -> behave::Classifier {
    Arc::new(|ctx: &FailCtx| super::findings::classify_behaviour("C17", ctx))
}

fn env_assert_identity() -> Env {
    Arc::new(|it: &mut Interp| it.set_global("assert", Value::Builtin(Rc::new(Builtin::Identity))))
}
fn env_assert_logging() -> Env {
    Arc::new(|it: &mut Interp| it.set_global("assert", ext("assert", ExtRet::Args)))
}
fn env_profiling_noop() -> Env {
    Arc::new(|it: &mut Interp| {
        let dbg = it.globals.borrow().get_str("debug");
        if let Value::Table(t) = dbg {
            t.borrow_mut().set_str("profilebegin", Value::Builtin(Rc::new(Builtin::Noop)));
            t.borrow_mut().set_str("profileend", Value::Builtin(Rc::new(Builtin::Noop)));
        }
    })
}

fn mk(seeds: Vec<String>, family: &'static str) -> Vec<Seed> {
    seeds.into_iter().map(|code| Seed { code, family }).collect()
}

pub fn run(tier: Tier) -> Report {
    let mut report = Report::new("C17", "model_checking", tier);
    report.rule = "per rule: seeds = calls of the targeted function with 0-3 arguments (pure, effectful, multi-valued, vararg) in statement \
        and 17 expression contexts, pairs of target calls in 9 two-hole contexts and target calls nested as first / middle / last argument of a target call, and 13 shadowing shapes (local, parameter, numeric/generic loop variable, local function, nested block, \
        declared later, captured, field, method) for assert/debug/select/_G/the injected name; inject_global_value for 8 values of every JSON kind \
        and read forms G, _G.G, _G[\"G\"], G.f, #G, G.. ; BFS of the single-rule graph to closure (idempotence); oracle: observe(output, normal \
        environment where the targets are logging externals) == observe(input, environment where assert returns its arguments / profiling \
        functions do nothing / the global is preset)"
        .to_owned();
    report.assumptions = vec![
        "programs never assign the injected global nor compare or mutate an injected table (identity is outside the rule's contract)".to_owned(),
        "with preserve_arguments_side_effects=false only calls with side-effect-free arguments are judged".to_owned(),
    ];
    let depth = 3;
    // remove_assertions
    let mut specs: Vec<Spec> = Vec::new();
    let mut assert_seeds = mk(call_programs("assert", ARGS), "assert calls");
    assert_seeds.extend(mk(shadow_programs("assert", "assert(x, \"m\")"), "assert shadowing"));
    assert_seeds.extend(mk(shadow_programs("select", "assert(x, \"m\")"), "select shadowing"));
    assert_seeds.extend(mk(shadow_programs("select", "select(1, assert(x, \"m\"))"), "select shadowing"));
    {
        let small: &[&str] = &["", "x", "E1()", "x, \"msg\"", "EF(), E1()", "...", "t.k, EI(2)"];
        assert_seeds.extend(mk(combined_programs("assert", "assert", small), "two assert calls"));
    }
    // functions of the same name that are fields of another table are not the targets
    assert_seeds.extend(mk(
        vec![
            prog("local o = {assert = EI}\no.assert(false, \"m\")\nreturn o.assert(nil, 1), t.assert"),
            prog("local o = {assert = EI}\nreturn o:assert(2), (o).assert(false)"),
        ],
        "same name on another table",
    ));
    // the program's own throw-away name `_` around a removed call whose argument is kept
    assert_seeds.extend(mk(
        vec![
            prog("local _, value = E1(1), E1(2)\nassert(m.k)\nreturn _, value"),
            prog("local _ = E1(1)\nassert(m.k, \"m\")\nE1(_)\nreturn _"),
            prog("for _, v in ipairs({EI(1)}) do assert(m[v]) E1(_, v) end\nreturn 1"),
            prog("local function f(_) assert(m.k, m + 1) return _ end\nreturn f(E1(3))"),
        ],
        "underscore around a kept argument",
    ));
    specs.push(Spec {
        property: "C17",
        seeds: assert_seeds,
        bind_default_config: Some("['remove_assertions']".to_owned()),
        rule_jsons: vec!["'remove_assertions'".to_owned()],
        max_depth: depth,
        max_states: 100,
        env_seed: env_assert_identity(),
        env_out: env_assert_logging(),
        classify: classifier(env_model_assert()),
        extra_gens: vec![],
            judge_root: false,
    });
    let mut pure = mk(call_programs("assert", PURE_ARGS), "assert calls (pure arguments, no preservation)");
    pure.extend(mk(shadow_programs("assert", "assert(x, \"m\")"), "assert shadowing (no preservation)"));
    specs.push(Spec {
        property: "C17",
        seeds: pure,
        bind_default_config: None,
        rule_jsons: vec!["{rule:'remove_assertions',preserve_arguments_side_effects:false}".to_owned()],
        max_depth: depth,
        max_states: 100,
        env_seed: env_assert_identity(),
        env_out: env_assert_logging(),
        classify: classifier(env_model_assert()),
        extra_gens: vec![],
            judge_root: false,
    });
    // remove_debug_profiling
    for target in ["debug.profilebegin", "debug.profileend"] {
        let mut seeds = mk(call_programs(target, ARGS), "profiling calls");
        seeds.extend(mk(shadow_programs("debug", &format!("{}(\"label\")", target)), "debug shadowing"));
        {
            let small: &[&str] = &["", "\"label\"", "E1()", "EI(1), EI(2)", "..."];
            let other = if target == "debug.profilebegin" { "debug.profileend" } else { "debug.profilebegin" };
            seeds.extend(mk(combined_programs(target, other, small), "two profiling calls"));
            seeds.extend(mk(combined_programs(target, target, small), "two profiling calls"));
            let field = target.rsplit('.').next().unwrap_or("");
            seeds.extend(mk(
                vec![
                    prog(&format!("local Timer = {{{f} = EI}}\nTimer.{f}(\"x\")\nreturn Timer.{f}(1)", f = field)),
                    prog(&format!("local lib = {{debug = {{{f} = EI}}}}\nlib.debug.{f}(\"l\")\nreturn lib.debug.{f}(2)", f = field)),
                    prog(&format!("local o = {{{f} = EI}}\nreturn o:{f}(3), t.{f}", f = field)),
                ],
                "same name on another table",
            ));
            seeds.extend(mk(
                vec![
                    prog(&format!("local _ = E1(1)\n{}(m.k)\nE1(_)\nreturn _", target)),
                    prog(&format!("local _, value = E1(1), E1(2)\n{}(m.k, m + 1)\nreturn _, value", target)),
                ],
                "underscore around a kept argument",
            ));
        }
        specs.push(Spec {
            property: "C17",
            seeds,
            bind_default_config: Some("['remove_debug_profiling']".to_owned()),
            rule_jsons: vec!["'remove_debug_profiling'".to_owned()],
            max_depth: depth,
            max_states: 100,
            env_seed: env_profiling_noop(),
            env_out: behave::env_none(),
            classify: classifier(env_model_profiling()),
            extra_gens: vec![],
            judge_root: false,
        });
        specs.push(Spec {
            property: "C17",
            seeds: mk(call_programs(target, PURE_ARGS), "profiling calls (pure arguments, no preservation)"),
            bind_default_config: None,
            rule_jsons: vec!["{rule:'remove_debug_profiling',preserve_arguments_side_effects:false}".to_owned()],
            max_depth: depth,
            max_states: 100,
            env_seed: env_profiling_noop(),
            env_out: behave::env_none(),
            classify: classifier(env_model_profiling()),
            extra_gens: vec![],
            judge_root: false,
        });
    }
    // inject_global_value
    // the last ones look like the description of a require mode, which rule properties can also hold
    let values = ["null", "true", "false", "0", "1.5", "\"s\"", "[1,2]", "{\"a\":1}", "[1]", "[0]", "[1,false]", "{\"name\":\"path\"}", "{\"name\":\"luau\",\"a\":{\"b\":\"c\"}}", "\"path\"", "[\"path\"]"];
    // JSON5 values that JSON cannot spell: (text in the configuration, model with `$inf` / `$-inf` / `$nan` for the numbers)
    let json5_values = [
        ("Infinity", "\"$inf\""),
        ("-Infinity", "\"$-inf\""),
        ("NaN", "\"$nan\""),
        ("1e400", "\"$inf\""),
        ("[Infinity,1]", "[\"$inf\",1]"),
        ("[1,-Infinity,2]", "[1,\"$-inf\",2]"),
        ("{a:NaN}", "{\"a\":\"$nan\"}"),
        ("{a:[1e400]}", "{\"a\":[\"$inf\"]}"),
        ("{a:-1e999,b:1}", "{\"a\":\"$-inf\",\"b\":1}"),
    ];
    for (v, model) in values.iter().map(|v| (*v, *v)).chain(json5_values.iter().cloned()) {
        let jv: serde_json::Value = serde_json::from_str(model).unwrap();
        let mut bodies: Vec<String> = vec![
            "return G".into(),
            "return G, _G.G, _G[\"G\"]".into(),
            "local v = G\nreturn v".into(),
            "if G then E1(\"t\") else E1(\"f\") end\nreturn 1".into(),
            "return G == nil, type(G), not G".into(),
            "return G and 1 or 2".into(),
            "E1(G)\nE1(G, G)\nreturn {G}".into(),
            "return (G)".into(),
            "local function f() return G end\nreturn f()".into(),
            "return t.G, ({G = 3}).G, t[\"G\"]".into(),
            "local o = {G = 4}\nfunction o.G2() return G end\nreturn o.G, o.G2()".into(),
            "return `{G}`".into(),
            "return if G then 1 else 2".into(),
            "local a = {G}\nreturn #a".into(),
            "while G do break end\nreturn 1".into(),
            "return G2, GG, _G.G2".into(),
        ];
        match &jv {
            serde_json::Value::Object(_) => {
                bodies.push("return G.a, G[\"a\"], G.b".into());
                bodies.push("return G.a == nil, type(G.a), type(G.a) == \"table\" and G.a[1], type(G.a) == \"number\" and G.a ~= G.a".into());
                bodies.push("return _G.G.a, _G[\"G\"].a, _G.G[\"a\"], _G[\"G\"][\"a\"]".into());
                bodies.push("local function f(_G) return _G.G.a end\nreturn f({G = {a = 2}})".into());
                bodies.push("local f = G.a\nreturn f + 1".into());
            }
            serde_json::Value::Array(_) => {
                bodies.push("return G[1], G[2], G[3], G[1] == nil, G[2] == nil".into());
                bodies.push("return G[1], G[2], #G, G[3]".into());
                bodies.push("return _G.G[1], _G[\"G\"][2], #_G.G".into());
                bodies.push("local s = 0 for _, v in ipairs(G) do s = s + v end\nreturn s".into());
            }
            serde_json::Value::String(m) if m.starts_with('$') => {
                bodies.push("return _G.G == G, G ~= G".into());
                bodies.push("return G + 1, -G, G == 0, G > 0, G < 0, 1 / G".into());
            }
            serde_json::Value::String(_) => {
                bodies.push("return #G, G .. \"!\", G:upper(), (G):len()".into());
                bodies.push("return G == \"s\"".into());
                bodies.push("return _G.G:upper(), _G[\"G\"]:len(), (_G.G):rep(2)".into());
            }
            serde_json::Value::Number(_) => {
                bodies.push("return _G.G == G".into());
                bodies.push("return G + 1, -G, G == 0, G .. \"\"".into());
            }
            _ => {}
        }
        for b in [
            "local G = {a = 5, f = function() return 6 end}\nreturn G.a, G.f(), G[\"a\"]",
            "local function h(G) return G.a, G[1] end\nreturn h({a = 7, 8})",
            "for _, G in ipairs({{a = 8}}) do E1(G.a) end\nreturn 1",
            "local G = EI\nreturn G(1), (G)(2)",
            "local G = \"str\"\nreturn G:upper(), #G, G .. \"!\"",
            "local G = {m = function(self) return self.v end, v = 9}\nreturn G:m()",
            "local function G() return 3 end\nreturn G()",
            "local G = {a = {b = 1}}\nG.a.b = 2\nG.c = 3\nreturn G.a.b, G.c",
            "local G = 1\nG = 2\nG += 1\nreturn G",
            "local t2 = {}\nfunction t2.G() return 1 end\nfunction t2:G2() return G end\nreturn t2.G()",
            "do local G = {a = 1} E1(G.a) end\nreturn 1",
        ] {
            bodies.push(b.into());
        }
        let mut seeds = mk(bodies.iter().map(|b| prog(b)).collect(), "global reads");
        if matches!(jv, serde_json::Value::Object(_)) {
            for use_ in ["G.a", "_G.G.a", "_G[\"G\"].a", "_G[\"G\"][\"a\"]", "(_G[\"G\"]).a"] {
                seeds.extend(mk(shadow_programs("G", use_), "G shadowing (prefix uses)"));
                seeds.extend(mk(shadow_programs("_G", use_), "_G shadowing (prefix uses)"));
            }
        }
        for use_ in ["G", "_G.G", "_G[\"G\"]"] {
            seeds.extend(mk(shadow_programs("G", use_), "G shadowing"));
            seeds.extend(mk(shadow_programs("_G", use_), "_G shadowing"));
        }
        let value = jv.clone();
        let env_seed: Env = Arc::new(move |it: &mut Interp| {
            let v = json_to_value(&value);
            it.set_global("G", v);
        });
        let rule = if v == "null" { "{rule:'inject_global_value',identifier:'G'}".to_owned() } else { format!("{{rule:'inject_global_value',identifier:'G',value:{}}}", v) };
        specs.push(Spec {
            property: "C17",
            seeds,
            bind_default_config: Some(format!("[{}]", rule)),
            rule_jsons: vec![rule],
            max_depth: depth,
            max_states: 100,
            env_seed,
            env_out: behave::env_none(),
            classify: {
                // bug model of `inject-value-read-as-a-require-mode`: a value that darklua's RequireMode type can read is
                // read as one and written back with that type's own fields; the seed run with G preset to that
                // re-serialisation behaves exactly like the output
                let as_mode: Option<serde_json::Value> = match json5::from_str::<darklua_core::rules::RulePropertyValue>(v) {
                    Ok(darklua_core::rules::RulePropertyValue::RequireMode(m)) => serde_json::to_value(&m).ok().filter(|m| *m != jv),
                    _ => None,
                };
                match as_mode {
                    None => plain_classifier(),
                    Some(mode_value) => Arc::new(move |ctx: &FailCtx| {
                        let mv = mode_value.clone();
                        let predicted = crate::luaref::observe(ctx.seed, crate::luaref::Mode::Luau, crate::luaref::DEFAULT_FUEL, &move |it: &mut Interp| it.set_global("G", json_to_value(&mv)));
                        if predicted.same_behaviour(ctx.actual) {
                            return Some("inject-value-read-as-a-require-mode".to_owned());
                        }
                        super::findings::classify_behaviour("C17", ctx)
                    }),
                }
            },
            extra_gens: vec![],
            judge_root: false,
        });
    }
    let mut all_rules = Vec::new();
    let mut exhaustive = true;
    for spec in specs {
        all_rules.extend(spec.rule_jsons.clone());
        report = behave::run(spec, tier, report);
        exhaustive &= report.exhaustive;
    }
    report.exhaustive = exhaustive;
    report.set("rules", serde_json::json!(all_rules));
    report
}
