//! C18 — Comment and whitespace rules never touch code (Engine C/A over deviated layouts and comment texts).
use crate::common::{Report, Tier, Violation};
use crate::dl::{self, Gen};
use crate::gen::layouts as l;
use crate::luaref::lexer::{lex, Comment, Lexed, Mode, Tok};
use darklua_core::Resources;
use rayon::prelude::*;
use regex::Regex;
use serde_json::json;

/// code tokens by value (a generator may respell a literal; the value must be the same) and line
fn code_tokens(_src: &str, lexed: &Lexed) -> Vec<(String, u32)> {
    lexed
        .tokens
        .iter()
        .filter(|t| !matches!(t.tok, Tok::Eof))
        .map(|t| {
            let v = match &t.tok {
                Tok::Number(n) => format!("Number({:?})", n.to_bits()),
                other => format!("{:?}", other),
            };
            (v, t.line)
        })
        .collect()
}

fn comment_text(c: &Comment) -> String {
    c.text.trim_end_matches('\r').to_owned()
}

/// input with the trivia around every `...` token of a type pack replaced by one space (repair model for the
/// known finding "type-pack-ellipsis-trivia-dropped": such tokens are written without their trivia and are
/// not visited by the comment/space rules)
fn strip_ellipsis_trivia(src: &str) -> Option<String> {
    let parsed = crate::luaref::parser::parse(src.as_bytes(), Mode::Luau).ok()?;
    let spans = parsed.type_spans.clone();
    let in_span = |pos: usize| spans.iter().any(|(s, e)| pos >= *s && pos < *e);
    let toks: Vec<_> = parsed.tokens.iter().filter(|t| !matches!(t.tok, Tok::Eof)).collect();
    let mut cuts: Vec<(usize, usize)> = Vec::new();
    for (i, t) in toks.iter().enumerate() {
        if matches!(t.tok, Tok::Sym("...")) && (in_span(t.start) || (i + 1 < toks.len() && in_span(toks[i + 1].start)) || (i > 0 && in_span(toks[i - 1].start))) {
            if i > 0 {
                cuts.push((toks[i - 1].end, t.start));
            }
            let next = if i + 1 < toks.len() { toks[i + 1].start } else { src.len() };
            cuts.push((t.end, next));
        }
    }
    if cuts.is_empty() {
        return None;
    }
    cuts.sort();
    cuts.dedup();
    let mut out = String::new();
    let mut last = 0;
    let mut changed = false;
    for (s, e) in cuts {
        if s < last {
            continue;
        }
        out.push_str(&src[last..s]);
        let gap = &src[s..e];
        if gap.contains("--") {
            changed = true;
            out.push(' ');
        } else {
            out.push_str(gap);
        }
        last = e;
    }
    out.push_str(&src[last..]);
    if changed {
        Some(out)
    } else {
        None
    }
}

struct Pipeline {
    name: &'static str,
    rules: Vec<String>,
    /// comment material expected in front of the input's comments (append_text_comment at the start)
    prepended: &'static str,
    /// None: comments unchanged; Some(patterns): exactly the comments matching one of the patterns are kept
    except: Option<Vec<&'static str>>,
}

fn pipelines() -> Vec<Pipeline> {
    let excepts: Vec<(&'static str, Vec<&'static str>)> = vec![
        ("none", vec![]),
        ("^--!", vec!["^--!"]),
        ("c", vec!["c"]),
        ("long comments", vec!["^--\\[=*\\["]),
        ("two patterns", vec!["^--\\[\\[a", "b\\]\\]$"]),
        ("everything", vec![""]),
        // anchored at the end of the comment: the line break (LF or CRLF) is not part of a comment
        ("end anchored", vec!["c$", "^--!native$"]),
    ];
    let mut out = vec![Pipeline { name: "remove_spaces", rules: vec!["'remove_spaces'".to_owned()], except: None, prepended: "" }];
    // combinations with append_text_comment at the start (the three rules of the property in one pipeline)
    let append = "{rule:'append_text_comment',text:'x'}".to_owned();
    let keep_all = "{rule:'remove_comments',except:['']}".to_owned();
    for rules in [
        vec![append.clone(), "'remove_spaces'".to_owned()],
        vec!["'remove_spaces'".to_owned(), append.clone()],
        vec![append.clone(), keep_all.clone(), "'remove_spaces'".to_owned()],
        vec!["'remove_spaces'".to_owned(), keep_all.clone(), append.clone()],
        vec![keep_all.clone(), append.clone(), "'remove_spaces'".to_owned()],
    ] {
        out.push(Pipeline { name: "append_text_comment with remove_spaces", rules, except: None, prepended: "--x" });
    }
    for (name, pats) in excepts {
        let rule = if pats.is_empty() {
            "'remove_comments'".to_owned()
        } else {
            format!("{{rule:'remove_comments',except:{}}}", serde_json::to_string(&pats).unwrap())
        };
        let _ = name;
        out.push(Pipeline { name: "remove_comments", rules: vec![rule.clone()], except: Some(pats.clone()), prepended: "" });
        out.push(Pipeline { name: "remove_spaces, remove_comments", rules: vec!["'remove_spaces'".to_owned(), rule.clone()], except: Some(pats.clone()), prepended: "" });
        out.push(Pipeline { name: "remove_comments, remove_spaces", rules: vec![rule, "'remove_spaces'".to_owned()], except: Some(pats), prepended: "" });
    }
    out
}

fn run_pipeline(src: &str, p: &Pipeline) -> Result<Option<String>, String> {
    let mut block = match dl::parse(src, true) {
        Ok(b) => b,
        Err(e) => {
            if e.starts_with("PANIC") {
                return Err(e);
            }
            return Ok(None);
        }
    };
    let resources = Resources::from_memory();
    for r in &p.rules {
        let rule = dl::make_rule(r);
        dl::apply(rule.as_ref(), &mut block, src, &resources, "src/test.lua")?;
    }
    dl::generate(&block, src, Gen::Retain).map(Some)
}

fn check_a(src: &str, pipes: &[Pipeline]) -> (u64, u64, Vec<Violation>) {
    let lin = match lex(src.as_bytes(), Mode::Luau) {
        Ok(l) => l,
        Err(_) => return (0, 0, vec![]),
    };
    let code_in: Vec<String> = code_tokens(src, &lin).into_iter().map(|(t, _)| t).collect();
    let mut n = 0;
    let mut nontrivial = 0;
    let mut out = Vec::new();
    for p in pipes {
        let text = match run_pipeline(src, p) {
            Ok(Some(t)) => t,
            Ok(None) => return (0, 0, vec![]),
            Err(e) => {
                out.push(Violation { finding: None, summary: format!("{} ({}) on {:?}", e, p.name, src), replay: json!({"input": src, "rules": p.rules}) });
                continue;
            }
        };
        n += 1;
        if text != src {
            nontrivial += 1;
        }
        let problem = match lex(text.as_bytes(), Mode::Luau) {
            Err(e) => Some(format!("output does not lex: {}", e)),
            Ok(lout) => {
                let code_out: Vec<String> = code_tokens(&text, &lout).into_iter().map(|(t, _)| t).collect();
                if code_out != code_in {
                    Some("code tokens changed".to_owned())
                } else {
                    let expected: Vec<&Comment> = match &p.except {
                        None => lin.comments.iter().collect(),
                        Some(pats) => {
                            let res: Vec<Regex> = pats.iter().map(|p| Regex::new(p).unwrap()).collect();
                            lin.comments.iter().filter(|c| res.iter().any(|r| r.is_match(&comment_text(c)))).collect()
                        }
                    };
                    let got: Vec<String> = lout.comments.iter().map(comment_text).collect();
                    let want: Vec<String> = expected.iter().map(|c| comment_text(c)).collect();
                    // adjacent line comments may be written on one line (`--a` + `--b` -> `--a--b`): the comment material
                    // (concatenation of the comment texts) must be the same
                    let got_m = got.concat().replace('\r', "");
                    let want_m = want.concat().replace('\r', "");
                    let same = if p.prepended.is_empty() {
                        // comment by comment: two line comments written on one line become one comment (`--!strict--!native`)
                        got.iter().map(|c| c.replace('\r', "")).collect::<Vec<_>>() == want.iter().map(|c| c.replace('\r', "")).collect::<Vec<_>>() && got_m == want_m
                    } else {
                        // the appended comment may sit before or after leading comments of the file: removing one
                        // occurrence of it must leave exactly the input's comment material
                        got_m.match_indices(p.prepended).any(|(i, _)| format!("{}{}", &got_m[..i], &got_m[i + p.prepended.len()..]) == want_m)
                    };
                    if !same && p.prepended.is_empty() && got_m == want_m {
                        // known finding: the text of every comment is there, but line comments that followed each other on
                        // separate lines are written on one line and have become one comment
                        Some(format!("line comments merged: comments are {:?}, expected {:?}", got, want))
                    } else if !same {
                        Some(format!("comments are {:?}, expected {:?}", got, want))
                    } else {
                        None
                    }
                }
            }
        };
        if let Some(pb) = problem {
            out.push(Violation {
                finding: classify_a(src, &text, p, &pb),
                summary: format!("{}: rules {:?}\n--- input  {:?}\n--- output {:?}", pb, p.rules, src, text),
                replay: json!({"kind": "comment rules", "input": src, "rules": p.rules, "output": text, "problem": pb}),
            });
        }
    }
    (n, nontrivial, out)
}

fn classify_a(src: &str, _out: &str, p: &Pipeline, problem: &str) -> Option<String> {
    if !p.prepended.is_empty() && lex(src.as_bytes(), Mode::Luau).ok().and_then(|l| l.tokens.first().map(|t| matches!(t.tok, Tok::Sym("@")))).unwrap_or(false) {
        return Some("start-comment-inserted-after-leading-attribute".to_owned());
    }
    // known finding (parser dependency): a line comment ends at a line feed only, so what follows a lone carriage return up
    // to the next line feed is taken as part of the comment. Repair model: with every lone carriage return that ends a line
    // comment replaced by a space (so that both readings agree on the extent of the comment) the same input passes the check
    {
        let mut model = src.to_owned();
        let mut changed = false;
        for _ in 0..8 {
            let lexed = match lex(model.as_bytes(), Mode::Luau) {
                Ok(l) => l,
                Err(_) => break,
            };
            let at: Vec<usize> = lexed.comments.iter().filter(|c| !c.long && model.as_bytes().get(c.end) == Some(&b'\r') && model.as_bytes().get(c.end + 1) != Some(&b'\n')).map(|c| c.end).collect();
            if at.is_empty() {
                break;
            }
            let mut bytes = model.into_bytes();
            for i in at {
                bytes[i] = b' ';
            }
            model = String::from_utf8(bytes).unwrap_or_default();
            changed = true;
        }
        if changed {
            let (n, _, violations) = check_a(&model, std::slice::from_ref(p));
            // (what remains wrong on the repaired input must itself be a listed finding, e.g. merged line comments)
            if n > 0 && violations.iter().all(|v| v.finding.is_some()) {
                return Some("line-comment-runs-to-the-line-feed-over-a-lone-carriage-return".to_owned());
            }
        }
    }
    if problem.starts_with("line comments merged") {
        return Some("remove-spaces-writes-consecutive-line-comments-on-one-line".to_owned());
    }
    // the known defect only loses comment material: changed code tokens or output that does not lex are something else
    if !problem.starts_with("comments are") {
        return None;
    }
    // repair model: without the comments around type-pack `...` tokens the same input passes the same check
    let repaired = strip_ellipsis_trivia(src)?;
    let (n, _, violations) = check_a(&repaired, std::slice::from_ref(p));
    if n > 0 && violations.is_empty() {
        Some("type-pack-ellipsis-trivia-dropped".to_owned())
    } else {
        None
    }
}

// ------------------------------------------------------------------------------------------------ (b) append_text_comment

fn texts(tier: Tier) -> Vec<String> {
    let alphabet = ["[", "]", "=", "-", "\n", "\r", "a", " "];
    let mut out: Vec<String> = vec![String::new()];
    let mut cur: Vec<String> = vec![String::new()];
    for _ in 0..tier.pick(3, 4) {
        let mut next = Vec::new();
        for p in &cur {
            for a in alphabet {
                next.push(format!("{}{}", p, a));
            }
        }
        out.extend(next.iter().cloned());
        cur = next;
    }
    // longer texts over the bracket alphabet alone: closing brackets that overlap (`]]=]`), with a line feed so that the long form is used
    let brackets = ["[", "]", "=", "\n"];
    let mut cur: Vec<String> = vec![String::new()];
    for len in 1..=tier.pick(5, 7) {
        let mut next = Vec::new();
        for p in &cur {
            for a in brackets {
                next.push(format!("{}{}", p, a));
            }
        }
        if len > tier.pick(3, 4) {
            out.extend(next.iter().cloned());
        }
        cur = next;
    }
    for s in ["!native", "text ending in ]", "[==[ starts like a long bracket", "[[ license", "]] closes", "]=] closes", "a\nb", "a\r\nb", "line1\nline2\n", "--", "--[[", "a]]b\n]=]c", "]]=]", "]=]==]", "]]]", "]=]]", "a]]=]b", "]==]=]]", "]]=]==]===]", "]]=]\nb", "]=]==]\nb", "a\n]]=]", "[[a]]=]\nb", "]]=]==]===]\r\nb", "]]]=]]\nb", "é€😀", "\u{feff}", "tab\there"] {
        out.push(s.to_owned());
    }
    out
}

const FILES: &[&str] = &[
    "",
    "return 1",
    "return 1\n",
    "local a = 1 -- trailing comment without newline",
    "local a = 1\n-- last line comment\n",
    "-- first comment\nlocal a = 1\nreturn a\n",
    "-- only a comment",
    "--[[ only a long comment ]]",
    "local a = 1\nlocal b = [[\nlong\n]]\nreturn a, b\n",
    "f()\n\n\ng()",
    "local s = 'x' --[[c]] return s --[==[ d ]==]",
    // last statements ending in a semicolon, a type, a typed name, and every other kind of last token
    "return 1;",
    "return 1;\n",
    "f();",
    "while true do break; end",
    "local a = 1;",
    "type A = number",
    "type A = number\n",
    "export type B<T> = { T }",
    "type F = (number) -> ...string",
    "type G<T...> = (T...) -> T...",
    "local x: number",
    "local x: number, y: string",
    "local x: number = 1",
    "local function f(): number end",
    "local f = function(...: number): ...string end",
    "return a :: T",
    "return a :: { x: number }",
    "for i: number = 1, 2 do end",
    "return function() end",
    "return { 1 }",
    "return `a{b}`",
    "return f 's'",
    "return f { }",
    "return ...",
    "return not a",
    "repeat until a",
    "a = b",
    "a += 1",
    "const c = 1",
    "@native function f() end",
    "type function tf() end",
    "return f<<number>>()",
    "return a.b",
    "return a[1]",
    "return (a)",
    "return if a then b else c",
    "return nil",
    "return 0xF",
    "continue",
];

fn check_b(text: &str, location: &str, file: &str) -> (u64, Vec<Violation>) {
    let mut out = Vec::new();
    let mut n = 0;
    let rule_json = format!("{{rule:'append_text_comment',text:{},location:'{}'}}", serde_json::to_string(text).unwrap(), location);
    for gen in [Gen::Retain, Gen::Dense(80), Gen::Readable(80)] {
        let tokens = gen == Gen::Retain;
        let rule = dl::make_rule(&rule_json);
        let mut block = match dl::parse(file, tokens) {
            Ok(b) => b,
            Err(_) => continue,
        };
        let resources = Resources::from_memory();
        if let Err(e) = dl::apply(rule.as_ref(), &mut block, file, &resources, "src/test.lua") {
            if e.starts_with("PANIC") {
                out.push(Violation { finding: None, summary: e, replay: json!({"file": file, "rule": rule_json}) });
            }
            continue;
        }
        let output = match dl::generate(&block, file, gen) {
            Ok(t) => t,
            Err(e) => {
                out.push(Violation { finding: None, summary: e, replay: json!({"file": file, "rule": rule_json}) });
                continue;
            }
        };
        n += 1;
        let lin = lex(file.as_bytes(), Mode::Luau).unwrap();
        let code_in = code_tokens(file, &lin);
        // judged under both comment-termination rules: Luau (LF ends a line comment) and Lua 5.1 (CR too)
        for mode in [Mode::Luau, Mode::Lua51] {
            if mode == Mode::Lua51 && lex(file.as_bytes(), Mode::Lua51).is_err() {
                continue;
            }
            let problem: Option<String> = match lex(output.as_bytes(), mode) {
                Err(e) => Some(format!("output does not lex ({:?} rules): {}", mode, e)),
                Ok(lout) => {
                    let code_out = code_tokens(&output, &lout);
                    // the token-less generators never write optional semicolons
                    let is_semicolon = |c: &&(String, u32)| tokens || c.0 != "Sym(\";\")";
                    let same_code = code_out.iter().filter(is_semicolon).map(|c| &c.0).collect::<Vec<_>>() == code_in.iter().filter(is_semicolon).map(|c| &c.0).collect::<Vec<_>>();
                    if !same_code {
                        Some(format!("code tokens changed under {:?} rules: {:?} -> {:?}", mode, code_in.iter().map(|c| &c.0).collect::<Vec<_>>(), code_out.iter().map(|c| &c.0).collect::<Vec<_>>()))
                    } else if gen == Gen::Retain && !code_in.is_empty() {
                        // line stability
                        let shifts: Vec<i64> = code_in.iter().zip(code_out.iter()).map(|(a, b)| b.1 as i64 - a.1 as i64).collect();
                        if location == "end" && shifts.iter().any(|s| *s != 0) {
                            Some(format!("location end moved original lines by {:?}", shifts))
                        } else if shifts.iter().any(|s| *s != shifts[0]) {
                            Some(format!("lines shifted non-uniformly: {:?}", shifts))
                        } else {
                            None
                        }
                    } else {
                        None
                    }
                    .or_else(|| {
                        if text.is_empty() {
                            return None;
                        }
                        // the text must appear inside comment material
                        let all_comments: String = lout.comments.iter().map(|c| c.text.clone()).collect::<Vec<_>>().join("\n");
                        let probe = text.trim_matches(|c| c == '\n' || c == '\r');
                        if !probe.is_empty() && !all_comments.contains(probe) && gen == Gen::Retain {
                            Some(format!("the text is not contained in the comments of the output ({:?} rules): comments {:?}", mode, all_comments))
                        } else {
                            None
                        }
                    })
                }
            };
            if let Some(pb) = problem {
                out.push(Violation {
                    finding: None,
                    summary: format!("{}\n--- rule {} generator {}\n--- file   {:?}\n--- output {:?}", pb, rule_json, gen.name(), file, output),
                    replay: json!({"kind": "append_text_comment", "file": file, "rule": rule_json, "generator": gen.name(), "output": output, "problem": pb}),
                });
                break;
            }
        }
    }
    (n, out)
}

pub fn run(tier: Tier) -> Report {
    let mut report = Report::new("C18", "exploration", tier);
    report.rule = "(a) the C03 layouts (templates covering every node kind x one trivia insertion from a 15-element menu at every token gap, pairs in \
        thorough, despaced layouts, literal spellings) through remove_spaces, remove_comments with 6 `except` sets, and both orders of the two rules; \
        retain_lines output re-lexed by luaref: code-token texts identical, comment list == input comments filtered by the `except` regexes (regex \
        crate), unchanged for remove_spaces alone. (b) append_text_comment for ALL texts of length <= 3 (4) over {[ ] = - LF CR a space}, ALL texts of length <= 5 (7) over {[ ] = LF}, plus special \
        texts x location {start,end} x 11 files (empty, no final newline, ending in a line comment, only a comment, long strings) x 3 generators; output \
        re-lexed under Luau and Lua 5.1 comment rules: code tokens unchanged, text contained in comment material, `end` keeps every line, `start` \
        shifts uniformly. non-trivial = outputs that differ from the input"
        .to_owned();
    report.assumptions = vec!["the regex crate defines the meaning of `except`; the luaref lexer defines what is code and what is comment".to_owned()];
    // (a)
    let mut inputs: Vec<String> = Vec::new();
    for t in l::TEMPLATES {
        inputs.extend(l::deviations1(t));
        inputs.extend(l::despaced(t));
    }
    inputs.extend(l::spelling_programs());
    for extra in [
        "--!strict\n--[[a license b]]\nlocal a = 1 -- c\nreturn a --[=[ long ]=]\n",
        "local a --[[a x b]] = --c\n 1 --!x\n",
        "--[[a]]--[[b]]--c\nreturn --[[a b]] 1",
        "local M = {} -- table\n--[[ a\n b ]] return M",
        "f() -- c\n--[==[ a\n\n b ]==]\n-- d\n--[[ e\nf ]] g()",
        "-- head\n--[[ multi\nline ]]\nlocal a = 1 -- t\n--[[ x\ny\nz ]] return a",
    ] {
        inputs.extend(l::deviations1(extra));
    }
    if tier == Tier::Thorough {
        let small = ["--c\n", "--[[c]]", "--!x\n"];
        for t in l::TEMPLATES {
            inputs.extend(l::deviations2(t, &small));
        }
    }
    let pipes = pipelines();
    let res: Vec<(u64, u64, Vec<Violation>)> = inputs.par_iter().map(|s| check_a(s, &pipes)).collect();
    for (n, nt, v) in res {
        report.evaluations += n;
        report.distinct_nontrivial += nt;
        report.violations.extend(v);
    }
    report.set("layout_inputs", inputs.len() as u64);
    report.set("pipelines", pipes.iter().map(|p| json!(p.rules)).collect::<Vec<_>>());
    // (b)
    let ts = texts(tier);
    let mut cases = Vec::new();
    for t in &ts {
        for loc in ["start", "end"] {
            for f in FILES {
                cases.push((t.clone(), loc, *f));
            }
        }
    }
    let res: Vec<(u64, Vec<Violation>)> = cases.par_iter().map(|(t, loc, f)| check_b(t, loc, f)).collect();
    for (n, v) in res {
        report.evaluations += n;
        report.distinct_nontrivial += n;
        report.violations.extend(v);
    }
    report.set("comment_texts", ts.len() as u64);
    report.set("append_cases", cases.len() as u64);
    report.sample(json!({"layout": inputs[inputs.len() / 3]}));
    report.sample(json!({"layout": inputs[inputs.len() / 2]}));
    report.sample(json!({"append_text": ts[ts.len() / 2], "file": FILES[3]}));
    report
}
