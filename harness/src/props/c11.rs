//! C11 — Batch runs map files one-to-one, isolate failures and are deterministic (Engine B, one step: fault subsets x walk orders).
use crate::common::{guarded, Report, Tier, Violation};
use darklua_core::{Options, Resources};
use rayon::prelude::*;
use serde_json::json;
use std::collections::BTreeMap;

const LUA_NAMES: &[&str] = &["a.lua", "b.luau", "d/c.lua", "d/e f.lua", "d.v2/g.lua", "ü.lua"];
const OTHER_FILES: &[(&str, &str)] = &[("n.txt", "not lua"), ("d/data.json", "{\"a\": 1}"), ("d/init.txt", "x")];

#[derive(Clone, Copy, PartialEq, Eq, Debug)]
enum Fault {
    Healthy,
    Syntax,
    MissingRequire,
}

fn content(name: &str, fault: Fault) -> String {
    match fault {
        Fault::Healthy => format!("-- {}\nlocal v = 1\ndo end\nreturn v\n", name),
        Fault::Syntax => format!("-- {}\nlocal = = 1\nreturn\n", name),
        Fault::MissingRequire => format!("-- {}\nlocal m = require(\"./does_not_exist\")\nreturn m\n", name),
    }
}

const CONFIG: &str = "{rules: ['remove_comments', 'remove_empty_do'], bundle: {require_mode: 'path'}}";

#[derive(Clone, Copy, Debug, PartialEq, Eq)]
enum Io {
    InPlace,
    ExistingDir,
    NewDir,
}

struct Run {
    files: BTreeMap<String, String>,
    errors: Vec<String>,
    fatal: Option<String>,
}

fn run(files: &[(String, String)], io: Io, fail_fast: bool, permutation: usize) -> Result<Run, String> {
    let resources = Resources::from_memory();
    for (p, c) in files {
        resources.write(format!("src/{}", p), c).map_err(|e| format!("{:?}", e))?;
    }
    for (p, c) in OTHER_FILES {
        resources.write(format!("src/{}", p), c).map_err(|e| format!("{:?}", e))?;
    }
    resources.write(".darklua.json", CONFIG).map_err(|e| format!("{:?}", e))?;
    if io == Io::ExistingDir {
        resources.write("out/keep.me", "foreign").map_err(|e| format!("{:?}", e))?;
    }
    let mut options = Options::new("src").with_configuration_at(".darklua.json");
    if io != Io::InPlace {
        options = options.with_output("out");
    }
    if fail_fast {
        options = options.fail_fast();
    }
    let res = resources.clone();
    darklua_core::verif_hooks::set_walk_permutation(permutation);
    let outcome = guarded(move || darklua_core::process(&res, options));
    darklua_core::verif_hooks::set_walk_permutation(0);
    let outcome = outcome.map_err(|p| format!("PANIC in process: {}", p))?;
    let mut run = Run { files: BTreeMap::new(), errors: vec![], fatal: None };
    match outcome {
        Ok(tree) => run.errors = tree.collect_errors().iter().map(|e| e.to_string()).collect(),
        Err(e) => run.fatal = Some(e.to_string()),
    }
    for path in resources.walk("") {
        let p = path.to_string_lossy().replace('\\', "/");
        run.files.insert(p.clone(), resources.get(&path).unwrap_or_default());
    }
    Ok(run)
}

fn factorial(n: usize) -> usize {
    (1..=n).product::<usize>().max(1)
}

struct Case {
    names: Vec<&'static str>,
    faults: Vec<Fault>,
    io: Io,
    fail_fast: bool,
}

fn check_case(c: &Case) -> (u64, Vec<Violation>) {
    let files: Vec<(String, String)> = c.names.iter().zip(c.faults.iter()).map(|(n, f)| (n.to_string(), content(n, *f))).collect();
    let healthy_only: Vec<(String, String)> = files.iter().zip(c.faults.iter()).filter(|(_, f)| **f == Fault::Healthy).map(|(x, _)| x.clone()).collect();
    let mut violations = Vec::new();
    let mut n = 0;
    let describe = || format!("files {:?} faults {:?} io {:?} fail_fast {}", c.names, c.faults, c.io, c.fail_fast);
    let mut fail = |why: String, perm: usize| {
        violations.push(Violation {
            finding: None,
            summary: format!("{}\n--- {} walk permutation {}", why, describe(), perm),
            replay: json!({"kind": "batch", "files": c.names, "faults": format!("{:?}", c.faults), "io": format!("{:?}", c.io), "fail_fast": c.fail_fast, "permutation": perm}),
        });
    };
    // reference: the run in which the faulty files are absent
    let reference = match run(&healthy_only, c.io, false, 0) {
        Ok(r) => r,
        Err(e) => {
            fail(e, 0);
            return (1, violations);
        }
    };
    let total_inputs = files.len() + OTHER_FILES.len();
    let perms = factorial(total_inputs.min(5)).min(120);
    let mut first: Option<BTreeMap<String, String>> = None;
    for perm in 0..perms {
        for _repeat in 0..(if perm == 0 { 2 } else { 1 }) {
            n += 1;
            let r = match run(&files, c.io, c.fail_fast, perm) {
                Ok(r) => r,
                Err(e) => {
                    fail(e, perm);
                    continue;
                }
            };
            if let Some(f) = &r.fatal {
                fail(format!("process returned a fatal error instead of per-file errors: {}", f), perm);
                continue;
            }
            let out_prefix = if c.io == Io::InPlace { "src/" } else { "out/" };
            // (1)+(2)+(3)
            for ((name, text), fault) in files.iter().zip(c.faults.iter()) {
                let src_path = format!("src/{}", name);
                let out_path = format!("{}{}", out_prefix, name);
                if c.io != Io::InPlace && r.files.get(&src_path) != Some(text) {
                    fail(format!("input {} was modified although an output location was given", src_path), perm);
                }
                match fault {
                    Fault::Healthy => {
                        let want = reference.files.get(&out_path);
                        let got = r.files.get(&out_path);
                        if c.fail_fast {
                            // whatever was written must equal the reference; an unprocessed file keeps its source (in place) or is absent
                            let untouched = if c.io == Io::InPlace { got == Some(text) } else { got.is_none() };
                            if !(got == want || untouched) {
                                fail(format!("{} differs from the run without the faulty files", out_path), perm);
                            }
                        } else if got != want {
                            fail(format!("{} is {:?} but the run without the faulty files wrote {:?}", out_path, got, want), perm);
                        }
                    }
                    _ => {
                        let reported = r.errors.iter().filter(|e| e.contains(name)).count();
                        if !c.fail_fast && reported != 1 {
                            fail(format!("faulty file {} is named by {} errors: {:?}", name, reported, r.errors), perm);
                        }
                        if c.io == Io::InPlace {
                            if r.files.get(&src_path) != Some(text) {
                                fail(format!("faulty source {} was modified in place", src_path), perm);
                            }
                        } else if r.files.contains_key(&out_path) {
                            fail(format!("an output {} was written for a faulty file", out_path), perm);
                        }
                    }
                }
            }
            // with fail-fast the run stops at the first faulty file: that one at least is reported with its path
            if c.fail_fast && c.faults.iter().any(|f| *f != Fault::Healthy) {
                let named = files.iter().zip(c.faults.iter()).any(|((name, _), fault)| *fault != Fault::Healthy && r.errors.iter().any(|e| e.contains(name.as_str())));
                if !named {
                    fail(format!("fail-fast run with faulty files reports no error naming one of them: {:?}", r.errors), perm);
                }
            }
            if !c.fail_fast && r.errors.len() != c.faults.iter().filter(|f| **f != Fault::Healthy).count() {
                fail(format!("{} errors for {} faulty files: {:?}", r.errors.len(), c.faults.iter().filter(|f| **f != Fault::Healthy).count(), r.errors), perm);
            }
            // nothing else is written
            for (p, text) in &r.files {
                let is_input = p.starts_with("src/") || p == ".darklua.json";
                let known_output = p.starts_with("out/") && (p == "out/keep.me" || files.iter().any(|(n, _)| format!("out/{}", n) == *p));
                if !(is_input || known_output) {
                    fail(format!("unexpected file {} was written", p), perm);
                }
                if p == "out/keep.me" && text != "foreign" {
                    fail("a foreign file of the output directory was changed".to_owned(), perm);
                }
                if p.starts_with("src/") && OTHER_FILES.iter().any(|(n, c)| format!("src/{}", n) == *p && c != text) {
                    fail(format!("non-Lua input {} was changed", p), perm);
                }
            }
            // (4) determinism across orders and repetitions
            match &first {
                None => first = Some(r.files.clone()),
                Some(f) => {
                    if !c.fail_fast && *f != r.files {
                        fail("outputs differ between two runs / enumeration orders".to_owned(), perm);
                    }
                }
            }
        }
    }
    (n, violations)
}

/// input given as a file: in place, to an output file, to an existing directory, to a new path without extension
fn file_level_cases() -> (u64, Vec<Violation>) {
    let mut n = 0;
    let mut violations = Vec::new();
    for name in LUA_NAMES {
        for fault in [Fault::Healthy, Fault::Syntax, Fault::MissingRequire] {
            for (output, existing_dir, expected_out) in [
                (None, false, format!("src/{}", name)),
                (Some("out/result.lua"), false, "out/result.lua".to_owned()),
                (Some("outdir"), true, format!("outdir/{}", name.rsplit('/').next().unwrap())),
                (Some("outdir.v2"), true, format!("outdir.v2/{}", name.rsplit('/').next().unwrap())),
                (Some("out.d/deep.er"), true, format!("out.d/deep.er/{}", name.rsplit('/').next().unwrap())),
                (Some("newdir"), false, format!("newdir/{}", name.rsplit('/').next().unwrap())),
            ] {
                n += 1;
                let text = content(name, fault);
                let resources = Resources::from_memory();
                let input = format!("src/{}", name);
                let _ = resources.write(&input, &text);
                let _ = resources.write("src/other.lua", "return 2\n");
                let _ = resources.write(".darklua.json", CONFIG);
                if existing_dir {
                    let _ = resources.write(format!("{}/keep.me", output.unwrap()), "foreign");
                }
                let mut options = Options::new(&input).with_configuration_at(".darklua.json");
                if let Some(o) = output {
                    options = options.with_output(o);
                }
                let res = resources.clone();
                let outcome = match guarded(move || darklua_core::process(&res, options)) {
                    Ok(o) => o,
                    Err(p) => {
                        violations.push(Violation { finding: None, summary: format!("PANIC in process: {} (input file {})", p, input), replay: json!({"input": input}) });
                        continue;
                    }
                };
                let errors: Vec<String> = match &outcome {
                    Ok(tree) => tree.collect_errors().iter().map(|e| e.to_string()).collect(),
                    Err(e) => vec![e.to_string()],
                };
                let mut problems = Vec::new();
                let written: Vec<String> = resources.walk("").map(|p| p.to_string_lossy().into_owned()).collect();
                let mut allowed = vec![input.clone(), "src/other.lua".to_owned(), ".darklua.json".to_owned(), format!("{}/keep.me", output.unwrap_or("outdir"))];
                if fault == Fault::Healthy {
                    allowed.push(expected_out.clone());
                    if !errors.is_empty() {
                        problems.push(format!("errors for a healthy file: {:?}", errors));
                    }
                    if !written.contains(&expected_out) {
                        problems.push(format!("expected output {} is missing (files: {:?})", expected_out, written));
                    }
                } else {
                    if errors.len() != 1 || !errors[0].contains(name) {
                        problems.push(format!("expected exactly one error naming {}: {:?}", name, errors));
                    }
                    if output.is_some() && written.contains(&expected_out) {
                        problems.push(format!("an output {} was written for a faulty file", expected_out));
                    }
                }
                if (output.is_some() || fault != Fault::Healthy) && resources.get(&input).ok().as_deref() != Some(text.as_str()) {
                    problems.push("the input file was modified".to_owned());
                }
                if resources.get("src/other.lua").ok().as_deref() != Some("return 2\n") {
                    problems.push("a file that is not part of the input was processed".to_owned());
                }
                for w in &written {
                    if !allowed.contains(w) {
                        problems.push(format!("unexpected file {}", w));
                    }
                }
                if !problems.is_empty() {
                    violations.push(Violation {
                        finding: None,
                        summary: format!("{}\n--- input file {} ({:?}) output {:?}", problems.join("\n"), input, fault, output),
                        replay: json!({"kind": "batch file input", "input": input, "fault": format!("{:?}", fault), "output": output}),
                    });
                }
            }
        }
    }
    (n, violations)
}

/// faults that only exist on a real file system
fn real_fs_cases() -> (u64, Vec<Violation>) {
    use std::fs;
    let mut n = 0;
    let mut violations = Vec::new();
    for in_place in [true, false] {
        for fail_fast in [false, true] {
            n += 1;
            let dir = match tempfile::tempdir() {
                Ok(d) => d,
                Err(_) => return (n, violations),
            };
            let root = dir.path();
            let src = root.join("src");
            fs::create_dir_all(src.join("d")).unwrap();
            fs::create_dir_all(src.join("x.lua")).unwrap(); // a directory named like a Lua file
            fs::write(src.join("x.lua").join("inner.lua"), "return 'inner'\n").unwrap();
            fs::write(src.join("ok.lua"), "-- c\nreturn 1\n").unwrap();
            fs::write(src.join("d").join("ok2.luau"), "do end return 2\n").unwrap();
            fs::write(src.join("bad_utf8.lua"), [b'r', b'e', b't', b'u', b'r', b'n', b' ', b'"', 0xff, 0xfe, b'"']).unwrap();
            fs::write(src.join("note.txt"), "text").unwrap();
            fs::write(root.join("cfg.json5"), "{rules: ['remove_comments', 'remove_empty_do']}").unwrap();
            let out = root.join("out");
            if !in_place {
                // destination occupied by a directory
                fs::create_dir_all(out.join("d").join("ok2.luau")).unwrap();
            }
            let resources = Resources::from_file_system();
            let mut options = Options::new(&src).with_configuration_at(root.join("cfg.json5"));
            if !in_place {
                options = options.with_output(&out);
            }
            if fail_fast {
                options = options.fail_fast();
            }
            let outcome = match guarded(move || darklua_core::process(&resources, options)) {
                Ok(o) => o,
                Err(p) => {
                    violations.push(Violation { finding: None, summary: format!("PANIC in process on a real directory: {}", p), replay: json!({"kind": "real fs", "in_place": in_place}) });
                    continue;
                }
            };
            let errors: Vec<String> = match &outcome {
                Ok(tree) => tree.collect_errors().iter().map(|e| e.to_string()).collect(),
                Err(e) => vec![format!("FATAL {}", e)],
            };
            let mut problems = Vec::new();
            if errors.iter().any(|e| e.starts_with("FATAL")) {
                problems.push(format!("the batch aborted instead of reporting per-file errors: {:?}", errors));
            }
            if !errors.iter().any(|e| e.contains("bad_utf8.lua")) && !fail_fast {
                problems.push(format!("no error names bad_utf8.lua: {:?}", errors));
            }
            if fs::read(src.join("bad_utf8.lua")).unwrap().len() != 11 {
                problems.push("the unreadable source was modified".to_owned());
            }
            if !fail_fast {
                let ok_out = if in_place { src.join("ok.lua") } else { out.join("ok.lua") };
                match fs::read_to_string(&ok_out) {
                    Ok(t) if t.contains("return 1") && !t.contains("-- c") => {}
                    other => problems.push(format!("healthy file ok.lua was not processed: {:?}", other)),
                }
                let inner = if in_place { src.join("x.lua").join("inner.lua") } else { out.join("x.lua").join("inner.lua") };
                if !inner.exists() {
                    problems.push("the file inside the directory named x.lua was not processed".to_owned());
                }
                if !in_place && !errors.iter().any(|e| e.contains("ok2.luau")) {
                    problems.push(format!("no error for the destination occupied by a directory: {:?}", errors));
                }
            }
            if fs::read_to_string(src.join("note.txt")).unwrap() != "text" {
                problems.push("a non-Lua file was changed".to_owned());
            }
            if !in_place && out.join("note.txt").exists() {
                problems.push("a non-Lua file was copied to the output".to_owned());
            }
            if !problems.is_empty() {
                violations.push(Violation {
                    finding: None,
                    summary: format!("{}\n--- real directory, in_place={} fail_fast={} errors={:?}", problems.join("\n"), in_place, fail_fast, errors),
                    replay: json!({"kind": "real fs", "in_place": in_place, "fail_fast": fail_fast}),
                });
            }
        }
    }
    (n, violations)
}

/// the same directory named in different ways (`src`, `./src`, `src/`, `.`...) maps every file to the same mirrored output
fn input_shape_cases() -> (u64, Vec<Violation>) {
    let tree: &[(&str, &str)] = &[("src/a.lua", "-- a\nreturn 1\n"), ("src/d/c.lua", "do end\nreturn 'c'\n"), ("src/d/e f.luau", "-- e\nreturn 3\n"), ("main.lua", "-- m\nreturn 0\n"), ("n.txt", "text")];
    let config = "{rules: ['remove_comments', 'remove_empty_do']}";
    // reference content: each file processed on its own
    let mut reference = BTreeMap::new();
    for (p, c) in tree.iter().filter(|(p, _)| p.ends_with(".lua") || p.ends_with(".luau")) {
        let r = Resources::from_memory();
        let _ = r.write(p, c);
        let _ = r.write(".darklua.json", config);
        let res = r.clone();
        let p2 = p.to_string();
        let _ = guarded(move || darklua_core::process(&res, Options::new(&p2).with_configuration_at(".darklua.json")));
        reference.insert(p.to_string(), r.get(p).unwrap_or_default());
    }
    let mut n = 0;
    let mut violations = Vec::new();
    // (input spelling, prefix of the files it covers)
    let inputs: &[(&str, &str)] = &[("src", "src/"), ("./src", "src/"), ("src/", "src/"), ("src/.", "src/"), ("./src/", "src/"), ("src/d/..", "src/"), ("src/d", "src/d/"), ("./src/d/", "src/d/"), (".", ""), ("./", ""), ("src/..", "")];
    let outputs: &[Option<&str>] = &[None, Some("out"), Some("./out"), Some("out/")];
    for (input, prefix) in inputs {
        for output in outputs {
            n += 1;
            let r = Resources::from_memory();
            for (p, c) in tree {
                let _ = r.write(p, c);
            }
            let _ = r.write(".darklua.json", config);
            let mut options = Options::new(input).with_configuration_at(".darklua.json");
            if let Some(o) = output {
                options = options.with_output(o);
            }
            let res = r.clone();
            let outcome = match guarded(move || darklua_core::process(&res, options)) {
                Ok(o) => o,
                Err(p) => {
                    violations.push(Violation { finding: None, summary: format!("PANIC in process: {} (input {:?} output {:?})", p, input, output), replay: json!({"kind": "input shape", "input": input, "output": output}) });
                    continue;
                }
            };
            let errors: Vec<String> = match &outcome {
                Ok(tree) => tree.collect_errors().iter().map(|e| e.to_string()).collect(),
                Err(e) => vec![format!("FATAL {}", e)],
            };
            let mut problems = Vec::new();
            if !errors.is_empty() {
                problems.push(format!("errors for a healthy tree: {:?}", errors));
            }
            let mut expected: BTreeMap<String, String> = tree.iter().map(|(p, c)| (p.to_string(), c.to_string())).collect();
            expected.insert(".darklua.json".to_owned(), config.to_owned());
            for (p, _) in tree.iter().filter(|(p, _)| (p.ends_with(".lua") || p.ends_with(".luau")) && p.starts_with(prefix)) {
                let dest = match output {
                    None => p.to_string(),
                    Some(_) => format!("out/{}", &p[prefix.len()..]),
                };
                expected.insert(dest, reference[*p].clone());
            }
            let mut got = BTreeMap::new();
            for path in r.walk("") {
                got.insert(path.to_string_lossy().replace('\\', "/"), r.get(&path).unwrap_or_default());
            }
            if errors.is_empty() && got != expected {
                for (k, v) in &expected {
                    match got.get(k) {
                        None => problems.push(format!("{} is missing", k)),
                        Some(g) if g != v => problems.push(format!("{} is {:?}, expected {:?}", k, g, v)),
                        _ => {}
                    }
                }
                for k in got.keys() {
                    if !expected.contains_key(k) {
                        problems.push(format!("unexpected file {}", k));
                    }
                }
            }
            if !problems.is_empty() {
                violations.push(Violation {
                    finding: None,
                    summary: format!("{}\n--- directory input spelled {:?}, output {:?}", problems.join("\n"), input, output),
                    replay: json!({"kind": "input shape", "input": input, "output": output}),
                });
            }
        }
    }
    (n, violations)
}

/// files with unusual but valid content: every one gets exactly one output at the mirrored path
fn content_shape_cases() -> (u64, Vec<Violation>) {
    let contents: &[&str] = &["", "\n", "   ", "\t\n\n", "-- only a comment", "-- only a comment\n", "--[[ long\ncomment ]]\n", "return", "return\n", ";", "do end", "\u{feff}", "\u{feff}-- c\n", "#!/usr/bin/lua\n", "local unused = 1", "type T = number", "export type T = number\n"];
    let mut n = 0;
    let mut violations = Vec::new();
    for config in ["{rules: []}", "{rules: ['remove_comments', 'remove_spaces', 'remove_unused_variable', 'remove_types', 'remove_empty_do']}", "{rules: [], generator: 'dense'}", "{rules: ['remove_comments'], generator: 'readable'}"] {
        for content in contents {
            for io in [Io::InPlace, Io::ExistingDir, Io::NewDir] {
                for with_sibling in [false, true] {
                    n += 1;
                    let r = Resources::from_memory();
                    let _ = r.write("src/d/odd.lua", content);
                    let _ = r.write("src/odd.luau", content);
                    if with_sibling {
                        let _ = r.write("src/d/ok.lua", "return 1\n");
                    }
                    let _ = r.write(".darklua.json", config);
                    if io == Io::ExistingDir {
                        let _ = r.write("out/keep.me", "foreign");
                    }
                    let mut options = Options::new("src").with_configuration_at(".darklua.json");
                    if io != Io::InPlace {
                        options = options.with_output("out");
                    }
                    let res = r.clone();
                    let describe = format!("content {:?}, configuration {}, {:?}, sibling file: {}", content, config, io, with_sibling);
                    match guarded(move || darklua_core::process(&res, options)) {
                        Err(p) => violations.push(Violation { finding: None, summary: format!("PANIC in process: {}\n--- {}", p, describe), replay: json!({"kind": "content shape", "content": content, "config": config}) }),
                        Ok(Err(e)) => violations.push(Violation { finding: None, summary: format!("fatal error {}\n--- {}", e, describe), replay: json!({"kind": "content shape", "content": content, "config": config}) }),
                        Ok(Ok(tree)) => {
                            let errors: Vec<String> = tree.collect_errors().iter().map(|e| e.to_string()).collect();
                            let prefix = if io == Io::InPlace { "src" } else { "out" };
                            let mut problems = Vec::new();
                            if !errors.is_empty() {
                                // a content darklua rejects must be rejected for both copies, and nothing written for them
                                if errors.len() != 2 {
                                    problems.push(format!("{} errors for two files with the same content: {:?}", errors.len(), errors));
                                }
                            } else {
                                for f in ["d/odd.lua", "odd.luau"] {
                                    if r.get(format!("{}/{}", prefix, f)).is_err() {
                                        problems.push(format!("no output was written for {} and no error reported", f));
                                    }
                                }
                                if r.get(format!("{}/d/odd.lua", prefix)).ok() != r.get(format!("{}/odd.luau", prefix)).ok() {
                                    problems.push("two files with the same content got different outputs".to_owned());
                                }
                            }
                            if with_sibling && r.get(format!("{}/d/ok.lua", prefix)).is_err() {
                                problems.push("the ordinary sibling file was not written".to_owned());
                            }
                            if !problems.is_empty() {
                                violations.push(Violation { finding: None, summary: format!("{}\n--- {}", problems.join("\n"), describe), replay: json!({"kind": "content shape", "content": content, "config": config, "io": format!("{:?}", io)}) });
                            }
                        }
                    }
                }
            }
        }
    }
    (n, violations)
}

const RICH_CONFIG: &str = "{rules: ['remove_comments', 'remove_spaces', 'remove_assertions', 'remove_debug_profiling', 'remove_continue', 'remove_compound_assignment', 'remove_if_expression', \
    'remove_interpolated_string', 'remove_method_call', 'remove_types', 'remove_floor_division', 'convert_luau_number', 'compute_expression', 'remove_unused_variable', 'group_local_assignment', \
    {rule: 'inject_global_value', identifier: 'G', value: 1}, {rule: 'append_text_comment', text: 'tail', location: 'end'}, 'convert_index_to_field', 'remove_nil_declaration', \
    'remove_unused_if_branch', 'remove_unused_while', 'filter_after_early_return', 'remove_empty_do', 'remove_method_definition', 'remove_function_call_parens'], generator: 'dense'}";

const RICH_CONTENTS: &[&str] = &[
    "local select = f\nlocal v = assert(f(), 'm')\nlocal w = assert(g(), 'n', 2)\nreturn v, w, select\n",
    "local select = f\nlocal v = assert(f(), 'm')\nlocal w = assert(g(), 'n', 2)\nreturn v, w, select\n",
    "for i = 1, 3 do if i == 2 then continue end t[i] += 1 print(`v{i}`, if i then 1 else 2) end\nfor j = 1, 2 do while j do if j then continue end end end\nreturn t\n",
    "local t = {}\nt[f()].x += 1\nt[g()][h()] //= 2\nlocal s = ('x'):rep(3)\ndebug.profilebegin('p')\nreturn G, t, s, assert(t, 'a', 'b')\n",
    "return 1\n",
];

/// every file of a batch is written exactly as when it is processed alone, whatever the other files contain and in whatever order they are visited
fn isolation_cases() -> (u64, Vec<Violation>) {
    let names = ["a.lua", "b.luau", "d/c.lua"];
    let alone: Vec<Result<String, String>> = RICH_CONTENTS
        .iter()
        .map(|c| {
            let r = Resources::from_memory();
            let _ = r.write("src/x.lua", c);
            let _ = r.write(".darklua.json", RICH_CONFIG);
            let res = r.clone();
            match guarded(move || darklua_core::process(&res, Options::new("src").with_configuration_at(".darklua.json").with_output("out"))) {
                Ok(Ok(t)) if t.collect_errors().is_empty() => r.get("out/x.lua").map_err(|e| format!("{:?}", e)),
                Ok(Ok(t)) => Err(format!("{:?}", t.collect_errors().iter().map(|e| e.to_string()).collect::<Vec<_>>())),
                Ok(Err(e)) => Err(e.to_string()),
                Err(p) => Err(format!("PANIC {}", p)),
            }
        })
        .collect();
    let k = RICH_CONTENTS.len();
    let mut cases = Vec::new();
    for assign in 0..k.pow(names.len() as u32) {
        for perm in 0..24 {
            cases.push((assign, perm));
        }
    }
    let results: Vec<Vec<Violation>> = cases
        .par_iter()
        .map(|(assign, perm)| {
            let mut v = Vec::new();
            let mut x = *assign;
            let mut chosen = Vec::new();
            for _ in 0..names.len() {
                chosen.push(x % k);
                x /= k;
            }
            let r = Resources::from_memory();
            for (n, c) in names.iter().zip(&chosen) {
                let _ = r.write(format!("src/{}", n), RICH_CONTENTS[*c]);
            }
            let _ = r.write(".darklua.json", RICH_CONFIG);
            let res = r.clone();
            darklua_core::verif_hooks::set_walk_permutation(*perm);
            let outcome = guarded(move || darklua_core::process(&res, Options::new("src").with_configuration_at(".darklua.json").with_output("out")));
            darklua_core::verif_hooks::set_walk_permutation(0);
            let describe = format!("contents {:?} of {:?}, walk permutation {}", chosen, names, perm);
            match outcome {
                Err(p) => v.push(Violation { finding: None, summary: format!("PANIC in process: {}\n--- {}", p, describe), replay: json!({"kind": "isolation", "contents": chosen, "permutation": perm}) }),
                Ok(Err(e)) => v.push(Violation { finding: None, summary: format!("fatal error {}\n--- {}", e, describe), replay: json!({"kind": "isolation", "contents": chosen, "permutation": perm}) }),
                Ok(Ok(_)) => {
                    for (n, c) in names.iter().zip(&chosen) {
                        let got = r.get(format!("out/{}", n)).ok();
                        if let Ok(want) = &alone[*c] {
                            if got.as_ref() != Some(want) {
                                v.push(Violation {
                                    finding: None,
                                    summary: format!("out/{} differs from the output of the same source processed alone\n    in the batch: {:?}\n    alone:        {:?}\n--- {}", n, got, want, describe),
                                    replay: json!({"kind": "isolation", "contents": chosen, "permutation": perm, "file": n}),
                                });
                            }
                        }
                    }
                }
            }
            v
        })
        .collect();
    let mut violations: Vec<Violation> = results.into_iter().flatten().collect();
    for (i, a) in alone.iter().enumerate() {
        if let Err(e) = a {
            violations.push(Violation { finding: None, summary: format!("rich content {} cannot be processed alone: {}", i, e), replay: json!({"kind": "isolation alone", "content": i}) });
        }
    }
    (cases.len() as u64, violations)
}

/// byte-exact agreement between a real directory and the in-memory run of the same tree, and a second run into the same
/// output directory after sources shrank, grew and disappeared
fn real_fs_exact_cases() -> (u64, Vec<Violation>) {
    use std::fs;
    let config = "{rules: ['remove_comments', 'remove_empty_do'], generator: 'dense'}";
    let v1: &[(&str, &str)] = &[
        ("ok.lua", "-- a long comment that makes the source much longer than its output\nlocal function compute(a, b)\n    return a + b\nend\nreturn compute(1, 2)\n"),
        ("d/two.luau", "do end\nreturn 2\n"),
        ("d.v2/three.lua", "-- c\nreturn 3\n"),
    ];
    let v2: &[(&str, &str)] = &[("ok.lua", "return 1\n"), ("d/two.luau", "do end\nreturn 2, 'now longer than before', { 1, 2, 3 }\n"), ("d.v2/three.lua", "-- c\nreturn 3\n")];
    let memory = |files: &[(&str, &str)], in_place: bool| -> BTreeMap<String, String> {
        let r = Resources::from_memory();
        for (p, c) in files {
            let _ = r.write(format!("src/{}", p), c);
        }
        let _ = r.write(".darklua.json", config);
        let mut options = Options::new("src").with_configuration_at(".darklua.json");
        if !in_place {
            options = options.with_output("out");
        }
        let res = r.clone();
        let _ = guarded(move || darklua_core::process(&res, options));
        let prefix = if in_place { "src/" } else { "out/" };
        files.iter().map(|(p, _)| (p.to_string(), r.get(format!("{}{}", prefix, p)).unwrap_or_default())).collect()
    };
    let mut n = 0;
    let mut violations = Vec::new();
    for in_place in [false, true] {
        n += 1;
        let dir = match tempfile::tempdir() {
            Ok(d) => d,
            Err(_) => return (n, violations),
        };
        let root = dir.path();
        let src = root.join("src");
        let out = root.join("out");
        fs::write(root.join("cfg.json5"), config).unwrap();
        let mut problems = Vec::new();
        for (round, files) in [v1, v2].iter().enumerate() {
            for (p, c) in files.iter() {
                let path = src.join(p);
                fs::create_dir_all(path.parent().unwrap()).unwrap();
                fs::write(path, c).unwrap();
            }
            let resources = Resources::from_file_system();
            let mut options = Options::new(&src).with_configuration_at(root.join("cfg.json5"));
            if !in_place {
                options = options.with_output(&out);
            }
            match guarded(move || darklua_core::process(&resources, options)) {
                Ok(Ok(t)) => {
                    let errors: Vec<String> = t.collect_errors().iter().map(|e| e.to_string()).collect();
                    if !errors.is_empty() {
                        problems.push(format!("run {}: errors {:?}", round + 1, errors));
                    }
                }
                Ok(Err(e)) => problems.push(format!("run {}: fatal {}", round + 1, e)),
                Err(p) => problems.push(format!("run {}: PANIC {}", round + 1, p)),
            }
            let want = memory(files, in_place);
            for (p, w) in &want {
                let path = if in_place { src.join(p) } else { out.join(p) };
                let got = fs::read_to_string(&path).ok();
                if got.as_ref() != Some(w) {
                    problems.push(format!("run {}: {} holds {:?} on disk, the in-memory run of the same tree wrote {:?}", round + 1, p, got, w));
                }
                if !in_place && fs::read_to_string(src.join(p)).ok().as_deref() != files.iter().find(|(q, _)| q == p).map(|(_, c)| *c) {
                    problems.push(format!("run {}: source {} was modified", round + 1, p));
                }
            }
        }
        if !problems.is_empty() {
            violations.push(Violation {
                finding: None,
                summary: format!("{}\n--- real directory run twice (sources rewritten in between), in_place={}", problems.join("\n"), in_place),
                replay: json!({"kind": "real fs exact", "in_place": in_place}),
            });
        }
    }
    (n, violations)
}

fn permute(items: &mut Vec<usize>, k: usize, out: &mut Vec<Vec<usize>>) {
    if k == items.len() {
        out.push(items.clone());
        return;
    }
    for i in k..items.len() {
        items.swap(k, i);
        permute(items, k + 1, out);
        items.swap(k, i);
    }
}

fn snapshot(r: &Resources) -> BTreeMap<String, String> {
    let mut got = BTreeMap::new();
    for path in r.walk("") {
        got.insert(path.to_string_lossy().replace('\\', "/"), r.get(&path).unwrap_or_default());
    }
    got
}

fn process_memory_with(files: &[(&str, &str)], config: &str, input: &str, output: Option<&str>, permutation: usize, resources: Option<Resources>) -> Result<(Resources, Vec<String>), String> {
    let r = resources.unwrap_or_else(Resources::from_memory);
    for (p, c) in files {
        let _ = r.write(p, c);
    }
    let _ = r.write(".darklua.json", config);
    let mut options = Options::new(input).with_configuration_at(".darklua.json");
    if let Some(o) = output {
        options = options.with_output(o);
    }
    let res = r.clone();
    darklua_core::verif_hooks::set_walk_permutation(permutation);
    let outcome = guarded(move || darklua_core::process(&res, options));
    darklua_core::verif_hooks::set_walk_permutation(0);
    let outcome = outcome.map_err(|p| format!("PANIC in process: {}", p))?;
    let errors = match outcome {
        Ok(tree) => tree.collect_errors().iter().map(|e| e.to_string()).collect(),
        Err(e) => vec![format!("FATAL {}", e)],
    };
    Ok((r, errors))
}

/// files that require each other, processed with bundling: the bundle of a file does not depend on which files of the batch were
/// already written (in place, every enumeration order), and is what an output directory receives
fn dependent_files_cases() -> (u64, Vec<Violation>) {
    let mut n = 0;
    let mut violations = Vec::new();
    let trees: &[&[(&str, &str)]] = &[
        &[("src/a.lua", "local b = require('./b')\nreturn b\n"), ("src/b.lua", "-- b\nreturn 1\n")],
        &[("src/a.lua", "local b = require('./b')\nreturn b\n"), ("src/b.lua", "local c = require('./d/c')\nreturn c\n"), ("src/d/c.lua", "do end\nreturn 3\n")],
        &[("src/z.lua", "return require('./a')\n"), ("src/a.lua", "return require('./m')\n"), ("src/m.lua", "return {}\n")],
    ];
    for tree in trees {
        for config in ["{rules: [{rule: 'append_text_comment', text: 'processed'}], bundle: {require_mode: 'path'}}", "{rules: ['remove_comments', 'remove_empty_do'], bundle: {require_mode: 'path'}}"] {
            // reference: the same tree processed to an output directory
            let reference = match process_memory_with(tree, config, "src", Some("out"), 0, None) {
                Ok((r, e)) if e.is_empty() => snapshot(&r),
                other => {
                    violations.push(Violation { finding: None, summary: format!("the tree does not process to an output directory: {:?}", other.map(|(_, e)| e)), replay: json!({"kind": "dependent files", "config": config}) });
                    continue;
                }
            };
            for perm in 0..factorial(tree.len()) {
                n += 1;
                let (r, errors) = match process_memory_with(tree, config, "src", None, perm, None) {
                    Ok(x) => x,
                    Err(e) => {
                        violations.push(Violation { finding: None, summary: e, replay: json!({"kind": "dependent files", "config": config, "permutation": perm}) });
                        continue;
                    }
                };
                let got = snapshot(&r);
                let mut problems = Vec::new();
                if !errors.is_empty() {
                    problems.push(format!("errors: {:?}", errors));
                }
                for (p, _) in tree.iter() {
                    let want = reference.get(&p.replacen("src/", "out/", 1));
                    if got.get(*p) != want {
                        problems.push(format!("{} processed in place is {:?}; processed to an output directory it is {:?}", p, got.get(*p), want));
                    }
                }
                if !problems.is_empty() {
                    let files: Vec<&str> = tree.iter().map(|(p, _)| *p).collect();
                    // bug model of the known finding: every file is bundled from what the files it requires contain at that
                    // moment, i.e. the batch behaves like single-file in-place runs, one after the other, in some order
                    let mut explained = false;
                    if errors.is_empty() {
                        let mut order: Vec<usize> = (0..tree.len()).collect();
                        let mut orders = Vec::new();
                        permute(&mut order, 0, &mut orders);
                        for o in orders {
                            let r2 = Resources::from_memory();
                            for (p, c) in tree.iter() {
                                let _ = r2.write(p, c);
                            }
                            let mut ok = true;
                            for i in &o {
                                match process_memory_with(&[], config, tree[*i].0, None, 0, Some(r2.clone())) {
                                    Ok((_, e)) if e.is_empty() => {}
                                    _ => ok = false,
                                }
                            }
                            if ok && snapshot(&r2) == got {
                                explained = true;
                                break;
                            }
                        }
                    }
                    violations.push(Violation {
                        finding: if explained { Some("in-place-bundling-reads-files-already-rewritten".to_owned()) } else { None },
                        summary: format!("{}\n--- files {:?} config {} walk permutation {}", problems.join("\n"), files, config, perm),
                        replay: json!({"kind": "dependent files", "files": files, "config": config, "permutation": perm}),
                    });
                }
            }
        }
    }
    (n, violations)
}

/// choices that must not depend on hash order: several aliases for the same directory, repeated runs in one process
fn alias_choice_cases() -> (u64, Vec<Violation>) {
    let mut n = 0;
    let mut violations = Vec::new();
    let tree: &[(&str, &str)] = &[("src/main.lua", "local x = require(\"./packages/x\")\nlocal y = require(\"./packages/sub/y\")\nreturn x, y\n"), ("src/packages/x.lua", "return 1\n"), ("src/packages/sub/y.lua", "return 2\n")];
    for config in [
        "{rules: [{rule: 'convert_require', current: 'path', target: {name: 'path', sources: {'@pkg': 'src/packages', '@packages': 'src/packages', '@vendor': './src/packages', '@libs': 'src/packages/'}}}]}",
        "{rules: [{rule: 'convert_require', current: 'path', target: {name: 'luau', aliases: {'@pkg': 'src/packages', '@packages': 'src/packages', '@vendor': './src/packages', '@sub': 'src/packages/sub', '@s2': 'src/packages/sub'}}}]}",
    ] {
        let mut seen: BTreeMap<String, usize> = BTreeMap::new();
        let runs = 24;
        for _ in 0..runs {
            n += 1;
            match process_memory_with(tree, config, "src", Some("out"), 0, None) {
                Ok((r, errors)) => {
                    let text = format!("{:?} {:?}", errors, r.get("out/main.lua").ok());
                    *seen.entry(text).or_insert(0) += 1;
                }
                Err(e) => {
                    *seen.entry(e).or_insert(0) += 1;
                }
            }
        }
        if seen.len() > 1 {
            violations.push(Violation {
                finding: None,
                summary: format!("{} identical runs wrote {} different outputs for src/main.lua: {:?}\n--- config {}", runs, seen.len(), seen, config),
                replay: json!({"kind": "alias choice", "config": config}),
            });
        }
    }
    (n, violations)
}

/// the output location lies inside the input, or the input does not exist
fn nested_output_cases() -> (u64, Vec<Violation>) {
    let mut n = 0;
    let mut violations = Vec::new();
    let config = "{generator: 'dense', rules: ['remove_comments']}";
    // a second identical run writes nothing new
    for (input, output) in [(".", "out"), ("./", "./out"), ("src", "src/out"), (".", "build/out")] {
        n += 1;
        let tree: &[(&str, &str)] = &[("src/a.lua", "-- comment\nreturn 'a'\n"), ("src/d/b.lua", "-- b\nreturn 'b'\n")];
        let first = match process_memory_with(tree, config, input, Some(output), 0, None) {
            Ok((r, e)) => (r, e),
            Err(e) => {
                violations.push(Violation { finding: None, summary: e, replay: json!({"kind": "nested output", "input": input, "output": output}) });
                continue;
            }
        };
        let after_first = snapshot(&first.0);
        let second = process_memory_with(&[], config, input, Some(output), 0, Some(first.0.clone()));
        let after_second = snapshot(&first.0);
        let mut problems = Vec::new();
        if !first.1.is_empty() {
            problems.push(format!("first run: errors {:?}", first.1));
        }
        match second {
            Ok((_, e)) if !e.is_empty() => problems.push(format!("second run: errors {:?}", e)),
            Err(e) => problems.push(e),
            _ => {}
        }
        if after_first != after_second {
            let new: Vec<&String> = after_second.keys().filter(|k| !after_first.contains_key(*k)).collect();
            let changed: Vec<&String> = after_first.keys().filter(|k| after_second.get(*k) != after_first.get(*k)).collect();
            problems.push(format!("the second identical run wrote new files {:?} and changed {:?}", new, changed));
        }
        if !problems.is_empty() {
            violations.push(Violation {
                finding: None,
                summary: format!("{}\n--- `process {} {}` run twice on {{src/a.lua, src/d/b.lua}}", problems.join("\n"), input, output),
                replay: json!({"kind": "nested output", "input": input, "output": output}),
            });
        }
    }
    // an input file below the output location is not overwritten by the output of another input
    {
        n += 1;
        let tree: &[(&str, &str)] = &[("src/x.lua", "-- top\nreturn 'top'\n"), ("src/sub/x.lua", "-- below\nreturn 'below'\n")];
        if let Ok((r, errors)) = process_memory_with(tree, config, "src", Some("src/sub"), 0, None) {
            let got = snapshot(&r);
            // either the layout is refused, or src/sub/x.lua holds the output of src/x.lua and nothing is derived from the old src/sub/x.lua
            let derived_from_below: Vec<&String> = got.iter().filter(|(k, v)| v.contains("below") && k.as_str() != "src/sub/x.lua").map(|(k, _)| k).collect();
            if errors.is_empty() && (!derived_from_below.is_empty() || got.get("src/sub/x.lua").map(|t| t.contains("below")).unwrap_or(false)) {
                violations.push(Violation {
                    finding: None,
                    summary: format!("`process src src/sub`: the input src/sub/x.lua lies in the output location, yet it was processed as an input (files derived from it: {:?}; src/sub/x.lua = {:?})", derived_from_below, got.get("src/sub/x.lua")),
                    replay: json!({"kind": "nested output", "input": "src", "output": "src/sub"}),
                });
            }
        }
    }
    // an input that does not exist is an error naming it
    for (input, output) in [("src/mian.lua", Some("out/main.lua")), ("src/mian.lua", None), ("scr", Some("out")), ("src/missing/", None)] {
        n += 1;
        let tree: &[(&str, &str)] = &[("src/main.lua", "return 1\n")];
        match process_memory_with(tree, config, input, output, 0, None) {
            Ok((_, errors)) => {
                let name = input.trim_end_matches('/');
                if !errors.iter().any(|e| e.contains(name)) {
                    violations.push(Violation {
                        finding: None,
                        summary: format!("the input {:?} does not exist, but the run reports {:?}", input, errors),
                        replay: json!({"kind": "missing input", "input": input, "output": output}),
                    });
                }
            }
            Err(e) => violations.push(Violation { finding: None, summary: e, replay: json!({"kind": "missing input", "input": input}) }),
        }
    }
    (n, violations)
}

/// real directory: destinations that cannot be written are reported with the file they belong to, and never counted as written
fn real_fs_write_failure_cases() -> (u64, Vec<Violation>) {
    use std::fs;
    let mut n = 0;
    let mut violations = Vec::new();
    // (a) the directory of two destinations is occupied by a regular file
    {
        n += 1;
        if let Ok(dir) = tempfile::tempdir() {
            let root = dir.path();
            let src = root.join("src");
            fs::create_dir_all(src.join("sub")).unwrap();
            fs::write(src.join("ok.lua"), "return 0\n").unwrap();
            fs::write(src.join("sub").join("one.lua"), "return 1\n").unwrap();
            fs::write(src.join("sub").join("two.lua"), "return 2\n").unwrap();
            fs::write(root.join("cfg.json5"), "{rules: []}").unwrap();
            let out = root.join("out");
            fs::create_dir_all(&out).unwrap();
            fs::write(out.join("sub"), "a regular file").unwrap();
            let resources = Resources::from_file_system();
            let options = Options::new(&src).with_configuration_at(root.join("cfg.json5")).with_output(&out);
            match guarded(move || darklua_core::process(&resources, options)) {
                Err(p) => violations.push(Violation { finding: None, summary: format!("PANIC: {}", p), replay: json!({"kind": "write failure", "case": "directory occupied"}) }),
                Ok(outcome) => {
                    let errors: Vec<String> = match &outcome {
                        Ok(tree) => tree.collect_errors().iter().map(|e| e.to_string()).collect(),
                        Err(e) => vec![format!("FATAL {}", e)],
                    };
                    let mut problems = Vec::new();
                    for name in ["one.lua", "two.lua"] {
                        if errors.iter().filter(|e| e.contains(name)).count() != 1 {
                            problems.push(format!("{} is not named by exactly one error", name));
                        }
                    }
                    if !out.join("ok.lua").exists() {
                        problems.push("ok.lua was not written".to_owned());
                    }
                    if !problems.is_empty() {
                        violations.push(Violation {
                            finding: None,
                            summary: format!("{}\n--- out/sub is a regular file, src/sub/one.lua and src/sub/two.lua cannot be written; errors: {:?}", problems.join("\n"), errors),
                            replay: json!({"kind": "write failure", "case": "directory occupied"}),
                        });
                    }
                }
            }
        }
    }
    // (b) a destination on a full device (a symbolic link to /dev/full): small and large files
    if std::path::Path::new("/dev/full").exists() {
        for size in [1usize, 20_000] {
            n += 1;
            if let Ok(dir) = tempfile::tempdir() {
                let root = dir.path();
                let src = root.join("src");
                fs::create_dir_all(&src).unwrap();
                fs::write(src.join("a.lua"), format!("return '{}'\n", "a".repeat(size))).unwrap();
                fs::write(src.join("b.lua"), "return 'b'\n").unwrap();
                fs::write(root.join("cfg.json5"), "{rules: []}").unwrap();
                let out = root.join("out");
                fs::create_dir_all(&out).unwrap();
                if std::os::unix::fs::symlink("/dev/full", out.join("a.lua")).is_err() {
                    continue;
                }
                let resources = Resources::from_file_system();
                let options = Options::new(&src).with_configuration_at(root.join("cfg.json5")).with_output(&out);
                match guarded(move || darklua_core::process(&resources, options)) {
                    Err(p) => violations.push(Violation { finding: None, summary: format!("PANIC: {}", p), replay: json!({"kind": "write failure", "case": "full device"}) }),
                    Ok(outcome) => {
                        let errors: Vec<String> = match &outcome {
                            Ok(tree) => tree.collect_errors().iter().map(|e| e.to_string()).collect(),
                            Err(e) => vec![format!("FATAL {}", e)],
                        };
                        if !errors.iter().any(|e| e.contains("a.lua")) {
                            violations.push(Violation {
                                finding: None,
                                summary: format!("out/a.lua is on a full device (no byte can be written), yet no error names a.lua ({} bytes of content); errors: {:?}", size, errors),
                                replay: json!({"kind": "write failure", "case": "full device", "size": size}),
                            });
                        }
                    }
                }
            }
        }
    }
    (n, violations)
}

pub fn run_check(tier: Tier) -> Report {
    let mut report = Report::new("C11", "fault_enumeration", tier);
    report.rule = "trees = every set of 1..3 (4 in thorough) Lua files over {a.lua, b.luau, d/c.lua, `d/e f.lua`, d.v2/g.lua, ü.lua} next to non-Lua files; EVERY assignment \
        of {healthy, syntax error, rule error (missing require under bundling)} to the files; fail-fast off/on; in place / existing output directory with a foreign file / new \
        output directory; EVERY enumeration order of the input walk (hook H1: all permutations of up to 5 entries, 120 beyond) and a repeated run. Oracle: one error naming \
        each faulty file, nothing written for it (in place: untouched), healthy outputs equal to the run where the faulty files are absent, inputs untouched when an output \
        is given, nothing else written, identical results across orders and repetitions. non-trivial = runs with at least one faulty file"
        .to_owned();
    report.assumptions = vec![
        "the exhaustive part runs on in-memory resources; invalid UTF-8, a directory named like a Lua file and a destination occupied by a directory are exercised once each on a temporary real directory".to_owned(),
        "hash-seed dependent orders other than the file walk are only exercised by the repeated run (sampled, not the deciding step)".to_owned(),
    ];
    let max_files = tier.pick(3, 4);
    let mut cases = Vec::new();
    let n = LUA_NAMES.len();
    for mask in 1u32..(1 << n) {
        let names: Vec<&'static str> = (0..n).filter(|k| mask & (1 << k) != 0).map(|k| LUA_NAMES[k]).collect();
        if names.len() > max_files {
            continue;
        }
        let k = names.len();
        for fm in 0..3usize.pow(k as u32) {
            let mut faults = Vec::new();
            let mut x = fm;
            for _ in 0..k {
                faults.push(match x % 3 {
                    0 => Fault::Healthy,
                    1 => Fault::Syntax,
                    _ => Fault::MissingRequire,
                });
                x /= 3;
            }
            for io in [Io::InPlace, Io::ExistingDir, Io::NewDir] {
                for fail_fast in [false, true] {
                    cases.push(Case { names: names.clone(), faults: faults.clone(), io, fail_fast });
                }
            }
        }
    }
    let results: Vec<(u64, Vec<Violation>)> = cases.par_iter().map(check_case).collect();
    for (c, (n, v)) in cases.iter().zip(results) {
        report.evaluations += n;
        if c.faults.iter().any(|f| *f != Fault::Healthy) {
            report.distinct_nontrivial += n;
        }
        report.violations.extend(v);
    }
    let (n, v) = file_level_cases();
    report.evaluations += n;
    report.distinct_nontrivial += n;
    report.violations.extend(v);
    report.set("file_input_cases", n);
    let (n, v) = real_fs_cases();
    report.evaluations += n;
    report.violations.extend(v);
    report.set("real_file_system_cases", n);
    let (n, v) = real_fs_exact_cases();
    report.evaluations += n;
    report.violations.extend(v);
    report.set("real_file_system_exact_rerun_cases", n);
    let (n, v) = input_shape_cases();
    report.evaluations += n;
    report.violations.extend(v);
    report.set("directory_spelling_cases", n);
    let (n, v) = content_shape_cases();
    report.evaluations += n;
    report.violations.extend(v);
    report.set("content_shape_cases", n);
    let (n, v) = isolation_cases();
    report.evaluations += n;
    report.distinct_nontrivial += n;
    report.violations.extend(v);
    report.set("isolation_cases", n);
    for (name, (n, v)) in [
        ("dependent_files_cases", dependent_files_cases()),
        ("alias_choice_cases", alias_choice_cases()),
        ("nested_output_and_missing_input_cases", nested_output_cases()),
        ("real_file_system_write_failure_cases", real_fs_write_failure_cases()),
    ] {
        report.evaluations += n;
        report.distinct_nontrivial += n;
        report.violations.extend(v);
        report.set(name, n);
    }
    report.set("cases", cases.len() as u64);
    report.sample(json!({"files": ["a.lua", "d/e f.lua"], "faults": ["Syntax", "Healthy"], "io": "ExistingDir", "fail_fast": false, "permutations": 120}));
    report
}
