//! C07 — Each Luau-lowering rule removes every occurrence of its construct (Engine A, inductive invariant).
use super::c06;
use crate::common::{Report, Tier, Violation};
use crate::dl::{self, Gen};
use crate::explore::pipeline::explore;
use crate::gen::luau as u;
use crate::luaref::ast::Census;
use crate::luaref::{parser, Mode};
use rayon::prelude::*;
use serde_json::json;

pub const RULES: &[(&str, &str)] = &[
    ("'remove_compound_assignment'", "compound_assign"),
    ("'remove_continue'", "continue_stat"),
    ("'remove_if_expression'", "if_expr"),
    ("'remove_interpolated_string'", "interp_string"),
    ("{rule:'remove_interpolated_string',strategy:'tostring'}", "interp_string"),
    ("'remove_floor_division'", "floor_div"),
    ("'convert_luau_number'", "luau_number"),
    ("'make_assignment_local'", "const_decl"),
    ("'remove_types'", "types"),
    ("'remove_attribute'", "attribute"),
];

fn get(c: &Census, field: &str) -> usize {
    match field {
        "compound_assign" => c.compound_assign,
        "continue_stat" => c.continue_stat,
        "if_expr" => c.if_expr,
        "interp_string" => c.interp_string,
        "floor_div" => c.floor_div,
        "luau_number" => c.luau_number,
        "const_decl" => c.const_decl,
        "types" => c.types,
        "attribute" => c.attribute,
        _ => unreachable!(),
    }
}

const FIELDS: &[&str] = &["compound_assign", "continue_stat", "if_expr", "interp_string", "floor_div", "luau_number", "const_decl", "types", "attribute"];

fn all_zero(c: &Census) -> bool {
    FIELDS.iter().all(|f| get(c, f) == 0)
}

/// constructs placed in every syntactic position the property lists, nested in themselves, inside typeof, etc.
pub fn position_programs() -> Vec<String> {
    let constructs: &[(&str, &str)] = &[
        ("if-expression", "(if x then 1 else 2)"),
        ("interpolated string", "`a{x}b`"),
        ("floor division", "(7 // 2)"),
        ("luau number", "0b11"),
        ("luau number", "1_0"),
        ("cast", "(x :: any)"),
        ("function with types", "(function(a: number): number return a end)(1)"),
        ("generic function", "(function<T, U...>(a: T, ...: U...): T return a end)(1)"),
        ("if-expression with constant conditions", "(if false then 1 elseif x then nil else 2)"),
        ("if-expression with falsy results", "(if t.z then 1 elseif x then false else 3)"),
        ("function with compound", "(function() local v = 1 v += 1 return v end)()"),
        ("function with continue", "(function() for i = 1, 2 do if i == 1 then continue end return i end end)()"),
        ("function with const", "(function() const c = 5 return c end)()"),
        ("attribute function", "(@native function() return 1 end)()"),
    ];
    let positions: &[&str] = &[
        "return @",
        "local function f() return @ end\nreturn f()",
        "return {@}",
        "return {k = @}",
        "return {[@] = 1}",
        "E1(@)",
        "E1(1, @)",
        "if @ then E1(1) end",
        "if nil then elseif @ then E1(1) end",
        "while @ do break end",
        "repeat until @",
        "repeat local z = 1 until @",
        "for i = @, 2 do E1(i) end",
        "for i = 1, @ do break end",
        "for i = 1, 2, @ do break end",
        "for k in EI(next), {}, @ do end",
        "for k in ipairs({@}) do E1(k) end",
        "local v = @\nreturn v",
        "local v: typeof(@) = 1\nreturn v",
        "type T = typeof(@)\nreturn 1",
        "local function f(a: typeof(@)) return a end\nreturn f(1)",
        "return (x :: typeof(@))",
        "t[@] = 1\nreturn 1",
        "t.k = @\nreturn t.k",
        "x, t.k = 1, @\nreturn x",
        "return t[@]",
        "return (@)",
        "return not @",
        "return @ == 1",
        "return 1 + @",
        "return EI(@) + EI(@)",
        "return if x then @ else 0",
        "return if @ then 1 else 0",
        "return `{@}`",
        "return `a{@}b{@}`",
        "return 1 // @",
        "t.k += @\nreturn t.k",
        "t[@] += 1\nreturn 1",
        "EI(t)[@] ..= \"s\"\nreturn 1",
        "do local z = @ end\nreturn 1",
        "return function() return @ end",
        "return (function(...) return @ end)(1)",
        "local o = {}\nfunction o:m() return @ end\nreturn o:m()",
        "local o = {}\nfunction o.f() return @ end\nreturn o.f()",
        "return EI(t):f(@)",
        "return EI(t):f<<typeof(@)>>(1)",
        "return EI<<typeof(@), number>>(1)",
        "EI(t):f<<{ typeof(@) }>> \"s\"\nreturn 1",
        // an instantiated prefix AND an instantiated method in one call
        "return t<<typeof(@)>>:f<<number>>(1)",
        "return t<<number>>:f<<typeof(@)>>(1)",
        "return EI(t<<number>>:f<<string>>(@))",
        "t<<number>>:f<<string>> {@}\nreturn 1",
        "return EI{@}",
        "const c = @\nreturn c",
        "for i = 1, 2 do if i == 1 then continue end E1(@) end\nreturn 1",
    ];
    let mut out = Vec::new();
    for (_, c) in constructs {
        for p in positions {
            out.push(format!("{}{}\n", u::LPRELUDE, p.replace('@', c)));
        }
    }
    // a lowered statement that ends with a parenthese the generator adds, before a statement that starts with one
    for s in [
        "local v = if x then 1 elseif t.z then 2 else 3\n(EI)(v)\nreturn v",
        "local v = if x then 1 elseif t.z then 2 else 3\n(EI)(t).k = v\nreturn t.k",
        "t.k = if x then nil else if t.z then 2 else 3\n(EI)(t.k)\nreturn t.k",
        "local a = 5\na -= x - 1\n(EI)(a)\nreturn a",
        "local a = 5\na /= x * 2\n(EI)(a)\nreturn a",
        "local a = 8\na //= x + 1\n(EI)(a)\nreturn a",
        "local a = 8\na = -if x then 1 else 2\n(EI)(a)\nreturn a",
        "repeat local z = 1 until if x then t.z else if t.z then 2 else 3\n(EI)(1)\nreturn 1",
        "local s = `{x}`\n(EI)(s)\nreturn s",
        // a type instantiation written over several lines
        "return EI<<\n  number\n>>(1)",
        "return EI(t):f<<\n  number,\n  string\n>>(1)",
        "EI<<number\n>>(1)\nreturn 1",
        "local v = (1 :: \n number)\nreturn v",
        "local function f<T>(\n  a: T\n): T\n  return a\nend\nreturn f<<\n  number>>(1)",
    ] {
        out.push(format!("{}{}\n", u::LPRELUDE, s));
    }
    // statements as constructs
    for s in [
        "x += 1",
        "x //= 2",
        "t.k ..= \"s\"",
        "const c = 1",
        "const function cf() return 1 end",
        "local v: number = 1",
        "type Q = number",
        "export type R<T> = {T}",
        "type function tf() end",
        "@native local function nf() end",
        "@native @deprecated function gf() end",
        "@deprecated function t.k2() end",
        "local function g<T>(a: T): T return a end",
    ] {
        for p in [
            "#S\nreturn 1",
            "do #S end\nreturn 1",
            "local function f() #S end\nreturn f()",
            "if x then #S end\nreturn 1",
            "if nil then else #S end\nreturn 1",
            "for i = 1, 1 do #S end\nreturn 1",
            "while true do #S break end\nreturn 1",
            "repeat #S until true\nreturn 1",
            "for i = 1, 2 do if i == 1 then continue end #S end\nreturn 1",
            "return function() #S end",
            "return {function() #S end}",
            "E1(function() #S end)\nreturn 1",
            "local o = {}\nfunction o:m() #S end\nreturn 1",
        ] {
            out.push(format!("{}{}\n", u::LPRELUDE, p.replace("#S", s)));
        }
    }
    out
}

/// thorough: every construct nested in the hole of every other construct, in every position
pub fn nested_position_programs() -> Vec<String> {
    let inner: &[&str] = &[
        "(if x then 1 else 2)",
        "`a{x}b`",
        "(7 // 2)",
        "0b11",
        "(x :: any)",
        "(function(a: number): number return a end)(1)",
        "(function<T>(a: T): T return a end)(1)",
        "(if false then 1 elseif x then nil else 2)",
        "(if t.z then 1 elseif x then false else 3)",
        "({E1()} and nil)",
        "({E1()} and 1)",
        "(function() local v = 1 v += 1 return v end)()",
        "(function() for i = 1, 2 do if i == 1 then continue end return i end end)()",
        "(function() const c = 5 return c end)()",
        "(@native function() return 1 end)()",
    ];
    let outer: &[&str] = &[
        "(if $ then 1 else 2)",
        "(if x then $ else 2)",
        "(if x then 1 elseif $ then 2 else $)",
        "`a{$}b`",
        "`{$}{$}`",
        "($ // 2)",
        "(2 // $)",
        "($ :: any)",
        "(function(a: number): number return $ end)(1)",
        "(function() local v = 1 v += $ return v end)()",
        "(function() local v = {} v[$] //= $ return v end)()",
        "(function() for i = 1, 2 do if i == $ then continue end return i end end)()",
        "(function() const c = $ return c end)()",
        "(@native function() return $ end)()",
    ];
    let positions: &[&str] = &[
        "return @",
        "return {[@] = @}",
        "E1(1, @)",
        "if nil then elseif @ then E1(1) end",
        "repeat local z = 1 until @",
        "for i = 1, @ do break end",
        "for k in EI(next), {}, @ do end",
        "local v: typeof(@) = 1\nreturn v",
        "return EI(t):f<<typeof(@)>>(1)",
        "t[@] += 1\nreturn 1",
        "return `{@}`",
        "local o = {}\nfunction o:m() return @ end\nreturn o:m()",
        "for i = 1, 2 do if i == 1 then continue end E1(@) end\nreturn 1",
    ];
    let mut out = Vec::new();
    for o in outer {
        for i in inner {
            let c = o.replace('$', i);
            for p in positions {
                out.push(format!("{}{}\n", u::LPRELUDE, p.replace('@', &c)));
            }
        }
    }
    out
}

struct SeedOut {
    states: u64,
    transitions: u64,
    closed: bool,
    strict_checked: u64,
    nontrivial: u64,
    violations: Vec<Violation>,
    skipped: bool,
    sample: serde_json::Value,
}

fn census_of(text: &str) -> Result<Census, String> {
    parser::parse(text.as_bytes(), Mode::Luau).map(|p| p.census).map_err(|e| e.to_string())
}

fn run_seed(code: &str, tier: Tier) -> SeedOut {
    let mut out = SeedOut {
        states: 0,
        transitions: 0,
        closed: true,
        strict_checked: 0,
        nontrivial: 0,
        violations: vec![],
        skipped: false,
        sample: json!(null),
    };
    for tokens in [true, false] {
        let rules: Vec<_> = RULES.iter().map(|(j, _)| dl::make_rule(j)).collect();
        let graph = match explore(code, tokens, &rules, tier.pick(10, 20), tier.pick(800, 5000)) {
            Ok(g) => g,
            Err(e) => {
                if e.starts_with("PANIC") {
                    out.violations.push(Violation { finding: None, summary: e, replay: json!({"seed": code}) });
                } else {
                    out.skipped = true;
                }
                return out;
            }
        };
        out.states += graph.nodes.len() as u64;
        out.transitions += graph.edges.len() as u64;
        out.closed &= graph.closed;
        let gens: &[Gen] = if tokens { &[Gen::Retain] } else { &[Gen::Dense(80), Gen::Readable(80)] };
        for gen in gens {
            // census of every state under this generator
            let mut texts = Vec::with_capacity(graph.nodes.len());
            let mut census: Vec<Option<Census>> = Vec::with_capacity(graph.nodes.len());
            for (idx, node) in graph.nodes.iter().enumerate() {
                let text = dl::generate(&node.block, code, *gen).unwrap_or_else(|e| e);
                match census_of(&text) {
                    Ok(c) => census.push(Some(c)),
                    Err(e) => {
                        let names: Vec<&str> = graph.path(idx).iter().map(|i| RULES[*i].0).collect();
                        out.violations.push(Violation {
                            finding: None,
                            summary: format!("output does not parse ({}): rules {:?} generator {}\n--- seed\n{}\n--- output\n{}", e, names, gen.name(), code, text),
                            replay: json!({"seed": code, "rules": names, "generator": gen.name(), "tokens": tokens}),
                        });
                        census.push(None);
                    }
                }
                texts.push(text);
            }
            if idx_sample(&out.sample) {
                out.sample = json!({"seed": code, "census_of_seed": format!("{:?}", census[0])});
            }
            for (from, ri, to) in &graph.edges {
                let (Some(cf), Some(ct)) = (&census[*from as usize], &census[*to as usize]) else { continue };
                let field = RULES[*ri as usize].1;
                if get(cf, field) > 0 {
                    out.nontrivial += 1;
                }
                let mut problem = None;
                if get(ct, field) != 0 {
                    problem = Some(format!("post-condition: {} `{}` left after {}", get(ct, field), field, RULES[*ri as usize].0));
                } else {
                    for f in FIELDS {
                        if get(cf, f) == 0 && get(ct, f) != 0 {
                            problem = Some(format!("re-introduction: `{}` appears after {} although absent before", f, RULES[*ri as usize].0));
                        }
                    }
                }
                if let Some(p) = problem {
                    let mut names: Vec<&str> = graph.path(*from as usize).iter().map(|i| RULES[*i].0).collect();
                    names.push(RULES[*ri as usize].0);
                    out.violations.push(Violation {
                        finding: None,
                        summary: format!(
                            "{}: rules {:?} generator {} tokens={}\n--- seed\n{}\n--- before\n{}\n--- after\n{}",
                            p,
                            names,
                            gen.name(),
                            tokens,
                            code.trim_end(),
                            texts[*from as usize].trim_end(),
                            texts[*to as usize].trim_end()
                        ),
                        replay: json!({"kind": "census", "seed": code, "rules": names, "generator": gen.name(), "tokens": tokens, "problem": p, "first_bad_rule": RULES[*ri as usize].0, "output": texts[*to as usize]}),
                    });
                }
            }
            for (idx, c) in census.iter().enumerate() {
                if let Some(c) = c {
                    if all_zero(c) {
                        out.strict_checked += 1;
                        if let Err(e) = parser::parse(texts[idx].as_bytes(), Mode::Lua51) {
                            let names: Vec<&str> = graph.path(idx).iter().map(|i| RULES[*i].0).collect();
                            out.violations.push(Violation {
                                finding: None,
                                summary: format!(
                                    "all constructs removed but the text is not strict Lua 5.1 ({}): rules {:?} generator {}\n--- seed\n{}\n--- output\n{}",
                                    e,
                                    names,
                                    gen.name(),
                                    code.trim_end(),
                                    texts[idx].trim_end()
                                ),
                                replay: json!({"kind": "census", "seed": code, "rules": names, "generator": gen.name(), "tokens": tokens, "output": texts[idx]}),
                            });
                        }
                    }
                }
            }
        }
    }
    out
}

fn idx_sample(v: &serde_json::Value) -> bool {
    v.is_null()
}

pub fn run(tier: Tier) -> Report {
    let mut report = Report::new("C07", "model_checking", tier);
    report.rule = "seeds = the C06 Luau fragments + every construct in every listed syntactic position (function bodies, table \
        constructors, call arguments, conditions, for headers, repeat conditions, typeof() in annotations, nested in another construct) + \
        attribute forms; BFS over the nine lowering rules and remove_attribute (10 labels) to closure; on every transition s -r-> s' the luaref \
        census of s' must have no occurrence of r's construct and no construct absent in s may appear in s'; every state with an all-zero census \
        must be accepted by the strict Lua 5.1 grammar of luaref; distinct_nontrivial = transitions whose source state still contained the \
        rule's construct"
        .to_owned();
    report.assumptions = vec![
        "the luaref parser's census defines what an occurrence of each construct is (`//=` counts as both compound assignment and floor division)".to_owned(),
        "remove_attribute is used without a `match` filter".to_owned(),
    ];
    let mut seeds: Vec<String> = c06::seeds(tier).into_iter().map(|s| s.code).collect();
    seeds.extend(position_programs());
    if tier == Tier::Thorough {
        seeds.extend(nested_position_programs());
    }
    let results: Vec<SeedOut> = seeds.par_iter().map(|s| run_seed(s, tier)).collect();
    let mut closed = 0u64;
    let n = results.len();
    for (i, r) in results.into_iter().enumerate() {
        if r.skipped {
            report.add("skipped_darklua_parse_error", 1);
            let mut list = report.extra.get("skipped_seeds").and_then(|v| v.as_array().cloned()).unwrap_or_default();
            if list.len() < 30 {
                list.push(json!(seeds[i]));
                report.set("skipped_seeds", list);
            }
            continue;
        }
        report.states += r.states;
        report.transitions += r.transitions;
        report.evaluations += r.transitions;
        report.add("strict_lua51_states_checked", r.strict_checked);
        report.distinct_nontrivial += r.nontrivial;
        if r.closed {
            closed += 1;
        }
        report.violations.extend(r.violations);
        if i % (n / 5 + 1) == 0 {
            report.sample(r.sample);
        }
    }
    report.traces_validated = report.transitions;
    report.set("seeds", seeds.len() as u64);
    report.set("closed_seeds", closed);
    report.exhaustive = closed as usize + report.extra.get("skipped_darklua_parse_error").and_then(|v| v.as_u64()).unwrap_or(0) as usize == seeds.len();
    report
}
