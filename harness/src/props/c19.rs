//! C19 — Configurations are read strictly and round-trip without loss (Engine C, deviation-bounded configurations).
use crate::common::{guarded, Report, Tier, Violation};
use darklua_core::{Configuration, Options, Resources};
use rayon::prelude::*;
use serde_json::json;

/// a probe project: every rule has something to do, in two directories so that filters separate files
const PROBE: &str = r#"--!strict
-- a comment c
--[[ long a b ]]
local unused = 1
local t = { k = 1, ["end"] = 2 }
local function lf(a: number, ...): number
    local x = a
    x += 1
    x //= 2
    if x == 1 then return x end
    for i = 1, 3 do
        if i == 2 then continue end
        print(i, `v{i}`, if i > 1 then "a" else "b")
    end
    do end
    while false do end
    return x
end
function gf() return t["k"] end
function t:method() return self end
assert(lf(1), "message")
debug.profilebegin("label")
local r = require("./dep.lua")
local pkg = require("@Pkg/dep")
print(pkg, G, _G.G, math.sqrt(4), t:method(), ("x"):rep(2), 0b11, 1_000, gf(), r)
const c = nil
@native local function nf() end
type T = number
return true and lf(2)
"#;

pub(crate) fn project() -> Vec<(&'static str, &'static str)> {
    vec![("src/a/x.lua", PROBE), ("src/b/y.luau", PROBE), ("src/a/dep.lua", "return 1\n"), ("src/b/dep.lua", "return 2\n"), (".luaurc", "{\"aliases\": {\"Pkg\": \"./src/a\"}}")]
}

fn behaviour(config: Configuration) -> Result<String, String> {
    let resources = Resources::from_memory();
    for (p, c) in project() {
        resources.write(p, c).map_err(|e| format!("{:?}", e))?;
    }
    let options = Options::new("src").with_output("out").with_configuration(config);
    let res = resources.clone();
    let tree = guarded(move || darklua_core::process(&res, options)).map_err(|p| format!("PANIC: {}", p))?;
    let mut out = String::new();
    match tree {
        Ok(tree) => {
            let mut errors: Vec<String> = tree.collect_errors().iter().map(|e| e.to_string()).collect();
            errors.sort();
            out.push_str(&format!("errors: {:?}\n", errors));
        }
        Err(e) => out.push_str(&format!("fatal: {}\n", e)),
    }
    for path in ["out/a/x.lua", "out/b/y.luau", "out/a/dep.lua", "out/b/dep.lua"] {
        out.push_str(&format!("== {}\n{}\n", path, resources.get(path).unwrap_or_else(|_| "<absent>".to_owned())));
    }
    Ok(out)
}

pub(crate) struct RuleMenu {
    pub(crate) name: &'static str,
    /// property fragments (without braces); the first is the default (no property)
    pub(crate) variants: Vec<&'static str>,
    /// fragments that must be rejected
    invalid: Vec<&'static str>,
    requires_properties: bool,
}

pub(crate) fn rule_menus() -> Vec<RuleMenu> {
    let plain = |name: &'static str| RuleMenu { name, variants: vec![""], invalid: vec!["extra: true", "rule_: 1"], requires_properties: false };
    let mut v = vec![
        RuleMenu {
            name: "append_text_comment",
            variants: vec!["text: 'hello'", "text: 'a\\nb'", "text: 'x', location: 'end'", "text: 'x', location: 'start'", "text: ''"],
            invalid: vec!["", "text: 'a', file: 'f.txt'", "text: 'a', location: 'middle'", "text: 'a', location: 1", "text: 1", "text: 'a', extra: 1", "txt: 'a'", "text: ['a']"],
            requires_properties: true,
        },
        RuleMenu {
            name: "convert_require",
            variants: vec![
                "current: 'path', target: 'luau'",
                "current: 'luau', target: 'path'",
                "current: {name: 'path', module_folder_name: 'index'}, target: 'luau'",
                "current: {name: 'path', sources: {src: './src'}}, target: {name: 'luau', aliases: {'@src': './src'}}",
                "current: 'path', target: {name: 'path', module_folder_name: 'index'}",
                "current: {name: 'luau', use_luau_configuration: false}, target: 'path'",
                "current: {name: 'path', use_luau_configuration: false}, target: 'luau'",
                "current: {name: 'path', use_luau_configuration: true}, target: 'luau'",
                "current: 'luau', target: {name: 'path', use_luau_configuration: false, module_folder_name: 'index'}",
                "current: 'path', target: 'roblox'",
                "current: 'path', target: {name: 'roblox', indexing_style: 'wait_for_child'}",
                "current: {name: 'roblox'}, target: 'path'",
            ],
            invalid: vec!["", "current: 'path'", "target: 'path'", "current: 'nope', target: 'path'", "current: 1, target: 'path'", "current: 'path', target: 'luau', extra: 1", "current: {name: 'path', unknown: 1}, target: 'luau'",
                // ill-typed modes: a number for the name, a list for the table
                "current: {name: 0}, target: {name: 2}", "current: [1], target: 'path'", "current: ['path', 'index', {}, false], target: 'luau'", "current: 'path', target: [1, false, {pkg: './Packages'}]",
                "current: 'path', target: {name: 'roblox', indexing_style: {name: 2}}", "current: 'path', target: {name: 'roblox', indexing_style: ['property']}", "current: 'path', target: {name: 'roblox', indexing_style: {name: 'property', extra: 1}}",
                "current: {name: 'path', name: 'luau'}, target: 'path'", "current: {name: 'path', sources: {pkg: './a', pkg: './b'}}, target: 'luau'", "current: 'path', target: {name: 'luau', aliases: {'@pkg': './a', '@pkg': './b'}}", "current: {name: 'path', module_folder_name: 'init', module_folder_name: 'index'}, target: 'luau'", "current: {}, target: 'path'", "current: {name: null}, target: 'path'", "current: {name: 'Path'}, target: 'luau'"],
            requires_properties: true,
        },
        RuleMenu {
            name: "inject_global_value",
            variants: vec!["identifier: 'G'", "identifier: 'G', value: true", "identifier: 'G', value: false", "identifier: 'G', value: 0", "identifier: 'G', value: 1.5", "identifier: 'G', value: 's'", "identifier: 'G', value: [1, 2]", "identifier: 'G', value: {a: 1}", "identifier: 'G', value: null", "identifier: 'H', value: 1", "identifier: 'G', value: Infinity", "identifier: 'G', value: -Infinity", "identifier: 'G', value: NaN", "identifier: 'G', value: [Infinity, 1]", "identifier: 'G', value: [null, 1]", "identifier: 'G', value: {a: NaN}", "identifier: 'G', value: {a: null}", "identifier: 'G', value: -1", "identifier: 'G', value: 1e300", "identifier: 'G', value: 1e20", "identifier: 'G', value: [1e20]", "identifier: 'G', value: 9007199254740993", "identifier: 'G', value: 18446744073709551615", "identifier: 'G', value: 0.5", "identifier: 'G', value: -2.5e-3"],
            invalid: vec!["", "value: 1", "identifier: 1", "identifier: 'G', default_value: 5", "identifier: 'G', default_value: null", "identifier: 'G', value: 1, env: 'X'", "identifier: 'G', value: 1, default_value: 2", "identifier: 'G', env: 'X', env_json: 'Y'", "identifier: 'G', value: 1, env_json: 'Y'", "identifier: 'G', env: 'X', env_json: 'Y', default_value: 1", "identifier: 'G', extra: 1", "identifer: 'G'"],
            requires_properties: true,
        },
        RuleMenu { name: "remove_assertions", variants: vec!["", "preserve_arguments_side_effects: false", "preserve_arguments_side_effects: true"], invalid: vec!["preserve_arguments_side_effects: 'yes'", "preserve_arguments_side_effects: 1", "preserve: true"], requires_properties: false },
        RuleMenu { name: "remove_debug_profiling", variants: vec!["", "preserve_arguments_side_effects: false"], invalid: vec!["preserve_arguments_side_effects: 'no'", "x: 1"], requires_properties: false },
        RuleMenu { name: "remove_attribute", variants: vec!["", "match: ['^native$']", "match: ['a', 'b']", "match: ['deprecated']", "match: []"], invalid: vec!["match: ['(']", "match: 'native'", "match: [1]", "matches: ['a']"], requires_properties: false },
        RuleMenu { name: "remove_comments", variants: vec!["", "except: ['^--!']", "except: ['c']", "except: ['^--!', 'long']", "except: []", "except: ['']", "except: ['^--!', '']"], invalid: vec!["except: ['^[0-9']", "except: 'c'", "except: [1]", "excepts: ['a']"], requires_properties: false },
        RuleMenu { name: "remove_interpolated_string", variants: vec!["", "strategy: 'string'", "strategy: 'tostring'"], invalid: vec!["strategy: 'format'", "strategy: 1", "strat: 'string'"], requires_properties: false },
        RuleMenu {
            name: "rename_variables",
            variants: vec!["", "globals: ['$default']", "globals: []", "globals: ['a']", "globals: ['$default', 'b']", "globals: ['$roblox']", "include_functions: true", "include_functions: false", "detect_globals: false", "globals: ['x'], include_functions: true"],
            invalid: vec!["globals: 'a'", "globals: [1]", "include_functions: 'yes'", "include_function: true", "globals: ['$unknown']"],
            requires_properties: false,
        },
    ];
    for name in [
        "compute_expression", "convert_function_to_assignment", "convert_index_to_field", "convert_local_function_to_assign", "convert_luau_number",
        "convert_square_root_call", "filter_after_early_return", "group_local_assignment", "make_assignment_local", "remove_compound_assignment",
        "remove_empty_do", "remove_floor_division", "remove_function_call_parens", "remove_method_call", "remove_method_definition",
        "remove_nil_declaration", "remove_spaces", "remove_types", "remove_unused_if_branch", "remove_unused_variable", "remove_unused_while",
        "remove_if_expression", "remove_continue",
    ] {
        v.push(plain(name));
    }
    v
}

const FILTERS: &[&str] = &[
    "",
    "apply_to_files: '**/a/*'",
    "apply_to_files: ['**/a/*']",
    "apply_to_files: ['**/a/*', '**/*.luau']",
    "skip_files: '**/a/*'",
    "skip_files: ['**/a/*']",
    "skip_files: ['nothing', '**/a/*']",
    "apply_to_files: 'src/**', skip_files: '**/b/*'",
    "apply_to_files: 'src/**', skip_files: ['nothing', '**/b/*']",
    "apply_to_files: ['src/**'], skip_files: ['nothing', 'other', '**/x.lua']",
    "apply_to_files: ['src/a/**', 'src/b/**'], skip_files: '**/x.lua'",
    "apply_to_files: ['nothing', 'src/a/**'], skip_files: ['nothing', '**/x.lua']",
    "apply_to_files: ['src/a/**'], skip_files: ['**/x.lua']",
];
const INVALID_FILTERS: &[&str] = &["apply_to_files: '[a'", "skip_files: 1", "apply_to_files: {a: 1}", "skip_files: [1]", "apply_to_file: '**'"];

const TOP_LEVELS: &[&str] = &[
    "rules: [#RULE#]",
    "process: [#RULE#]",
    "rules: ['remove_empty_do', #RULE#]",
    "rules: [#RULE#, 'remove_unused_while']",
    "rules: [#RULE#], generator: 'dense'",
    "rules: [#RULE#], generator: 'readable'",
    "rules: [#RULE#], generator: 'retain_lines'",
    "rules: [#RULE#], generator: 'retain-lines'",
    "rules: [#RULE#], generator: {name: 'dense', column_span: 20}",
    "rules: [#RULE#], generator: {name: 'readable', column_span: 1}",
    "rules: [#RULE#], generator: {name: 'dense'}",
    "rules: [#RULE#], bundle: {require_mode: 'path'}",
    "rules: [#RULE#], bundle: {require_mode: {name: 'path', module_folder_name: 'index'}, modules_identifier: '__M', excludes: ['@lune/**']}",
    "rules: [#RULE#], bundle: {require_mode: 'luau'}",
    "rules: [#RULE#], bundle: {require_mode: {name: 'path', use_luau_configuration: false}}",
    "rules: [#RULE#], bundle: {require_mode: {name: 'path', use_luau_configuration: true}}",
    "rules: [#RULE#], bundle: {require_mode: {name: 'path', sources: {Pkg: './src/b'}, use_luau_configuration: false}}",
    "rules: [#RULE#], bundle: {require_mode: {name: 'luau', use_luau_configuration: false}}",
    "rules: [#RULE#], bundle: {require_mode: {name: 'luau', aliases: {'@Pkg': './src/b'}, use_luau_configuration: false}}",
    "rules: [#RULE#], bundle: {require_mode: 'path', modules_identifier: '__X'}",
    "rules: [#RULE#], bundle: {require_mode: 'path', excludes: ['@Pkg/**']}",
    "rules: [#RULE#], bundle: {require_mode: 'path', excludes: ['@Pkg/**', './dep.lua']}",
    "rules: [#RULE#], apply_to_files: '**/a/*'",
    "rules: [#RULE#], skip_files: ['**/b/*', '**/x.lua']",
    "rules: [#RULE#], apply_to_files: ['src/**'], skip_files: '**/b/*'",
    // an empty rule list is not the default rule list
    "rules: []",
    "rules: [], generator: 'dense'",
    "rules: [], bundle: {require_mode: 'path'}",
];
const INVALID_TOP_LEVELS: &[&str] = &[
    "rules: [#RULE#], unknown: 1",
    "rule: [#RULE#]",
    "rules: [#RULE#], generator: 'fast'",
    "rules: [#RULE#], generator: {name: 'dense', column: 1}",
    "rules: [#RULE#], generator: {name: 'dense', column_span: 'a'}",
    "rules: [#RULE#], generator: 1",
    "rules: [#RULE#], bundle: {}",
    "rules: [#RULE#], bundle: {require_mode: 'path', unknown: 1}",
    "rules: [#RULE#], bundle: {require_mode: 'nope'}",
    "rules: [#RULE#], bundle: {require_mode: 'path', excludes: 'a'}",
    "rules: [#RULE#], bundle: {require_mode: 'path', excludes: ['**/{secrets']}",
    "rules: [#RULE#], bundle: {require_mode: {name: 'path', sources: {pkg: './src/a', pkg: './src/b'}}}",
    "rules: [#RULE#], bundle: {require_mode: {name: 'luau', aliases: {'@pkg': './src/a', '@pkg': './src/b'}}}",
    "rules: [#RULE#], generator: {name: 'retain_lines', column_span: 40}",
    "rules: [#RULE#], generator: {name: 'retain_lines', bogus: true}",
    "rules: [#RULE#], generator: {name: 'readable', column_span: 40, bogus: true}",
    "rules: [#RULE#], apply_to_files: 1",
    "rules: [#RULE#], skip_files: '[a'",
    "rules: #RULE#",
    "rules: [#RULE#], rules: [#RULE#]",
    "rules: {a: #RULE#}",
];

pub(crate) fn rule_text(name: &str, props: &str, filter: &str) -> Vec<String> {
    let mut forms = Vec::new();
    let parts: Vec<&str> = [props, filter].iter().filter(|s| !s.is_empty()).cloned().collect();
    if parts.is_empty() {
        forms.push(format!("'{}'", name));
        forms.push(format!("{{rule: '{}'}}", name));
    } else {
        forms.push(format!("{{rule: '{}', {}}}", name, parts.join(", ")));
    }
    forms
}

enum Check {
    Valid(String),
    Invalid(String),
}

fn check_valid(text: &str, info: &std::sync::Mutex<Vec<(String, u128, String)>>) -> (bool, Option<Violation>) {
    let parsed = match guarded(|| json5::from_str::<Configuration>(text)) {
        Err(p) => return (false, Some(Violation { finding: None, summary: format!("PANIC reading configuration {}: {}", text, p), replay: json!({"config": text}) })),
        Ok(Err(e)) => {
            return (false, Some(Violation { finding: None, summary: format!("a valid configuration is rejected: {}\n{}", e, text), replay: json!({"kind": "config valid", "config": text, "error": e.to_string()}) }));
        }
        Ok(Ok(c)) => c,
    };
    let s = match serde_json::to_string(&parsed) {
        Ok(s) => s,
        Err(e) => return (false, Some(Violation { finding: None, summary: format!("configuration cannot be serialized: {}\n{}", e, text), replay: json!({"config": text}) })),
    };
    let problem: Option<String> = match json5::from_str::<Configuration>(&s) {
        Err(e) => Some(format!("the serialized configuration cannot be read back: {}", e)),
        Ok(c2) => {
            let s2 = serde_json::to_string(&c2).unwrap_or_default();
            if canonical(&s2) != canonical(&s) {
                Some(format!("serialization is not stable: {} -> {}", s, s2))
            } else {
                let b1 = behaviour(parsed);
                let b2 = behaviour(c2);
                match (b1, b2) {
                    (Ok(a), Ok(b)) if a == b => {
                        info.lock().unwrap().push((canonical(&s).to_string(), crate::common::hash128(&a), text.to_owned()));
                        None
                    }
                    (Ok(a), Ok(b)) => {
                        let diff = a.lines().zip(b.lines()).find(|(x, y)| x != y).map(|(x, y)| format!("{:?} vs {:?}", x, y)).unwrap_or_else(|| "length".to_owned());
                        Some(format!("the configuration read back from its serialization behaves differently (first difference: {})", diff))
                    }
                    (Err(e), _) | (_, Err(e)) => Some(e),
                }
            }
        }
    };
    // the same round trip through JSON5, the language the configuration files are written in (it has spellings for the
    // numbers JSON has not)
    let json5_problem: Option<String> = match guarded(|| json5::from_str::<Configuration>(text)) {
        Ok(Ok(again)) => match json5::to_string(&again) {
            Err(e) => Some(format!("the configuration cannot be serialized as JSON5: {}", e)),
            Ok(s5) => match guarded(|| json5::from_str::<Configuration>(&s5)) {
                Ok(Ok(c5)) => match (behaviour(again), behaviour(c5)) {
                    (Ok(a), Ok(b)) if a == b => None,
                    (Ok(a), Ok(b)) => {
                        let diff = a.lines().zip(b.lines()).find(|(x, y)| x != y).map(|(x, y)| format!("{:?} vs {:?}", x, y)).unwrap_or_else(|| "length".to_owned());
                        Some(format!("the configuration read back from its JSON5 serialization behaves differently (first difference: {})\n--- JSON5 text {}", diff, s5))
                    }
                    (Err(e), _) | (_, Err(e)) => Some(e),
                },
                // the json5 crate writes a float without fraction as all its digits (1e20: 21 digits, 1e300: 301 digits); its
                // reader gives an integer beyond 64 bits as u128 (which serde's buffer for untagged enums cannot hold) and
                // refuses integers beyond 128 bits: a defect of that crate's writer/reader pair, not of darklua's configuration types
                Ok(Err(e)) if e.to_string().contains("number too large to fit in target type") || e.to_string().contains("as u128") => None,
                Ok(Err(e)) => Some(format!("the JSON5 serialization cannot be read back: {}\n--- JSON5 text {}", e, s5)),
                Err(p) => Some(format!("PANIC reading the JSON5 serialization: {}", p)),
            },
        },
        _ => None,
    };
    let non_finite = text.contains("Infinity") || text.contains("NaN") || text.contains("1e400");
    let convert_default = text.contains("current: 'path', target: 'roblox'");
    let mut violations: Vec<Violation> = Vec::new();
    if let Some(pb) = &json5_problem {
        // the same pinned serialization of ConvertRequire::default()
        let finding = if pb.contains("cannot be read back: missing required field 'current'") && convert_default { Some("default-convert-require-serializes-as-unreadable-name".to_owned()) } else { None };
        violations.push(Violation { finding, summary: format!("{}\n--- configuration {}", pb, text), replay: json!({"kind": "config round trip (JSON5)", "config": text, "problem": pb}) });
    }
    if let Some(pb) = &problem {
        violations.push(Violation {
            // ConvertRequire::default() (current: path, target: roblox) is pinned by a snapshot test to serialize as the bare name
            finding: if pb.contains("cannot be read back: missing required field 'current'") && convert_default {
                Some("default-convert-require-serializes-as-unreadable-name".to_owned())
            } else if non_finite && json5_problem.is_none() && pb.contains("behaves differently") && s.contains("null") {
                // JSON has no spelling for Infinity and NaN: serde_json writes `null`. Attributed only when the configuration
                // holds such a number, its JSON text holds `null`, and the JSON5 round trip keeps the behaviour
                Some("non-finite-number-of-a-rule-property-is-written-null-in-json".to_owned())
            } else {
                None
            },
            summary: format!("{}\n--- configuration {}\n--- serialized    {}", pb, text, s),
            replay: json!({"kind": "config round trip", "config": text, "serialized": s, "problem": pb}),
        });
    }
    let first = violations.pop();
    // (one violation per configuration is reported: the JSON one when both fail)
    match first {
        None => (s != "{}", None),
        Some(v) => (true, Some(v)),
    }
}

/// `bundle.excludes` is a set: its serialization order is not significant
fn canonical(serialized: &str) -> serde_json::Value {
    let mut v: serde_json::Value = serde_json::from_str(serialized).unwrap_or(serde_json::Value::Null);
    if let Some(list) = v.get_mut("bundle").and_then(|b| b.get_mut("excludes")).and_then(|e| e.as_array_mut()) {
        list.sort_by_key(|x| x.to_string());
    }
    v
}

fn check_invalid(text: &str) -> Option<Violation> {
    match guarded(|| json5::from_str::<Configuration>(text)) {
        Err(p) => Some(Violation { finding: None, summary: format!("PANIC reading configuration {}: {}", text, p), replay: json!({"config": text}) }),
        Ok(Err(_)) => None,
        Ok(Ok(c)) => {
            let read_as = serde_json::to_string(&c).unwrap_or_default();
            // accepted when read: processing with it must then report the error for every file
            let outcome = behaviour(c).unwrap_or_else(|e| e);
            let first_line = outcome.lines().next().unwrap_or("");
            let refused = first_line.starts_with("fatal:") || (first_line.starts_with("errors: [") && first_line != "errors: []" && outcome.contains("<absent>") && !outcome.contains("== out/a/x.lua\n--"));
            if refused && !outcome.contains("PANIC") {
                None
            } else {
                // known finding: a generator without parameters (`retain_lines`) ignores any other key. Attributed only when
                // the configuration is read exactly as the same text without that key (and the text without it is valid)
                let mut finding = None;
                if let Some(start) = text.find("generator: {name: 'retain_lines', ") {
                    let after = start + "generator: {name: 'retain_lines'".len();
                    if let Some(end) = text[after..].find('}') {
                        let without = format!("{}{}", &text[..after], &text[after + end..]);
                        if let Ok(Ok(c2)) = guarded(|| json5::from_str::<Configuration>(&without)) {
                            if serde_json::to_string(&c2).unwrap_or_default() == read_as {
                                finding = Some("unknown-property-of-a-parameterless-generator-is-ignored".to_owned());
                            }
                        }
                    }
                }
                Some(Violation {
                    finding,
                    summary: format!("an invalid configuration is accepted (read as {}; processing with it: {})\n{}", read_as, first_line, text),
                    replay: json!({"kind": "config strictness", "config": text}),
                })
            }
        }
    }
}

pub fn run(tier: Tier) -> Report {
    let mut report = Report::new("C19", "exploration", tier);
    report.rule = "valid side: each of the 32 rule names in string and object form x each documented property at default and non-default values x 7 filter \
        shapes (none / apply string / apply list / skip string / skip list / both) x 17 top-level shapes (rules/process alias, neighbours in the pipeline, \
        every generator form, bundle forms, top-level filters); one deviation from the base configuration at a time (rule property x filter on the plain top \
        level; every rule variant x top-level shape); thorough adds every ordered pair of rule variants as one pipeline. Oracle: json5 text accepted => serde_json::to_string(c) and json5::to_string(c) are \
        readable again, stable, and the re-read configuration produces byte-identical outputs and errors on a probe project (two directories, one file per \
        extension, every rule has work to do). invalid side: every single-field corruption (misspelt key, wrong-typed value, unknown value, duplicate key, \
        contradictory pair, extra property on parameterless rules, invalid glob/regex, missing required property) must be rejected. non-trivial = \
        configurations whose serialization is not the empty object"
        .to_owned();
    report.assumptions = vec![
        "property menus are transcribed from site/content/rules/*.md; every accepted configuration is serialized twice, with serde_json::to_string and with json5::to_string (the text the worker hashes to detect changes), and each text is read back and its behaviour compared".to_owned(),
        "a float of 2^64 or more without fraction (1e20, 1e300) is written by the json5 crate as all its digits, which the same crate reads as a 128-bit integer or refuses: that failure of the third-party writer/reader pair is not judged (the JSON round trip of the same configuration is)".to_owned(),
    ];
    let menus = rule_menus();
    let mut checks: Vec<Check> = Vec::new();
    let wrap = |top: &str, rule: &str| format!("{{{}}}", top.replace("#RULE#", rule));
    for m in &menus {
        for (vi, props) in m.variants.iter().enumerate() {
            if m.requires_properties && props.is_empty() {
                continue;
            }
            for (fi, filter) in FILTERS.iter().enumerate() {
                for rule in rule_text(m.name, props, filter) {
                    // plain top level with every filter; every top level without filter (pairs in thorough)
                    checks.push(Check::Valid(wrap(TOP_LEVELS[0], &rule)));
                    if fi == 0 || true {
                        for top in &TOP_LEVELS[1..] {
                            if vi == 0 || fi == 0 || true {
                                checks.push(Check::Valid(wrap(top, &rule)));
                            }
                        }
                    }
                }
            }
            // invalid filters on a valid rule
            for filter in INVALID_FILTERS {
                for rule in rule_text(m.name, props, filter) {
                    checks.push(Check::Invalid(wrap(TOP_LEVELS[0], &rule)));
                }
            }
            // invalid top levels around a valid rule
            if vi == 0 || true {
                for rule in rule_text(m.name, props, "") {
                    for top in INVALID_TOP_LEVELS {
                        checks.push(Check::Invalid(wrap(top, &rule)));
                    }
                }
            }
        }
        for props in &m.invalid {
            if props.is_empty() {
                checks.push(Check::Invalid(wrap(TOP_LEVELS[0], &format!("'{}'", m.name))));
                checks.push(Check::Invalid(wrap(TOP_LEVELS[0], &format!("{{rule: '{}'}}", m.name))));
            } else {
                checks.push(Check::Invalid(wrap(TOP_LEVELS[0], &format!("{{rule: '{}', {}}}", m.name, props))));
            }
        }
        // duplicate keys
        if let Some(p) = m.variants.iter().find(|p| !p.is_empty()) {
            checks.push(Check::Invalid(wrap(TOP_LEVELS[0], &format!("{{rule: '{}', rule: '{}', {}}}", m.name, m.name, p))));
            checks.push(Check::Invalid(wrap(TOP_LEVELS[0], &format!("{{rule: '{}', {}, apply_to_files: 'a', apply_to_files: 'b'}}", m.name, p))));
        }
    }
    // thorough: every ordered pair of rule variants (object form, no filter) as one pipeline - the reading of one rule must
    // not depend on its neighbour, and the serialization of the pair must keep both
    if tier == Tier::Thorough {
        let singles: Vec<String> = menus.iter().flat_map(|m| m.variants.iter().filter(|p| !(m.requires_properties && p.is_empty())).filter_map(|p| rule_text(m.name, p, "").pop())).collect();
        for a in &singles {
            for b in &singles {
                checks.push(Check::Valid(wrap(TOP_LEVELS[0], &format!("{}, {}", a, b))));
            }
        }
    }
    for bad in ["'unknown_rule'", "{rule: 'unknown_rule'}", "{}", "1", "null", "['remove_spaces']", "{rule: 1}", "{rules: 'remove_spaces'}", "'Remove_Spaces'", "''"] {
        checks.push(Check::Invalid(wrap(TOP_LEVELS[0], bad)));
    }
    for bad in ["", "[]", "1", "'rules'", "{rules: [], rules: []}", "{\"rules\": [],}x"] {
        checks.push(Check::Invalid(bad.to_owned()));
    }
    let info = std::sync::Mutex::new(Vec::new());
    let results: Vec<(bool, Option<Violation>)> = checks
        .par_iter()
        .map(|c| match c {
            Check::Valid(t) => check_valid(t, &info),
            Check::Invalid(t) => (true, check_invalid(t)),
        })
        .collect();
    let mut valid = 0u64;
    let mut invalid = 0u64;
    for (c, (nt, v)) in checks.iter().zip(results) {
        report.evaluations += 1;
        match c {
            Check::Valid(_) => valid += 1,
            Check::Invalid(_) => invalid += 1,
        }
        if nt {
            report.distinct_nontrivial += 1;
        }
        if let Some(v) = v {
            report.violations.push(v);
        }
    }
    // injectivity: two accepted configurations that behave differently must not share a serialization
    let mut by_serialization: std::collections::HashMap<String, (u128, String)> = std::collections::HashMap::new();
    let mut groups = 0u64;
    let mut infos = info.into_inner().unwrap();
    infos.sort();
    for (ser, behaviour_hash, text) in infos {
        match by_serialization.get(&ser) {
            None => {
                groups += 1;
                by_serialization.insert(ser, (behaviour_hash, text));
            }
            Some((h, other)) => {
                if *h != behaviour_hash {
                    report.violations.push(Violation {
                        finding: None,
                        summary: format!("two configurations that behave differently share one serialization {}\n  {}\n  {}", ser, other, text),
                        replay: json!({"kind": "config injectivity", "serialized": ser, "a": other, "b": text}),
                    });
                }
            }
        }
    }
    report.set("distinct_serializations", groups);
    report.set("valid_configurations", valid);
    report.set("invalid_configurations", invalid);
    for i in [0, checks.len() / 4, checks.len() / 2, 3 * checks.len() / 4, checks.len() - 1] {
        report.sample(json!(match &checks[i] {
            Check::Valid(t) => format!("valid: {}", t),
            Check::Invalid(t) => format!("invalid: {}", t),
        }));
    }
    report
}
