//! Shared driver for the behavioural Engine-A properties (C01, C06, C16, C17):
//! BFS over the rule-pipeline graph from every seed; every reachable state is generated with every
//! generator and must behave like the seed under the reference interpreter.
use crate::common::{Report, Tier, Violation};
use crate::dl::{self, Gen};
use crate::explore::pipeline::{self, explore};
use crate::luaref::interp::Interp;
use crate::luaref::{self, Mode, Observation, Outcome};
use rayon::prelude::*;
use serde_json::json;
use std::collections::HashMap;

pub struct Seed {
    pub code: String,
    pub family: &'static str,
}

pub type Env = std::sync::Arc<dyn Fn(&mut Interp) + Send + Sync>;

pub fn env_none() -> Env {
    std::sync::Arc::new(|_: &mut Interp| {})
}

pub type Classifier = std::sync::Arc<dyn Fn(&FailCtx) -> Option<String> + Send + Sync>;

pub struct FailCtx<'a> {
    pub seed: &'a str,
    pub rule_names: Vec<String>,
    pub first_bad_rule: Option<String>,
    /// dense rendering of the state just before the first bad transition
    pub pre_text: Option<String>,
    pub output: &'a str,
    pub expected: &'a Observation,
    pub actual: &'a Observation,
    pub gen: Gen,
    pub env_out: &'a Env,
    pub fuel: i64,
}

pub struct Spec {
    pub property: &'static str,
    pub seeds: Vec<Seed>,
    pub rule_jsons: Vec<String>,
    pub max_depth: usize,
    pub max_states: usize,
    pub env_seed: Env,
    pub env_out: Env,
    pub classify: Classifier,
    /// additionally run the canonical configuration end to end through darklua_core::process and compare bytes
    pub bind_default_config: Option<String>,
    pub extra_gens: Vec<Gen>,
    /// false when the untransformed seed is not expected to satisfy the oracle (modified-environment oracles)
    pub judge_root: bool,
}

#[derive(Default)]
struct SeedResult {
    judged: bool,
    skipped: Option<&'static str>,
    states: u64,
    transitions: u64,
    closed: u64,
    graphs: u64,
    max_depth: usize,
    nontrivial: u64,
    evaluations: u64,
    traces: u64,
    rule_errors: u64,
    violations: Vec<Violation>,
    outcomes: Vec<u64>,
    sample: Option<serde_json::Value>,
}


fn first_bad<'a>(
    graph: &pipeline::Graph,
    idx: usize,
    bad: &dyn Fn(usize) -> bool,
) -> Option<(usize, usize)> {
    // walk from the root along the path; return (state before, rule index) of the first bad transition
    let path = graph.path(idx);
    let mut chain = vec![idx];
    let mut cur = idx;
    while let Some((p, _)) = graph.nodes[cur].parent {
        chain.push(p as usize);
        cur = p as usize;
    }
    chain.reverse();
    for (i, st) in chain.iter().enumerate().skip(1) {
        if bad(*st) {
            return Some((chain[i - 1], path[i - 1]));
        }
    }
    None
}

fn run_seed(spec: &Spec, seed: &Seed, gens_tokens: &[Gen], gens_plain: &[Gen]) -> SeedResult {
    let mut r = SeedResult::default();
    let obs0 = luaref::observe(&seed.code, Mode::Luau, luaref::DEFAULT_FUEL, &*spec.env_seed);
    match &obs0.outcome {
        Outcome::Returned(_) => {}
        Outcome::Error(_) => {
            r.skipped = Some("skipped_original_errors");
            return r;
        }
        Outcome::NoTermination => {
            r.skipped = Some("skipped_original_diverges");
            return r;
        }
        Outcome::Poison(_) => {
            r.skipped = Some("skipped_unspecified");
            return r;
        }
        Outcome::ParseError(_) => {
            r.skipped = Some("skipped_reference_parse_error");
            return r;
        }
    }
    r.judged = true;
    let fuel = obs0.fuel_used * 50 + 2000;
    let mut cache: HashMap<String, Observation> = HashMap::new();
    let mut outcome_set = std::collections::HashSet::new();
    for tokens in [true, false] {
        let rules: Vec<_> = spec.rule_jsons.iter().map(|j| dl::make_rule(j)).collect();
        let graph = match explore(&seed.code, tokens, &rules, spec.max_depth, spec.max_states) {
            Ok(g) => g,
            Err(e) => {
                if e.starts_with("PANIC") {
                    r.violations.push(Violation {
                        finding: None,
                        summary: format!("{} on seed", e),
                        replay: json!({"seed": seed.code, "tokens": tokens}),
                    });
                } else {
                    r.skipped = Some("skipped_darklua_parse_error");
                    r.judged = false;
                }
                return r;
            }
        };
        r.graphs += 1;
        r.states += graph.nodes.len() as u64;
        r.transitions += graph.edges.len() as u64;
        r.rule_errors += graph.rule_errors as u64;
        if graph.closed {
            r.closed += 1;
        }
        r.max_depth = r.max_depth.max(graph.max_depth);
        r.nontrivial += (graph.nodes.len() - 1) as u64;
        for (path, msg) in &graph.panics {
            let names: Vec<String> = path.iter().map(|i| spec.rule_jsons[*i].clone()).collect();
            r.violations.push(Violation {
                finding: None,
                summary: format!("{} after rules {:?}", msg, names),
                replay: json!({"seed": seed.code, "tokens": tokens, "rules": names}),
            });
        }
        let gens = if tokens { gens_tokens } else { gens_plain };
        // judge every state
        let mut state_bad: Vec<Option<(Gen, String, Observation)>> = Vec::with_capacity(graph.nodes.len());
        for (node_idx, node) in graph.nodes.iter().enumerate() {
            let mut bad = None;
            // the seed itself is an *output* when some rule application maps a state back to it (a no-op rule)
            if node_idx == 0 && !spec.judge_root && !graph.edges.iter().any(|e| e.2 == 0) {
                state_bad.push(None);
                continue;
            }
            for gen in gens {
                r.evaluations += 1;
                let text = match dl::generate(&node.block, &seed.code, *gen) {
                    Ok(t) => t,
                    Err(e) => {
                        bad = Some((*gen, String::new(), Observation { outcome: Outcome::Error(e), log: vec![], fuel_used: 0 }));
                        break;
                    }
                };
                let obs = cache
                    .entry(text.clone())
                    .or_insert_with(|| luaref::observe(&text, Mode::Luau, fuel, &*spec.env_out));
                outcome_set.insert(crate::common::hash128(&obs.render()));
                if matches!(obs.outcome, Outcome::Poison(_)) {
                    // the output reached behaviour the reference does not define although the seed did not:
                    // not judged (counted)
                    r.outcomes.push(1);
                    continue;
                }
                if !obs.same_behaviour(&obs0) {
                    bad = Some((*gen, text, obs.clone()));
                    break;
                }
            }
            state_bad.push(bad);
        }
        for idx in 0..graph.nodes.len() {
            if let Some((gen, text, actual)) = &state_bad[idx] {
                // report only states whose parent is fine (first bad transition) to keep one report per defect site
                let is_first = match graph.nodes[idx].parent {
                    Some((p, _)) => state_bad[p as usize].is_none(),
                    None => true,
                };
                if !is_first {
                    continue;
                }
                let path = graph.path(idx);
                let names: Vec<String> = path.iter().map(|i| spec.rule_jsons[*i].clone()).collect();
                let fb = first_bad(&graph, idx, &|s| state_bad[s].is_some());
                let (first_bad_rule, pre_text) = match fb {
                    Some((pre, ri)) => (
                        Some(spec.rule_jsons[ri].clone()),
                        dl::generate(&graph.nodes[pre].block, &seed.code, Gen::Dense(80)).ok(),
                    ),
                    None => (None, None),
                };
                let ctx = FailCtx {
                    seed: &seed.code,
                    rule_names: names.clone(),
                    first_bad_rule: first_bad_rule.clone(),
                    pre_text: pre_text.clone(),
                    output: text,
                    expected: &obs0,
                    actual,
                    gen: *gen,
                    env_out: &spec.env_out,
                    fuel,
                };
                let finding = (spec.classify)(&ctx);
                r.violations.push(Violation {
                    finding,
                    summary: format!(
                        "behaviour changed: rules {:?} (first bad: {:?}) generator {} tokens={}\n--- seed\n{}\n--- output\n{}\n--- expected {}\n--- actual   {}",
                        names,
                        first_bad_rule,
                        gen.name(),
                        tokens,
                        seed.code.trim_end(),
                        text.trim_end(),
                        obs0.render(),
                        actual.render()
                    ),
                    replay: json!({
                        "kind": "pipeline",
                        "seed": seed.code,
                        "tokens": tokens,
                        "rules": names,
                        "generator": gen.name(),
                        "output": text,
                        "expected": obs0.render(),
                        "actual": actual.render(),
                        "first_bad_rule": first_bad_rule,
                        "pre_state": pre_text,
                    }),
                });
            }
        }
        // binding to the frontend: the canonical configuration end to end
        if let Some(cfg_rules) = &spec.bind_default_config {
            for gen in gens {
                let cfg = format!("{{generator:{},rules:{}}}", gen.config_json(), cfg_rules);
                let res = dl::process_memory(&[(pipeline::TEST_PATH, &seed.code)], &cfg, pipeline::TEST_PATH, None);
                let engine_text = {
                    let rules2: Vec<_> = spec.rule_jsons.iter().map(|j| dl::make_rule(j)).collect();
                    let path: Vec<usize> = (0..rules2.len()).collect();
                    pipeline::replay_path(&seed.code, tokens, &rules2, &path).and_then(|b| dl::generate(&b, &seed.code, *gen))
                };
                match (res, engine_text) {
                    (Ok((resources, errors)), Ok(expected)) => {
                        let got = resources.get(pipeline::TEST_PATH).unwrap_or_default();
                        if !errors.is_empty() || got != expected {
                            r.violations.push(Violation {
                                finding: None,
                                summary: format!(
                                    "MACHINERY: frontend and engine disagree for default pipeline ({}): errors={:?}\nfrontend:\n{}\nengine:\n{}",
                                    gen.name(),
                                    errors,
                                    got,
                                    expected
                                ),
                                replay: json!({"seed": seed.code, "generator": gen.name()}),
                            });
                        } else {
                            r.traces += 1;
                        }
                    }
                    (Err(e), _) | (_, Err(e)) => {
                        r.violations.push(Violation {
                            finding: None,
                            summary: format!("{} in default pipeline on seed\n{}", e, seed.code),
                            replay: json!({"seed": seed.code, "generator": gen.name()}),
                        });
                    }
                }
            }
        }
    }
    r.outcomes = vec![r.outcomes.len() as u64, outcome_set.len() as u64];
    if r.sample.is_none() {
        r.sample = Some(json!({"seed": seed.code, "family": seed.family, "observation": obs0.render()}));
    }
    r
}

pub fn run(spec: Spec, tier: Tier, mut report: Report) -> Report {
    let mut gens_tokens = vec![Gen::Retain];
    let mut gens_plain = vec![Gen::Dense(80), Gen::Readable(80)];
    if tier == Tier::Thorough {
        gens_plain.extend([Gen::Dense(1), Gen::Readable(1), Gen::Dense(20), Gen::Readable(20)]);
    }
    gens_plain.extend(spec.extra_gens.iter().copied());
    gens_tokens.dedup();
    let results: Vec<SeedResult> = spec
        .seeds
        .par_iter()
        .map(|seed| run_seed(&spec, seed, &gens_tokens, &gens_plain))
        .collect();
    let mut families: HashMap<&'static str, (u64, u64)> = HashMap::new();
    let mut closed = 0;
    let mut graphs = 0;
    let mut max_depth = 0;
    let mut distinct_outcomes = 0;
    let mut unspecified_outputs = 0;
    let n = results.len();
    for (i, (seed, r)) in spec.seeds.iter().zip(results).enumerate() {
        let f = families.entry(seed.family).or_insert((0, 0));
        f.0 += 1;
        if r.judged {
            f.1 += 1;
        }
        if let Some(k) = r.skipped {
            report.add(k, 1);
        }
        report.states += r.states;
        report.transitions += r.transitions;
        report.evaluations += r.evaluations;
        report.distinct_nontrivial += r.nontrivial;
        report.traces_validated += r.traces;
        report.add("rule_errors", r.rule_errors);
        closed += r.closed;
        graphs += r.graphs;
        max_depth = max_depth.max(r.max_depth);
        if r.outcomes.len() == 2 {
            unspecified_outputs += r.outcomes[0];
            distinct_outcomes += r.outcomes[1];
        }
        report.violations.extend(r.violations);
        if i == 0 || i == n / 4 || i == n / 2 || i == 3 * n / 4 || i + 1 == n {
            if let Some(s) = r.sample {
                report.sample(s);
            }
        }
    }
    report.add("seeds", spec.seeds.len() as u64);
    report.add("graphs", graphs);
    report.add("closed_graphs", closed);
    report.set("max_depth_reached", max_depth as u64);
    report.set("depth_bound", spec.max_depth as u64);
    report.set("state_cap_per_graph", spec.max_states as u64);
    report.add("distinct_outcomes", distinct_outcomes);
    report.add("outputs_reaching_unspecified_behaviour_not_judged", unspecified_outputs);
    let mut fam = report.extra.get("families").and_then(|v| v.as_object().cloned()).unwrap_or_default();
    for (k, (a, b)) in families.iter() {
        let prev = fam.get(*k).cloned().unwrap_or(json!({"seeds": 0, "judged": 0}));
        fam.insert(
            k.to_string(),
            json!({"seeds": prev["seeds"].as_u64().unwrap_or(0) + a, "judged": prev["judged"].as_u64().unwrap_or(0) + b}),
        );
    }
    report.set("families", fam);
    report.set("rules", json!(spec.rule_jsons));
    report.set("generators", json!(gens_tokens.iter().chain(gens_plain.iter()).map(|g| g.name()).collect::<Vec<_>>()));
    report.exhaustive = report.exhaustive && closed == graphs;
    if closed != graphs {
        report.set("cap_hit", true);
    }
    report
}

fn parse_gen(name: &str) -> Gen {
    if name == "retain_lines" {
        return Gen::Retain;
    }
    let n: usize = name.chars().filter(|c| c.is_ascii_digit()).collect::<String>().parse().unwrap_or(80);
    if name.starts_with("dense") {
        Gen::Dense(n)
    } else {
        Gen::Readable(n)
    }
}

/// re-executes one recorded pipeline case without the explorer, twice; prints both observations
pub fn replay_pipeline(replay: &serde_json::Value, env_seed: Env, env_out: Env) -> i32 {
    let seed = replay["seed"].as_str().unwrap_or("");
    let tokens = replay["tokens"].as_bool().unwrap_or(false);
    let rules_json: Vec<String> = replay["rules"]
        .as_array()
        .map(|a| a.iter().filter_map(|v| v.as_str().map(|s| s.to_owned())).collect())
        .unwrap_or_default();
    let gen = parse_gen(replay["generator"].as_str().unwrap_or("dense(80)"));
    let mut runs = Vec::new();
    for _ in 0..2 {
        let rules: Vec<_> = rules_json.iter().map(|j| dl::make_rule(j)).collect();
        let path: Vec<usize> = (0..rules.len()).collect();
        let out = pipeline::replay_path(seed, tokens, &rules, &path).and_then(|b| dl::generate(&b, seed, gen));
        let expected = luaref::observe(seed, Mode::Luau, luaref::DEFAULT_FUEL, &*env_seed);
        let actual = match &out {
            Ok(text) => luaref::observe(text, Mode::Luau, expected.fuel_used * 50 + 2000, &*env_out).render(),
            Err(e) => e.clone(),
        };
        runs.push((out.unwrap_or_default(), expected.render(), actual));
    }
    if runs[0] != runs[1] {
        println!("MACHINERY-ERROR replay diverged between two runs");
        return 2;
    }
    println!("--- seed\n{}\n--- rules {:?} generator {} tokens={}", seed, rules_json, gen.name(), tokens);
    println!("--- output\n{}", runs[0].0);
    println!("--- expected {}\n--- actual   {}", runs[0].1, runs[0].2);
    let dir = std::path::PathBuf::from(crate::common::VERIF_DIR).join("replays").join("last");
    let _ = std::fs::create_dir_all(&dir);
    let _ = std::fs::write(dir.join("orig.lua"), seed);
    let _ = std::fs::write(dir.join("out.lua"), &runs[0].0);
    let _ = std::fs::write(dir.join("prelude.lua"), crate::luaref::PRELUDE_LUA);
    println!("(orig.lua, out.lua and prelude.lua written to {})", dir.display());
    if runs[0].1 == runs[0].2 {
        println!("replay: behaviour is the same (violation not reproduced)");
        0
    } else {
        println!("replay: behaviour differs (violation reproduced)");
        1
    }
}
