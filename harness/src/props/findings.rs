//! Attribution of violations to known findings. A violation is attributed only when
//!   (a) the first bad transition is at the finding's call site (rule), and
//!   (b) a *bug model* — a small function that reproduces the known wrong behaviour on the pre-state, or
//!       repairs exactly the known defect in the output — explains the observed behaviour completely.
//! Anything else is reported as a new violation.
use super::behave::FailCtx;
use crate::luaref::ast::*;
use crate::luaref::walk::{is_literal_expr, map_exprs};
use crate::luaref::{self, parser, Mode, Observation, Outcome};

fn rule_name(json: &str) -> String {
    // "'name'" or "{rule:'name',...}"
    let t = json.trim();
    if let Some(i) = t.find("rule") {
        let rest = &t[i + 4..];
        let rest = rest.trim_start_matches(|c: char| c == ':' || c == ' ' || c == '"' || c == '\'');
        return rest.chars().take_while(|c| c.is_ascii_alphanumeric() || *c == '_').collect();
    }
    t.trim_matches(|c| c == '\'' || c == '"').to_owned()
}

fn static_truthiness(e: &Expr) -> Option<bool> {
    match e {
        Expr::Function(_) => Some(true),
        Expr::Table(items) => {
            let pure = items.iter().all(|it| match it {
                TableItem::Pos(v) | TableItem::Named(_, v) => is_literal_expr(v),
                TableItem::Keyed(k, v) => is_literal_expr(k) && is_literal_expr(v),
            });
            if pure {
                Some(true)
            } else {
                None
            }
        }
        Expr::Paren(inner) => static_truthiness(inner),
        _ if is_literal_expr(e) => {
            let block = Block {
                stats: vec![StatNode {
                    stat: Stat::Return(vec![e.clone()]),
                    line: 1,
                    start: 0,
                    end: 0,
                }],
            };
            let obs = luaref::observe_block(&block, Mode::Luau, 1000, &|_| {});
            match obs.outcome {
                Outcome::Returned(s) => Some(!(s == "nil" || s == "false")),
                _ => None,
            }
        }
        _ => None,
    }
}

/// bug model "and/or with a statically known left operand is replaced by one operand without keeping the
/// truncation to a single value"
fn model_and_or_fold(block: &mut Block) -> usize {
    let mut n = 0;
    map_exprs(block, &mut |e| {
        if let Expr::Binary(op @ (BinOp::And | BinOp::Or), l, r) = e {
            if let Some(t) = static_truthiness(l) {
                let take_right = (*op == BinOp::And) == t;
                let new = if take_right { (**r).clone() } else { (**l).clone() };
                n += 1;
                *e = new;
            }
        }
    });
    n
}

fn observe_ast(block: &Block, ctx: &FailCtx) -> Observation {
    luaref::observe_block(block, Mode::Luau, ctx.fuel, &**ctx.env_out)
}

/// repair model for the `local _ = <value>` statements synthesised by expressions_as_statement: the output is
/// wrong only because such a declaration captures later references to `_`. Renaming some subset of the
/// single-name `local _` declarations (declaration only) to a fresh name restores the expected behaviour.
fn repair_local_underscore(ctx: &FailCtx) -> bool {
    let parsed = match parser::parse(ctx.output.as_bytes(), Mode::Luau) {
        Ok(p) => p,
        Err(_) => return false,
    };
    // collect positions of `local _ = ...` statements in traversal order
    fn count(block: &Block) -> usize {
        let mut b = block.clone();
        let mut n = 0;
        crate::luaref::walk::map_blocks(&mut b, &mut |blk| {
            for s in blk.stats.iter() {
                if let Stat::Local { names, .. } = &s.stat {
                    if names.len() == 1 && names[0].name == "_" {
                        n += 1;
                    }
                }
            }
        });
        n
    }
    let total = count(&parsed.block);
    if total == 0 || total > 6 {
        return false;
    }
    for mask in 1u32..(1 << total) {
        let mut b = parsed.block.clone();
        let mut i = 0;
        crate::luaref::walk::map_blocks(&mut b, &mut |blk| {
            for s in blk.stats.iter_mut() {
                if let Stat::Local { names, .. } = &mut s.stat {
                    if names.len() == 1 && names[0].name == "_" {
                        if mask & (1 << i) != 0 {
                            names[0].name = "__verif_fresh".to_owned();
                        }
                        i += 1;
                    }
                }
            }
        });
        let obs = observe_ast(&b, ctx);
        if obs.same_behaviour(ctx.expected) {
            return true;
        }
    }
    false
}

fn expr_key(e: &Expr) -> String {
    let mut c = e.clone();
    crate::luaref::walk::map_expr(&mut c, &mut |x| {
        if let Expr::Name(_, pos) = x {
            *pos = 0;
        }
    });
    format!("{:?}", c)
}

/// forward bug model for expressions_as_statement: every single-name `local v = e` of the pre-state whose value
/// reappears in the output as `local _ = e` is renamed to `_` (declaration only; `v` is unused by construction)
fn model_local_underscore(ctx: &FailCtx, pre: &str) -> bool {
    let out = match parser::parse(ctx.output.as_bytes(), Mode::Luau) {
        Ok(p) => p,
        Err(_) => return false,
    };
    let mut keys = std::collections::HashSet::new();
    let mut ob = out.block;
    crate::luaref::walk::map_blocks(&mut ob, &mut |blk| {
        for s in blk.stats.iter() {
            if let Stat::Local { names, exprs, .. } = &s.stat {
                if names.len() == 1 && names[0].name == "_" && exprs.len() == 1 {
                    keys.insert(expr_key(&exprs[0]));
                }
            }
        }
    });
    if keys.is_empty() {
        return false;
    }
    let mut pb = match parser::parse(pre.as_bytes(), Mode::Luau) {
        Ok(p) => p.block,
        Err(_) => return false,
    };
    let mut renamed = 0;
    crate::luaref::walk::map_blocks(&mut pb, &mut |blk| {
        for s in blk.stats.iter_mut() {
            if let Stat::Local { names, exprs, .. } = &mut s.stat {
                if names.len() == 1 && names[0].name != "_" && exprs.len() == 1 && keys.contains(&expr_key(&exprs[0])) {
                    names[0].name = "_".to_owned();
                    renamed += 1;
                }
            }
        }
    });
    if renamed == 0 {
        return false;
    }
    observe_ast(&pb, ctx).same_behaviour(ctx.actual)
}

fn has_own_continue(block: &Block) -> bool {
    block.stats.iter().any(|s| match &s.stat {
        Stat::Continue => true,
        Stat::Do(b) => has_own_continue(b),
        Stat::If(branches, else_b) => {
            branches.iter().any(|(_, b)| has_own_continue(b)) || else_b.as_ref().map(has_own_continue).unwrap_or(false)
        }
        _ => false,
    })
}

/// bug model for remove_continue on `repeat ... until cond`: the body is moved into an inner block, so the
/// locals it declares are no longer visible to `cond`
fn model_repeat_scope(block: &mut Block) -> usize {
    let mut n = 0;
    crate::luaref::walk::map_blocks(block, &mut |blk| {
        for s in blk.stats.iter_mut() {
            if let Stat::Repeat(body, _) = &mut s.stat {
                if has_own_continue(body) {
                    let inner = std::mem::take(body);
                    body.stats.push(StatNode {
                        stat: Stat::Do(inner),
                        line: 0,
                        start: 0,
                        end: 0,
                    });
                    n += 1;
                }
            }
        }
    });
    n
}

/// bug model for remove_compound_assignment: for `NAME[key] op= value` with a global NAME the key is evaluated into a
/// temporary first and NAME is read afterwards (twice)
fn model_compound_global_prefix(block: &mut Block, globals: &std::collections::HashSet<String>) -> usize {
    let mut n = 0;
    crate::luaref::walk::map_blocks(block, &mut |blk| {
        for s in blk.stats.iter_mut() {
            let replacement = if let Stat::CompoundAssign { op, target: Expr::Index(prefix, key), expr } = &s.stat {
                match &**prefix {
                    Expr::Name(name, _) if globals.contains(name) && !is_literal_expr(key) => {
                        let tmp = "__model_key".to_owned();
                        let target = Expr::Index(Box::new(Expr::Name(name.clone(), 0)), Box::new(Expr::Name(tmp.clone(), 0)));
                        Some(Stat::Do(Block {
                            stats: vec![
                                StatNode { stat: Stat::Local { names: vec![TypedName { name: tmp, pos: 0, ty: None }], exprs: vec![(**key).clone()], is_const: false }, line: 0, start: 0, end: 0 },
                                StatNode { stat: Stat::Assign { targets: vec![target.clone()], exprs: vec![Expr::Binary(*op, Box::new(target), Box::new(Expr::Paren(Box::new(expr.clone()))))] }, line: 0, start: 0, end: 0 },
                            ],
                        }))
                    }
                    _ => None,
                }
            } else {
                None
            };
            if let Some(r) = replacement {
                s.stat = r;
                n += 1;
            }
        }
    });
    n
}

pub fn classify_behaviour(_property: &str, ctx: &FailCtx) -> Option<String> {
    let rule = ctx.first_bad_rule.as_deref().map(rule_name)?;
    let pre = ctx.pre_text.as_deref()?;
    if rule == "compute_expression" {
        if let Ok(parsed) = parser::parse(pre.as_bytes(), Mode::Luau) {
            let mut b = parsed.block;
            if model_and_or_fold(&mut b) > 0 {
                let predicted = observe_ast(&b, ctx);
                if predicted.same_behaviour(ctx.actual) {
                    return Some("and-or-fold-drops-truncation".to_owned());
                }
            }
        }
    }
    if rule == "convert_square_root_call" {
        // repair model: the output behaves like the original once `x ^ 0.5` is computed with sqrt semantics,
        // i.e. the only difference is IEEE pow vs sqrt on -0 and -inf
        let env = ctx.env_out.clone();
        let repaired = luaref::observe(ctx.output, Mode::Luau, ctx.fuel, &|it| {
            env(it);
            it.pow_half_as_sqrt = true;
        });
        if repaired.same_behaviour(ctx.expected) {
            return Some("sqrt-as-pow-differs-on-negative-zero-and-infinity".to_owned());
        }
    }
    if rule == "remove_compound_assignment" {
        if let Ok(parsed) = parser::parse(pre.as_bytes(), Mode::Luau) {
            let globals: std::collections::HashSet<String> = crate::luaref::resolve::resolve(&parsed.block)
                .into_iter()
                .filter_map(|o| match o.binding {
                    crate::luaref::resolve::Binding::Global(n) => Some(n),
                    _ => None,
                })
                .collect();
            let mut b = parsed.block;
            if model_compound_global_prefix(&mut b, &globals) > 0 && observe_ast(&b, ctx).same_behaviour(ctx.actual) {
                return Some("compound-assignment-reads-global-prefix-after-the-key".to_owned());
            }
        }
    }
    if rule == "remove_interpolated_string" {
        // bug model: the lowered form converts each value (`tostring`) before the next one is evaluated; the
        // pre-state run with that order must behave exactly like the output
        let env = ctx.env_out.clone();
        let predicted = luaref::observe(pre, Mode::Luau, ctx.fuel, &|it| {
            env(it);
            it.interp_convert_eagerly = true;
        });
        if predicted.same_behaviour(ctx.actual) && !predicted.same_behaviour(ctx.expected) {
            return Some("interpolated-values-converted-before-later-values-are-evaluated".to_owned());
        }
    }
    if rule == "remove_continue" {
        if let Ok(parsed) = parser::parse(pre.as_bytes(), Mode::Luau) {
            let mut b = parsed.block;
            if model_repeat_scope(&mut b) > 0 && observe_ast(&b, ctx).same_behaviour(ctx.actual) {
                return Some("continue-in-repeat-hides-until-locals".to_owned());
            }
        }
    }
    if matches!(
        rule.as_str(),
        "remove_unused_variable" | "convert_square_root_call" | "remove_assertions" | "remove_debug_profiling"
    ) && (repair_local_underscore(ctx) || model_local_underscore(ctx, pre))
    {
        return Some("synthesised-local-underscore-captures".to_owned());
    }
    None
}
