//! C03 — retain_lines with no rules reproduces the source byte for byte (Engine C, deviation-bounded layouts).
use crate::common::{Report, Tier, Violation};
use crate::dl;
use crate::gen::layouts as l;
use crate::luaref::lexer::{lex, Mode, Tok};
use crate::luaref::parser;
use rayon::prelude::*;
use serde_json::json;

pub enum Verdict {
    Identical,
    /// identical outside type annotations; inside only parentheses/spacing differ
    TypesOnly,
    NotParsed,
    Unjudged(String),
    /// (why, attributed known finding)
    Bad(String, Option<String>),
}

struct Item {
    text: String,
    start: usize,
    end: usize,
    in_type: bool,
}

fn items(src: &str) -> Result<(Vec<Item>, Vec<(usize, usize)>), String> {
    let parsed = parser::parse(src.as_bytes(), Mode::Luau).map_err(|e| e.to_string())?;
    let mut spans = parsed.type_spans.clone();
    spans.sort();
    let in_span = |pos: usize| spans.iter().any(|(s, e)| pos >= *s && pos < *e);
    let mut out = Vec::new();
    for t in &parsed.tokens {
        if matches!(t.tok, Tok::Eof) {
            continue;
        }
        let inside = in_span(t.start);
        // parentheses inside type annotations may differ
        if inside && matches!(t.tok, Tok::Sym("(") | Tok::Sym(")")) {
            continue;
        }
        out.push(Item {
            text: src[t.start..t.end].to_owned(),
            start: t.start,
            end: t.end,
            in_type: inside,
        });
    }
    Ok((out, spans))
}

fn comments_of(gap: &str) -> Vec<String> {
    match lex(gap.as_bytes(), Mode::Luau) {
        Ok(l) => l.comments.into_iter().map(|c| c.text).collect(),
        Err(_) => vec![gap.to_owned()],
    }
}

fn strip_type_parens(gap: &str) -> String {
    gap.chars().filter(|c| *c != '(' && *c != ')').collect()
}

/// compares input and output of an identity run. Outside type annotations every byte must be the same; in gaps
/// adjacent to a type-annotation token only spacing and parentheses may differ (comments must be kept).
pub fn compare(input: &str, output: &str) -> Verdict {
    if input == output {
        return Verdict::Identical;
    }
    let (a, _) = match items(input) {
        Ok(x) => x,
        Err(e) => return Verdict::Unjudged(format!("reference parser rejects the input: {}", e)),
    };
    let (b, _) = match items(output) {
        Ok(x) => x,
        Err(e) => return Verdict::Bad(format!("output does not parse: {}", e), None),
    };
    if a.len() != b.len() || a.iter().zip(b.iter()).any(|(x, y)| x.text != y.text) {
        return Verdict::Bad("code tokens differ (a literal spelling, separator or token was changed)".to_owned(), None);
    }
    let mut findings: Vec<&str> = Vec::new();
    let mut type_diff = false;
    let n = a.len();
    for i in 0..=n {
        let (ga_s, ga_e) = (if i == 0 { 0 } else { a[i - 1].end }, if i == n { input.len() } else { a[i].start });
        let (gb_s, gb_e) = (if i == 0 { 0 } else { b[i - 1].end }, if i == n { output.len() } else { b[i].start });
        let ga = &input[ga_s..ga_e];
        let gb = &output[gb_s..gb_e];
        if ga == gb {
            continue;
        }
        let type_adjacent = (i > 0 && a[i - 1].in_type) || (i < n && a[i].in_type);
        let prev_is_ellipsis = i > 0 && a[i - 1].text == "...";
        if type_adjacent {
            let (ca, cb) = (comments_of(&strip_type_parens(ga)), comments_of(&strip_type_parens(gb)));
            if ca == cb {
                type_diff = true;
                continue;
            }
            let next_is_ellipsis = i < n && a[i].text == "...";
            if prev_is_ellipsis || next_is_ellipsis {
                findings.push("type-pack-ellipsis-trivia-dropped");
                continue;
            }
            return Verdict::Bad(format!("a comment inside a type annotation changed: {:?} -> {:?}", ga, gb), None);
        }
        // `...` of a variadic parameter type (`...: T`) is not inside the span but is written the same way
        if prev_is_ellipsis && i < n && a[i].text == ")" && i >= 2 && a[i - 2].in_type {
            findings.push("type-pack-ellipsis-trivia-dropped");
            continue;
        }
        let prev_char = if ga.is_empty() { a.get(i.wrapping_sub(1)).and_then(|t| t.text.chars().last()) } else { ga.chars().last() };
        if i < n && a[i].text.starts_with(']') && prev_char == Some(']') && gb == format!("{} ", ga) {
            findings.push("space-inserted-between-closing-brackets");
            continue;
        }
        return Verdict::Bad(format!("text between tokens changed: {:?} -> {:?}", ga, gb), None);
    }
    if let Some(f) = findings.first() {
        let mut all = findings.clone();
        all.sort();
        all.dedup();
        let _ = f;
        // every difference is explained by a known defect; attributed to the first one (all are listed)
        return Verdict::Bad(format!("known defect(s): {:?}", all), Some(all[0].to_string()));
    }
    if type_diff {
        Verdict::TypesOnly
    } else {
        Verdict::Bad("output differs from input".to_owned(), None)
    }
}

pub fn identity_output(src: &str) -> Result<Option<String>, String> {
    let (resources, errors) = dl::process_memory(&[("src/test.lua", src)], "{rules:[]}", "src/test.lua", None)?;
    if !errors.is_empty() {
        return Ok(None);
    }
    Ok(Some(resources.get("src/test.lua").map_err(|e| format!("{:?}", e))?))
}

pub fn inputs(tier: Tier) -> Vec<String> {
    let mut out = Vec::new();
    for t in l::TEMPLATES {
        out.extend(l::deviations1(t));
        // a second statement after the template exercises trailing trivia followed by code
        out.push(format!("{}\nreturn 1", t.trim_end_matches(|c| c == ' ')));
    }
    for t in l::TEMPLATES {
        out.extend(l::despaced(t));
    }
    out.extend(l::spelling_programs());
    for s in l::spelling_programs() {
        if s.len() < 60 {
            out.extend(l::deviations1(&s).into_iter().skip(1).step_by(3));
        }
    }
    // pairs of deviations (both tiers: the whole space takes about a second)
    let small = [" ", "\n", "--c\n", "--[[c]]", "\r\n"];
    for t in l::TEMPLATES {
        out.extend(l::deviations2(t, &small));
    }
    // the repository's own Lua files as additional templates
    for path in ["tests/test_cases/spaces_and_comments.lua", "tests/fuzzed_test_cases/a.lua", "tests/fuzzed_test_cases/b.lua", "tests/fuzzed_test_cases/c.lua", "tests/test_cases/small_bundle/main.lua", "tests/test_cases/small_bundle/format.lua"] {
        if let Ok(text) = std::fs::read_to_string(std::path::Path::new("/repo").join(path)) {
            if text.len() < 40_000 {
                let step = tier.pick(5, 1);
                out.push(text.clone());
                out.extend(l::deviations1(&text).into_iter().skip(1).step_by(step));
            }
        }
    }
    out
}

pub fn run(tier: Tier) -> Report {
    let mut report = Report::new("C03", "exploration", tier);
    report.rule = "109 canonical templates covering every statement, expression and type node kind, each deviated by inserting one element of a \
        15-element trivia menu (spaces, tab, LF, CRLF, blank line, line comments with LF/CRLF, long comments of level 0 and 2, `--[a[` and empty comments, \
        comment pairs, a long comment followed by `]]`) at every token gap incl. start and end of file (all pairs of gaps x 5 trivia in thorough); every \
        literal spelling (20 numbers, 23 strings, 14 interpolated strings) in several positions and deviated again; file endings (none/LF/CRLF/CR/`;`/comment); \
        shebang, BOM, CR-only. Each input goes through darklua_core::process with `{rules: []}` (default retain_lines generator); output must equal the \
        input byte for byte, or - when the input has type syntax - equal outside luaref type spans with only parentheses/spacing differing inside. Inputs \
        darklua rejects are counted, not judged. non-trivial = inputs with a deviation or non-canonical spelling"
        .to_owned();
    report.assumptions = vec!["luaref's parser delimits type annotation spans; inputs it cannot parse are only accepted when byte-identical (otherwise counted as unjudged)".to_owned()];
    let ins = inputs(tier);
    let results: Vec<(u8, Option<Violation>)> = ins
        .par_iter()
        .map(|src| match identity_output(src) {
            Err(e) => (3, Some(Violation { finding: None, summary: format!("{} on input {:?}", e, src), replay: json!({"kind": "identity", "input": src}) })),
            Ok(None) => (2, None),
            Ok(Some(out)) => match compare(src, &out) {
                Verdict::Identical => (0, None),
                Verdict::TypesOnly => (1, None),
                Verdict::NotParsed => (2, None),
                Verdict::Unjudged(_) => (4, None),
                Verdict::Bad(why, finding) => (
                    3,
                    Some(Violation {
                        finding,
                        summary: format!("{}\n--- input  {:?}\n--- output {:?}", why, src, out),
                        replay: json!({"kind": "identity", "input": src, "output": out, "why": why}),
                    }),
                ),
            },
        })
        .collect();
    let mut distinct = std::collections::HashSet::new();
    for (i, (k, v)) in results.into_iter().enumerate() {
        report.evaluations += 1;
        match k {
            0 => report.add("identical", 1),
            1 => report.add("identical_outside_type_annotations", 1),
            2 => report.add("rejected_by_darklua_not_judged", 1),
            4 => report.add("unjudged_reference_parse_failure", 1),
            _ => {}
        }
        if k != 2 && distinct.insert(crate::common::hash128(&ins[i])) {
            report.distinct_nontrivial += 1;
        }
        if let Some(v) = v {
            report.violations.push(v);
        }
    }
    let n = ins.len();
    for i in [1, n / 5, n / 2, 4 * n / 5, n - 1] {
        report.sample(json!(ins[i]));
    }
    report
}
