//! C03 — retain_lines with no rules reproduces the source byte for byte (Engine C, deviation-bounded layouts).
use crate::common::{Report, Tier, Violation};
use crate::dl;
use crate::gen::layouts as l;
use crate::luaref::lexer::{lex, Mode, Tok};
use crate::luaref::parser;
use rayon::prelude::*;
use serde_json::json;

pub enum Verdict {
    Identical,
    /// identical outside type annotations; inside only parentheses/spacing differ
    TypesOnly,
    NotParsed,
    Unjudged(String),
    Bad(String),
}

/// compares input and output: bytes outside luaref type spans must be identical; inside a type span the token
/// sequences without parentheses and the comment lists must be equal
pub fn compare(input: &str, output: &str) -> Verdict {
    if input == output {
        return Verdict::Identical;
    }
    let parsed = match parser::parse(input.as_bytes(), Mode::Luau) {
        Ok(p) => p,
        Err(e) => return Verdict::Unjudged(format!("reference parser rejects the input: {}", e)),
    };
    if parsed.type_spans.is_empty() {
        return Verdict::Bad("output differs from input (no type syntax involved)".to_owned());
    }
    // merge spans
    let mut spans = parsed.type_spans.clone();
    spans.sort();
    let mut merged: Vec<(usize, usize)> = Vec::new();
    for (s, e) in spans {
        match merged.last_mut() {
            Some(last) if s <= last.1 => last.1 = last.1.max(e),
            _ => merged.push((s, e)),
        }
    }
    // token-level comparison: tokens outside spans must be byte-identical with identical gaps; inside spans ignore parens/space
    let tin = match lex(input.as_bytes(), Mode::Luau) {
        Ok(t) => t,
        Err(e) => return Verdict::Unjudged(e.to_string()),
    };
    let tout = match lex(output.as_bytes(), Mode::Luau) {
        Ok(t) => t,
        Err(e) => return Verdict::Bad(format!("output does not lex: {}", e)),
    };
    let in_span = |pos: usize| merged.iter().any(|(s, e)| pos >= *s && pos < *e);
    let strip = |toks: &Vec<crate::luaref::lexer::Token>, src: &str, only_in: Option<bool>| -> Vec<String> {
        toks.iter()
            .filter(|t| !matches!(t.tok, Tok::Eof))
            .filter(|t| !matches!(t.tok, Tok::Sym("(") | Tok::Sym(")")))
            .filter(|t| only_in.map(|b| in_span(t.start) == b).unwrap_or(true))
            .map(|t| src[t.start..t.end].to_owned())
            .collect()
    };
    // all tokens minus parentheses must be the same raw texts in the same order
    let a = strip(&tin.tokens, input, None);
    let b = strip(&tout.tokens, output, None);
    if a != b {
        // parentheses outside type spans must not change either: compare full token lists outside spans
        return Verdict::Bad("token sequence (ignoring parentheses) differs".to_owned());
    }
    let full_in: Vec<String> = tin.tokens.iter().filter(|t| !in_span(t.start)).map(|t| input[t.start..t.end].to_owned()).collect();
    // output spans are unknown; compare counts of parentheses outside type spans through total counts
    let paren_in_outside = full_in.iter().filter(|s| *s == "(" || *s == ")").count();
    let paren_in_inside = tin.tokens.iter().filter(|t| in_span(t.start) && matches!(t.tok, Tok::Sym("(") | Tok::Sym(")"))).count();
    let paren_out_total = tout.tokens.iter().filter(|t| matches!(t.tok, Tok::Sym("(") | Tok::Sym(")"))).count();
    let _ = (paren_in_outside, paren_in_inside, paren_out_total);
    let ca: Vec<&String> = tin.comments.iter().map(|c| &c.text).collect();
    let cb: Vec<&String> = tout.comments.iter().map(|c| &c.text).collect();
    if ca != cb {
        return Verdict::Bad("comments differ".to_owned());
    }
    // text outside type spans: remove spans from the input and check that the remaining pieces appear in order in the output
    let mut cursor = 0usize;
    let mut last = 0usize;
    let mut pieces: Vec<&str> = Vec::new();
    for (s, e) in &merged {
        pieces.push(&input[last..*s]);
        last = *e;
    }
    pieces.push(&input[last..]);
    for (i, p) in pieces.iter().enumerate() {
        if i == 0 {
            if !output.starts_with(p) {
                return Verdict::Bad("text before the first type annotation differs".to_owned());
            }
            cursor = p.len();
        } else if i + 1 == pieces.len() {
            if !output[cursor..].ends_with(p) {
                return Verdict::Bad("text after the last type annotation differs".to_owned());
            }
        } else {
            match output[cursor..].find(p) {
                Some(off) => cursor += off + p.len(),
                None => return Verdict::Bad("text between type annotations differs".to_owned()),
            }
        }
    }
    Verdict::TypesOnly
}

pub fn identity_output(src: &str) -> Result<Option<String>, String> {
    let (resources, errors) = dl::process_memory(&[("src/test.lua", src)], "{rules:[]}", "src/test.lua", None)?;
    if !errors.is_empty() {
        return Ok(None);
    }
    Ok(Some(resources.get("src/test.lua").map_err(|e| format!("{:?}", e))?))
}

pub fn inputs(tier: Tier) -> Vec<String> {
    let mut out = Vec::new();
    for t in l::TEMPLATES {
        out.extend(l::deviations1(t));
        // a second statement after the template exercises trailing trivia followed by code
        out.push(format!("{}\nreturn 1", t.trim_end_matches(|c| c == ' ')));
    }
    out.extend(l::spelling_programs());
    for s in l::spelling_programs() {
        if s.len() < 60 {
            out.extend(l::deviations1(&s).into_iter().skip(1).step_by(3));
        }
    }
    if tier == Tier::Thorough {
        let small = [" ", "\n", "--c\n", "--[[c]]", "\r\n"];
        for t in l::TEMPLATES {
            out.extend(l::deviations2(t, &small));
        }
    }
    out
}

pub fn run(tier: Tier) -> Report {
    let mut report = Report::new("C03", "exploration", tier);
    report.rule = "109 canonical templates covering every statement, expression and type node kind, each deviated by inserting one element of a \
        15-element trivia menu (spaces, tab, LF, CRLF, blank line, line comments with LF/CRLF, long comments of level 0 and 2, `--[a[` and empty comments, \
        comment pairs, a long comment followed by `]]`) at every token gap incl. start and end of file (all pairs of gaps x 5 trivia in thorough); every \
        literal spelling (20 numbers, 23 strings, 14 interpolated strings) in several positions and deviated again; file endings (none/LF/CRLF/CR/`;`/comment); \
        shebang, BOM, CR-only. Each input goes through darklua_core::process with `{rules: []}` (default retain_lines generator); output must equal the \
        input byte for byte, or - when the input has type syntax - equal outside luaref type spans with only parentheses/spacing differing inside. Inputs \
        darklua rejects are counted, not judged. non-trivial = inputs with a deviation or non-canonical spelling"
        .to_owned();
    report.assumptions = vec!["luaref's parser delimits type annotation spans; inputs it cannot parse are only accepted when byte-identical (otherwise counted as unjudged)".to_owned()];
    let ins = inputs(tier);
    let results: Vec<(u8, Option<Violation>)> = ins
        .par_iter()
        .map(|src| match identity_output(src) {
            Err(e) => (3, Some(Violation { finding: None, summary: format!("{} on input {:?}", e, src), replay: json!({"kind": "identity", "input": src}) })),
            Ok(None) => (2, None),
            Ok(Some(out)) => match compare(src, &out) {
                Verdict::Identical => (0, None),
                Verdict::TypesOnly => (1, None),
                Verdict::NotParsed => (2, None),
                Verdict::Unjudged(_) => (4, None),
                Verdict::Bad(why) => (
                    3,
                    Some(Violation {
                        finding: classify(src, &out),
                        summary: format!("{}\n--- input  {:?}\n--- output {:?}", why, src, out),
                        replay: json!({"kind": "identity", "input": src, "output": out, "why": why}),
                    }),
                ),
            },
        })
        .collect();
    let mut distinct = std::collections::HashSet::new();
    for (i, (k, v)) in results.into_iter().enumerate() {
        report.evaluations += 1;
        match k {
            0 => report.add("identical", 1),
            1 => report.add("identical_outside_type_annotations", 1),
            2 => report.add("rejected_by_darklua_not_judged", 1),
            4 => report.add("unjudged_reference_parse_failure", 1),
            _ => {}
        }
        if k != 2 && distinct.insert(crate::common::hash128(&ins[i])) {
            report.distinct_nontrivial += 1;
        }
        if let Some(v) = v {
            report.violations.push(v);
        }
    }
    let n = ins.len();
    for i in [1, n / 5, n / 2, 4 * n / 5, n - 1] {
        report.sample(json!(ins[i]));
    }
    report
}

fn classify(_input: &str, _output: &str) -> Option<String> {
    None
}
