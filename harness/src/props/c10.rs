//! C10 — Incremental reprocessing equals processing from scratch (Engine B: explicit-state search over watch histories
//! on the real WorkerTree, differential against a fresh run).
use crate::common::{guarded, hash128, Report, Tier, Violation};
use darklua_core::{Options, Resources, WorkerTree};
use rayon::prelude::*;
use serde_json::json;
use std::collections::{BTreeMap, HashMap, HashSet};
use std::path::PathBuf;

const CONFIGS: &[&str] = &[
    "{rules: [], bundle: {require_mode: 'path'}}",
    "{rules: ['remove_comments'], bundle: {require_mode: 'path'}}",
    "{rules: [{rule: 'remove_comments', skip_files: '**/solo.lua'}], bundle: {require_mode: 'path'}}",
    "{rules: ['remove_comments'], generator: 'dense', bundle: {require_mode: 'path'}}",
    "{rules: ['remove_comments', 'remove_empty_do']}",
    // files excluded at the top level: nothing is written for them (and what an earlier configuration wrote goes away)
    "{rules: ['remove_comments'], skip_files: ['**/solo.lua', 'src/pkg/**'], bundle: {require_mode: 'path'}}",
    // requires rewritten from where the required file is found: the output of a file depends on the files it requires
    "{rules: [{rule: 'convert_require', current: 'path', target: 'roblox'}]}",
];

const BROKEN: &str = "return (\n";
const FOREIGN: [&str; 3] = ["out/README.txt", "out/lib/keep.me", "out/broken.lua"];
const LUAURC: [&str; 2] = ["{\"aliases\": {\"u\": \"./util/c.lua\"}}", "{\"aliases\": {\"u\": \"./solo.lua\"}}"];

fn initial_files() -> Vec<(&'static str, String)> {
    vec![
        ("src/main.lua", "-- main v0\nlocal a = require(\"./lib/a\")\nlocal v = require(\"../vendor/v\")\nreturn a, v\n".to_owned()),
        ("src/lib/a.lua", "-- a v0\nlocal b = require(\"./b\")\nreturn { b = b }\n".to_owned()),
        ("src/lib/b.lua", "-- b v0\nreturn 'b0'\n".to_owned()),
        ("src/util/c.lua", "-- c v0\ndo end\nreturn 'c0'\n".to_owned()),
        ("src/solo.lua", "-- solo v0\nreturn 'solo0'\n".to_owned()),
        // `@u` is an alias of the nearest .luaurc: which file it designates is decided by that file
        ("src/pkg/top.lua", "-- top v0\nlocal u = require(\"@u\")\nreturn 'top0', u\n".to_owned()),
        ("src/.luaurc", LUAURC[0].to_owned()),
        ("src/pkg/deep/leaf.lua", "-- leaf v0\nreturn 'leaf0'\n".to_owned()),
        ("vendor/v.lua", "-- v v0\nreturn 'v0'\n".to_owned()),
        // a source that never parses, and a file that is not darklua's at the place where its output would be
        ("src/broken.lua", BROKEN.to_owned()),
        ("out/broken.lua", "foreign file at the place of an output".to_owned()),
        ("out/README.txt", "foreign readme".to_owned()),
        ("out/lib/keep.me", "foreign keep".to_owned()),
        (".darklua.json", CONFIGS[0].to_owned()),
    ]
}

#[derive(Clone, Copy, Debug, PartialEq, Eq, Hash)]
pub enum Event {
    Edit(&'static str),
    Add(&'static str),
    RemoveFile(&'static str),
    RemoveDir(&'static str),
    Rename(&'static str, &'static str),
    SetConfig(usize),
    Spurious(&'static str),
}

pub const EVENTS: &[Event] = &[
    Event::Edit("src/main.lua"),
    Event::Edit("src/lib/a.lua"),
    Event::Edit("src/lib/b.lua"),
    Event::Edit("vendor/v.lua"),
    Event::Edit("src/solo.lua"),
    Event::Add("src/new.lua"),
    Event::Add("src/lib/b.lua"),
    Event::Add("src/lib/n.lua"),
    Event::RemoveFile("src/solo.lua"),
    Event::RemoveFile("src/lib/b.lua"),
    Event::RemoveFile("vendor/v.lua"),
    Event::RemoveDir("src/lib"),
    Event::RemoveDir("src/util"),
    Event::RemoveFile("src/pkg/top.lua"),
    Event::RemoveDir("src/pkg/deep"),
    // a directory that only holds a file pulled in by bundling; a file that comes before a bundled one in the resolution order
    Event::RemoveDir("vendor"),
    Event::Add("vendor/v.lua"),
    Event::Add("src/lib/b.luau"),
    Event::Rename("src/solo.lua", "src/solo2.lua"),
    // the .luaurc that decides what `@u` designates in src/pkg/top.lua
    Event::Edit("src/.luaurc"),
    Event::RemoveFile("src/.luaurc"),
    Event::Add("src/.luaurc"),
    // the source that never parses (darklua never wrote its output: the file at that place stays)
    Event::RemoveFile("src/broken.lua"),
    Event::Add("src/broken.lua"),
    Event::SetConfig(1),
    Event::SetConfig(2),
    Event::SetConfig(3),
    Event::SetConfig(4),
    Event::SetConfig(0),
    Event::SetConfig(5),
    Event::SetConfig(6),
    Event::Spurious("src/main.lua"),
    Event::Spurious("src/lib"),
];

/// where the project lives: in-memory resources, or a temporary directory on the real file system
#[derive(Clone)]
struct Store {
    res: Resources,
    root: Option<PathBuf>,
}

impl Store {
    fn path(&self, rel: &str) -> PathBuf {
        match &self.root {
            Some(r) => r.join(rel),
            None => PathBuf::from(rel),
        }
    }
    fn options(&self) -> Options {
        Options::new(self.path("src")).with_output(self.path("out")).with_configuration_at(self.path(".darklua.json"))
    }
    fn get(&self, rel: &str) -> Option<String> {
        match &self.root {
            Some(_) => std::fs::read_to_string(self.path(rel)).ok(),
            None => self.res.get(rel).ok(),
        }
    }
    fn write(&self, rel: &str, content: &str) {
        match &self.root {
            Some(_) => {
                let p = self.path(rel);
                if let Some(parent) = p.parent() {
                    let _ = std::fs::create_dir_all(parent);
                }
                let _ = std::fs::write(p, content);
            }
            None => {
                let _ = self.res.write(rel, content);
            }
        }
    }
    fn remove_file(&self, rel: &str) {
        match &self.root {
            Some(_) => {
                let _ = std::fs::remove_file(self.path(rel));
            }
            None => {
                let _ = self.res.remove(rel);
            }
        }
    }
    /// files below `rel` (relative paths with `/`)
    fn walk(&self, rel: &str) -> Vec<String> {
        match &self.root {
            Some(root) => {
                fn rec(dir: &std::path::Path, root: &std::path::Path, out: &mut Vec<String>) {
                    if let Ok(rd) = std::fs::read_dir(dir) {
                        for e in rd.flatten() {
                            let p = e.path();
                            if p.is_dir() {
                                rec(&p, root, out);
                            } else if let Ok(r) = p.strip_prefix(root) {
                                out.push(r.to_string_lossy().replace('\\', "/"));
                            }
                        }
                    }
                }
                let mut out = Vec::new();
                let start = root.join(rel);
                if start.is_file() {
                    out.push(rel.to_owned());
                } else {
                    rec(&start, root, &mut out);
                }
                out.sort();
                out
            }
            None => {
                let mut v: Vec<String> = self.res.walk(rel).map(|p| p.to_string_lossy().replace('\\', "/")).collect();
                v.sort();
                v
            }
        }
    }
    fn remove_dir(&self, rel: &str) {
        match &self.root {
            Some(_) => {
                let _ = std::fs::remove_dir_all(self.path(rel));
            }
            None => {
                for p in self.walk(rel) {
                    let _ = self.res.remove(&p);
                }
            }
        }
    }
    /// names the temporary directory the same way in every replay
    fn normalise(&self, text: &str) -> String {
        match &self.root {
            Some(r) => text.replace(&*r.to_string_lossy(), "<root>"),
            None => text.to_owned(),
        }
    }
}

struct World {
    store: Store,
    _guard: Option<tempfile::TempDir>,
    tree: Option<WorkerTree>,
    errors: Vec<String>,
    process_error: Option<String>,
}

fn list_files(store: &Store) -> BTreeMap<String, String> {
    let mut m = BTreeMap::new();
    for p in store.walk("") {
        let c = store.get(&p).unwrap_or_default();
        m.insert(p, c);
    }
    m
}

fn toggled(content: &str) -> String {
    if content == LUAURC[0] {
        return LUAURC[1].to_owned();
    }
    if content == LUAURC[1] {
        return LUAURC[0].to_owned();
    }
    if content.contains("v0") || content.contains("0'") {
        content.replace("v0", "v1").replace("0'", "1'")
    } else {
        content.replace("v1", "v0").replace("1'", "0'")
    }
}

impl World {
    fn new(on_disk: bool) -> Result<World, String> {
        let (root, guard) = if on_disk {
            let d = tempfile::tempdir().map_err(|e| format!("tempdir: {}", e))?;
            (Some(d.path().to_path_buf()), Some(d))
        } else {
            (None, None)
        };
        let store = Store { res: if on_disk { Resources::from_file_system() } else { Resources::from_memory() }, root };
        for (p, c) in initial_files() {
            store.write(p, &c);
        }
        let mut w = World { store, _guard: guard, tree: None, errors: vec![], process_error: None };
        w.process()?;
        Ok(w)
    }

    /// what FileWatcher::run_worker_tree does
    fn process(&mut self) -> Result<(), String> {
        darklua_core::verif_hooks::set_walk_permutation(0);
        let store = self.store.clone();
        let mut tree = self.tree.take();
        let (tree, err) = guarded(move || match tree.as_mut() {
            Some(t) => {
                let r = t.process(&store.res, store.options());
                (tree, r.err().map(|e| e.to_string()))
            }
            None => match darklua_core::process(&store.res, store.options()) {
                Ok(t) => (Some(t), None),
                Err(e) => (None, Some(e.to_string())),
            },
        })
        .map_err(|p| format!("PANIC in process: {}", p))?;
        self.tree = tree;
        self.process_error = err.map(|e| self.store.normalise(&e));
        self.errors = self.tree.as_ref().map(|t| t.collect_errors().iter().map(|e| self.store.normalise(&e.to_string())).collect()).unwrap_or_default();
        Ok(())
    }

    /// what FileWatcher::process_events does for the corresponding notify events (after mutating the files)
    fn apply(&mut self, batch: &[Event]) -> Result<(), String> {
        let mut has_created = false;
        let store = self.store.clone();
        let mut tree = self.tree.take();
        let batch_owned: Vec<Event> = batch.to_vec();
        let (tree, created) = guarded(move || {
            for ev in &batch_owned {
                match ev {
                    Event::Edit(f) => {
                        if let Some(c) = store.get(f) {
                            store.write(f, &toggled(&c));
                            if let Some(t) = tree.as_mut() {
                                t.source_changed(store.path(f));
                            }
                        }
                    }
                    Event::Spurious(f) => {
                        if let Some(t) = tree.as_mut() {
                            t.source_changed(store.path(f));
                        }
                    }
                    Event::Add(f) => {
                        if store.get(f).is_none() {
                            let body = if f.ends_with("broken.lua") { BROKEN.to_owned() } else if f.ends_with(".luaurc") { LUAURC[1].to_owned() } else if f.ends_with("b.lua") { "-- b v0\nreturn 'b0'\n".to_owned() } else if f.ends_with("v.lua") { "-- v v0\nreturn 'v0'\n".to_owned() } else { format!("-- {} v0\nreturn 'n0'\n", f) };
                            store.write(f, &body);
                            has_created = true;
                        }
                    }
                    Event::RemoveFile(f) => {
                        if store.get(f).is_some() {
                            store.remove_file(f);
                            if let Some(t) = tree.as_mut() {
                                t.remove_source(store.path(f));
                            }
                        }
                    }
                    Event::RemoveDir(d) => {
                        if !store.walk(d).is_empty() {
                            store.remove_dir(d);
                            if let Some(t) = tree.as_mut() {
                                t.remove_source(store.path(d));
                            }
                        }
                    }
                    Event::Rename(from, to) => {
                        if let Some(c) = store.get(from) {
                            store.remove_file(from);
                            store.write(to, &c);
                            if let Some(t) = tree.as_mut() {
                                t.remove_source(store.path(from));
                                t.remove_source(store.path(to));
                            }
                            has_created = true;
                        }
                    }
                    Event::SetConfig(i) => {
                        store.write(".darklua.json", CONFIGS[*i]);
                        if let Some(t) = tree.as_mut() {
                            t.source_changed(store.path(".darklua.json"));
                        }
                    }
                }
            }
            if has_created {
                if let Some(t) = tree.as_mut() {
                    let _ = t.collect_work(&store.res, &store.options());
                }
            }
            (tree, has_created)
        })
        .map_err(|p| format!("PANIC while delivering events: {}", p))?;
        let _ = created;
        self.tree = tree;
        self.process()
    }

    fn key(&self) -> u128 {
        let files = list_files(&self.store);
        let digest = self.store.normalise(&self.tree.as_ref().map(|t| t.verif_digest()).unwrap_or_default());
        hash128(&format!("{:?}|{}|{:?}", files, digest, self.process_error))
    }
}

fn replay(history: &[Vec<Event>], on_disk: bool) -> Result<World, String> {
    let mut w = World::new(on_disk)?;
    for batch in history {
        w.apply(batch)?;
    }
    Ok(w)
}

/// re-executes a recorded history (the `Debug` text of the batches) on fresh objects and judges the final state
pub fn replay_history(v: &serde_json::Value) -> i32 {
    let text = v["history"].as_str().unwrap_or("");
    let on_disk = v["backend"].as_str().map(|b| b.contains("file system")).unwrap_or(false);
    let mut history: Vec<Vec<Event>> = Vec::new();
    let batch_re = regex::Regex::new(r"\[((?:[A-Za-z]+\([^)]*\)(?:, )?)*)\]").unwrap();
    let event_re = regex::Regex::new(r"[A-Za-z]+\([^)]*\)").unwrap();
    let inner = text.strip_prefix('[').and_then(|t| t.strip_suffix(']')).unwrap_or(text);
    for b in batch_re.captures_iter(inner) {
        let mut batch = Vec::new();
        for e in event_re.find_iter(&b[1]) {
            match EVENTS.iter().find(|known| format!("{:?}", known) == e.as_str()) {
                Some(known) => batch.push(*known),
                None => {
                    println!("unknown event {} in the recorded history", e.as_str());
                    return 2;
                }
            }
        }
        history.push(batch);
    }
    println!("replaying {:?} ({})", history, if on_disk { "temporary directory" } else { "in-memory resources" });
    match replay(&history, on_disk) {
        Err(e) => {
            println!("{}", e);
            1
        }
        Ok(w) => {
            let problems = judge(&w);
            for p in &problems {
                println!("{}", p);
            }
            if problems.is_empty() {
                println!("the output tree equals the fresh run after this history");
                0
            } else {
                1
            }
        }
    }
}

/// the oracle: a fresh run over the final inputs and configuration
fn judge(w: &World) -> Vec<String> {
    judge_hiding(w, &[])
}

/// `hidden`: bug model of the known finding `new-file-earlier-in-the-resolution-order-is-not-noticed` - the fresh run does
/// not see that source (as if it had not been created) and its own output is not compared
fn judge_hiding(w: &World, hidden: &[&str]) -> Vec<String> {
    let mut problems = Vec::new();
    let mut files = list_files(&w.store);
    for h in hidden {
        files.remove(*h);
        if let Some(rest) = h.strip_prefix("src/") {
            files.remove(&format!("out/{}", rest));
        }
    }
    let on_disk = w.store.root.is_some();
    let guard = if on_disk { tempfile::tempdir().ok() } else { None };
    let fresh = Store { res: if on_disk { Resources::from_file_system() } else { Resources::from_memory() }, root: guard.as_ref().map(|g| g.path().to_path_buf()) };
    for (p, c) in &files {
        let generated = p.starts_with("out/") && !FOREIGN.contains(&p.as_str());
        if !generated {
            fresh.write(p, c);
        }
    }
    let fs2 = fresh.clone();
    let outcome = guarded(move || darklua_core::process(&fs2.res, fs2.options()));
    let (fresh_errors, fresh_fatal): (Vec<String>, Option<String>) = match outcome {
        Ok(Ok(t)) => (t.collect_errors().iter().map(|e| fresh.normalise(&e.to_string())).collect(), None),
        Ok(Err(e)) => (vec![], Some(fresh.normalise(&e.to_string()))),
        Err(p) => return vec![format!("PANIC in the fresh run: {}", p)],
    };
    if let Some(f) = fresh_fatal {
        // a configuration that cannot be used at all: the incremental run must fail too
        if w.process_error.is_none() {
            problems.push(format!("a fresh run fails with `{}` but the incremental pass reported nothing", f));
        }
        return problems;
    }
    let fresh_files = list_files(&fresh);
    let sources: Vec<&String> = files.keys().filter(|p| p.starts_with("src/") && (p.ends_with(".lua") || p.ends_with(".luau"))).collect();
    let mut allowed_stale: HashSet<String> = HashSet::new();
    for s in &sources {
        let out = format!("out/{}", &s[4..]);
        let failing = fresh_errors.iter().any(|e| e.contains(s.as_str()));
        if failing {
            allowed_stale.insert(out.clone());
            if !w.errors.iter().any(|e| e.contains(s.as_str())) && w.process_error.is_none() {
                problems.push(format!("a fresh run reports an error for {} but the incremental pass does not: fresh errors {:?}, incremental errors {:?}", s, fresh_errors, w.errors));
            }
        } else {
            match (fresh_files.get(&out), files.get(&out)) {
                (Some(a), Some(b)) if a == b => {}
                // a source that the configuration excludes has no output in either run
                (None, None) => {}
                (a, b) => problems.push(format!("{} differs from a fresh run\n    fresh:       {:?}\n    incremental: {:?}", out, a, b)),
            }
        }
    }
    for (p, c) in &files {
        if p.starts_with("out/") {
            match fresh_files.get(p) {
                Some(f) => {
                    if FOREIGN.contains(&p.as_str()) && f != c {
                        problems.push(format!("foreign file {} was changed", p));
                    }
                }
                None => {
                    if !allowed_stale.contains(p) {
                        problems.push(format!("{} exists although a fresh run does not produce it (stale output of a removed source?)", p));
                    }
                }
            }
        }
    }
    for p in FOREIGN {
        if !files.contains_key(p) {
            problems.push(format!("foreign file {} was deleted", p));
        }
    }
    problems
}

// ------------------------------------------------------------------------------------------------ the real `--watch` process

/// events delivered through the real file system to a running `darklua process src out --watch`
#[derive(Clone, Copy, Debug, PartialEq, Eq)]
pub enum WatchEvent {
    MainWithDependency,
    MainWithoutDependency,
    EditDependency,
    EditPlain,
    RemovePlain,
    CreatePlain,
    ToggleConfig,
    /// src/vendor/a.lua: below a plain directory, or (linked layout) below a link to a directory outside the input
    EditLinked,
    RemoveLinked,
    CreateLinked,
}

/// how the project is laid out and named on the command line
#[derive(Clone, Copy, Debug, PartialEq, Eq)]
pub enum WatchLayout {
    /// `darklua process src out --watch`
    Relative,
    /// `darklua process <cwd>/src <cwd>/out --watch`
    Absolute,
    /// src/vendor is a symbolic link to <cwd>/vendor_real
    Linked,
    /// `darklua process src src --watch`: every source is replaced by its output (no bundling)
    InPlace,
}

const INPLACE_CONFIGS: [&str; 2] = ["{rules: ['remove_comments']}", "{rules: ['remove_comments', 'remove_empty_do'], generator: 'dense'}"];

const WATCH_EVENTS: &[WatchEvent] = &[
    WatchEvent::MainWithDependency,
    WatchEvent::MainWithoutDependency,
    WatchEvent::EditDependency,
    WatchEvent::EditPlain,
    WatchEvent::RemovePlain,
    WatchEvent::CreatePlain,
    WatchEvent::ToggleConfig,
    WatchEvent::EditLinked,
    WatchEvent::RemoveLinked,
    WatchEvent::CreateLinked,
];

const WATCH_CONFIGS: [&str; 2] = ["{rules: [], generator: 'dense', bundle: {require_mode: 'path'}}", "{rules: ['remove_comments'], generator: 'dense', bundle: {require_mode: 'path'}}"];

fn watch_binary() -> Result<PathBuf, String> {
    crate::dl::darklua_binary()
}

fn expected_outputs(files: &BTreeMap<String, String>, in_place: bool) -> BTreeMap<String, String> {
    let r = Resources::from_memory();
    for (p, c) in files {
        let _ = r.write(p, c);
    }
    let res = r.clone();
    let options = Options::new("src").with_output(if in_place { "src" } else { "out" });
    let _ = guarded(move || darklua_core::process(&res, options.with_configuration_at(".darklua.json")));
    let mut m = BTreeMap::new();
    for p in r.walk(if in_place { "src" } else { "out" }) {
        let k = p.to_string_lossy().replace('\\', "/");
        m.insert(k, r.get(&p).unwrap_or_default());
    }
    m
}

fn disk_outputs(root: &std::path::Path, in_place: bool) -> BTreeMap<String, String> {
    let store = Store { res: Resources::from_file_system(), root: Some(root.to_path_buf()) };
    let mut m = BTreeMap::new();
    for p in store.walk(if in_place { "src" } else { "out" }) {
        let c = store.get(&p).unwrap_or_default();
        m.insert(p, c);
    }
    m
}

/// runs one history against a fresh watcher process; Ok(None) when every step converged to the fresh-run outputs
fn run_watch_history(binary: &std::path::Path, layout: WatchLayout, history: &[WatchEvent], timeout_ms: u64) -> Result<Option<String>, String> {
    let dir = tempfile::tempdir().map_err(|e| e.to_string())?;
    // the notify backend reports canonical paths: name the directory the same way
    let root_buf = dir.path().canonicalize().map_err(|e| e.to_string())?;
    let root = root_buf.as_path();
    // where a file of the project (as darklua sees it) is stored
    let physical = |p: &str| -> PathBuf {
        match (layout, p.strip_prefix("src/vendor/")) {
            (WatchLayout::Linked, Some(rest)) => root.join("vendor_real").join(rest),
            _ => root.join(p),
        }
    };
    let mut files: BTreeMap<String, String> = BTreeMap::new();
    files.insert("src/main.lua".into(), "-- main 0\nlocal a = require(\"../lib/a\")\nreturn a\n".into());
    files.insert("lib/a.lua".into(), "return 'A0'\n".into());
    files.insert("src/b.lua".into(), "-- b\nreturn 'b0'\n".into());
    files.insert("src/vendor/a.lua".into(), "-- va\nreturn 'va0'\n".into());
    files.insert("src/vendor/b.lua".into(), "-- vb\nreturn 'vb0'\n".into());
    let in_place = layout == WatchLayout::InPlace;
    let configs: [&str; 2] = if in_place { INPLACE_CONFIGS } else { WATCH_CONFIGS };
    if in_place {
        // no bundling in place (its own known finding): the entry point does not require anything
        files.insert("src/main.lua".into(), "-- main 0\ndo end\nreturn 'alone'\n".into());
    }
    files.insert(".darklua.json".into(), configs[0].into());
    for (p, c) in &files {
        let full = physical(p);
        std::fs::create_dir_all(full.parent().unwrap()).map_err(|e| e.to_string())?;
        std::fs::write(full, c).map_err(|e| e.to_string())?;
    }
    if layout == WatchLayout::Linked {
        std::os::unix::fs::symlink(root.join("vendor_real"), root.join("src/vendor")).map_err(|e| format!("cannot create the link: {}", e))?;
    }
    let args: Vec<std::ffi::OsString> = match layout {
        WatchLayout::Absolute => vec!["process".into(), root.join("src").into_os_string(), root.join("out").into_os_string(), "--watch".into()],
        WatchLayout::InPlace => vec!["process".into(), "src".into(), "src".into(), "--watch".into()],
        _ => vec!["process".into(), "src".into(), "out".into(), "--watch".into()],
    };
    let mut child = std::process::Command::new(binary)
        .args(&args)
        .current_dir(root)
        .stdin(std::process::Stdio::null())
        .stdout(std::process::Stdio::null())
        .stderr(std::process::Stdio::null())
        .spawn()
        .map_err(|e| format!("cannot start the watcher: {}", e))?;
    let wait_for = |files: &BTreeMap<String, String>, what: &str| -> Option<String> {
        let want = expected_outputs(files, in_place);
        let start = std::time::Instant::now();
        let mut stable_since: Option<std::time::Instant> = None;
        loop {
            let got = disk_outputs(root, in_place);
            if got == want {
                // the outputs must also stay that way for a moment (a late pass must not undo them)
                match stable_since {
                    None => stable_since = Some(std::time::Instant::now()),
                    Some(t) if t.elapsed().as_millis() >= 700 => return None,
                    _ => {}
                }
            } else {
                stable_since = None;
                if start.elapsed().as_millis() as u64 > timeout_ms {
                    let diff: Vec<String> = want
                        .iter()
                        .filter(|(k, v)| got.get(*k) != Some(v))
                        .map(|(k, v)| format!("{}: fresh run {:?}, watcher left {:?}", k, v, got.get(k)))
                        .chain(got.keys().filter(|k| !want.contains_key(*k)).map(|k| format!("{}: not produced by a fresh run", k)))
                        .collect();
                    return Some(format!("after {}: {}", what, diff.join("; ")));
                }
            }
            std::thread::sleep(std::time::Duration::from_millis(60));
        }
    };
    let mut version = 0;
    let mut config = 0;
    let mut result = wait_for(&files, "the initial run");
    if result.is_none() && in_place {
        for (p, c) in expected_outputs(&files, true) {
            files.insert(p, c);
        }
    }
    if result.is_none() {
        // let the watcher finish registering its watches before the first event
        std::thread::sleep(std::time::Duration::from_millis(300));
        for (i, ev) in history.iter().enumerate() {
            version += 1;
            let (path, content): (&str, Option<String>) = match ev {
                WatchEvent::MainWithDependency => ("src/main.lua", Some(format!("-- main {}\nlocal a = require(\"../lib/a\")\nreturn a\n", version))),
                WatchEvent::MainWithoutDependency => ("src/main.lua", Some(format!("-- main {}\nreturn 'alone'\n", version))),
                WatchEvent::EditDependency => ("lib/a.lua", Some(format!("return 'A{}'\n", version))),
                WatchEvent::EditPlain | WatchEvent::CreatePlain => ("src/b.lua", Some(format!("-- b\nreturn 'b{}'\n", version))),
                WatchEvent::RemovePlain => ("src/b.lua", None),
                WatchEvent::EditLinked | WatchEvent::CreateLinked => ("src/vendor/a.lua", Some(format!("-- va\nreturn 'va{}'\n", version))),
                WatchEvent::RemoveLinked => ("src/vendor/a.lua", None),
                WatchEvent::ToggleConfig => {
                    config = 1 - config;
                    (".darklua.json", Some(configs[config].to_owned()))
                }
            };
            match content {
                Some(c) => {
                    if *ev == WatchEvent::EditPlain && !files.contains_key("src/b.lua") {
                        continue;
                    }
                    if *ev == WatchEvent::EditLinked && !files.contains_key("src/vendor/a.lua") {
                        continue;
                    }
                    let _ = std::fs::write(physical(path), &c);
                    files.insert(path.to_owned(), c);
                }
                None => {
                    let _ = std::fs::remove_file(physical(path));
                    files.remove(path);
                }
            }
            if let Some(problem) = wait_for(&files, &format!("event {} ({:?})", i + 1, ev)) {
                result = Some(problem);
                break;
            }
            if in_place {
                // the sources now hold their outputs
                for (p, c) in expected_outputs(&files, true) {
                    files.insert(p, c);
                }
                // "no history makes the worker loop": once the outputs are right the watcher must go quiet. Its own writes
                // wake it up once more; the files must stop being rewritten
                std::thread::sleep(std::time::Duration::from_millis(1500));
                let stamp = |root: &std::path::Path| -> Vec<Option<std::time::SystemTime>> { files.keys().map(|p| std::fs::metadata(root.join(p)).and_then(|m| m.modified()).ok()).collect() };
                let mut last = stamp(root);
                let mut rewrites = 0;
                for _ in 0..25 {
                    std::thread::sleep(std::time::Duration::from_millis(100));
                    let now = stamp(root);
                    if now != last {
                        rewrites += 1;
                        last = now;
                    }
                }
                if rewrites >= 3 {
                    result = Some(format!("after event {} ({:?}) the outputs are right but the watcher keeps rewriting the sources ({} rewrites observed in 2.5 s, 1.5 s after the outputs were right)", i + 1, ev, rewrites));
                    break;
                }
            }
        }
    }
    let _ = child.kill();
    let _ = child.wait();
    Ok(result)
}

fn watch_histories(tier: Tier) -> Vec<(WatchLayout, Vec<WatchEvent>)> {
    let mut out: Vec<(WatchLayout, Vec<WatchEvent>)> = watch_histories_relative(tier).into_iter().map(|h| (WatchLayout::Relative, h)).collect();
    // the other layouts: every sequence of the whole alphabet up to length 1 (2 thorough), and what follows a removal below the link
    for layout in [WatchLayout::Absolute, WatchLayout::Linked] {
        let mut seqs: Vec<Vec<WatchEvent>> = vec![vec![]];
        for _ in 0..tier.pick(1, 2) {
            seqs = seqs.iter().flat_map(|s| WATCH_EVENTS.iter().map(move |e| { let mut t = s.clone(); t.push(*e); t })).collect();
            out.extend(seqs.iter().cloned().map(|h| (layout, h)));
        }
        out.push((layout, vec![WatchEvent::RemoveLinked, WatchEvent::EditPlain, WatchEvent::CreateLinked]));
    }
    // in place: the events that do not concern bundling, every sequence up to length 1 (2 thorough)
    let plain = [WatchEvent::EditPlain, WatchEvent::RemovePlain, WatchEvent::CreatePlain, WatchEvent::ToggleConfig, WatchEvent::EditLinked];
    let mut seqs: Vec<Vec<WatchEvent>> = vec![vec![]];
    for _ in 0..tier.pick(1, 2) {
        seqs = seqs.iter().flat_map(|s| plain.iter().map(move |e| { let mut t = s.clone(); t.push(*e); t })).collect();
        out.extend(seqs.iter().cloned().map(|h| (WatchLayout::InPlace, h)));
    }
    out
}

fn watch_histories_relative(tier: Tier) -> Vec<Vec<WatchEvent>> {
    use WatchEvent::*;
    let mut out: Vec<Vec<WatchEvent>> = Vec::new();
    // the dependency set of the bundle entry shrinks and grows: every sequence over {with, without, edit dependency}, closed by an edit of the dependency
    let dep = [MainWithDependency, MainWithoutDependency, EditDependency];
    let n = tier.pick(3, 4);
    let mut seqs: Vec<Vec<WatchEvent>> = vec![vec![]];
    for _ in 0..n {
        seqs = seqs.iter().flat_map(|s| dep.iter().map(move |e| { let mut t = s.clone(); t.push(*e); t })).collect();
    }
    for mut s in seqs {
        s.push(EditDependency);
        out.push(s);
    }
    // every sequence of the whole alphabet up to length 1 (3 thorough)
    let len = tier.pick(1, 3);
    let mut seqs: Vec<Vec<WatchEvent>> = vec![vec![]];
    for _ in 0..len {
        seqs = seqs.iter().flat_map(|s| WATCH_EVENTS.iter().map(move |e| { let mut t = s.clone(); t.push(*e); t })).collect();
        out.extend(seqs.iter().cloned());
    }
    out.sort_by_key(|h| format!("{:?}", h));
    out.dedup();
    out
}

/// the layer above the WorkerTree: the real binary, the real notify backend, real files
fn watch_binary_cases(tier: Tier, report: &mut Report) {
    let binary = match watch_binary() {
        Ok(b) => b,
        Err(e) => crate::common::machinery_error(&e),
    };
    let histories = watch_histories(tier);
    let pool = rayon::ThreadPoolBuilder::new().num_threads(12).build().expect("pool");
    let results: Vec<((WatchLayout, Vec<WatchEvent>), Result<Option<String>, String>)> = pool.install(|| {
        histories
            .par_iter()
            .map(|(layout, h)| {
                let first = run_watch_history(&binary, *layout, h, 8_000);
                match first {
                    Ok(Some(_)) => {
                        // a failure counts only if it happens again, with twice the patience
                        let second = run_watch_history(&binary, *layout, h, 16_000);
                        ((*layout, h.clone()), second)
                    }
                    other => ((*layout, h.clone()), other),
                }
            })
            .collect()
    });
    let mut steps = 0u64;
    for ((layout, h), r) in results {
        steps += h.len() as u64 + 1;
        report.evaluations += 1;
        match r {
            Ok(None) => {}
            Ok(Some(problem)) => report.violations.push(Violation {
                finding: None,
                summary: format!("`darklua process src out --watch` ({:?} layout) did not converge to the outputs of a fresh run (twice): {}\n--- events written to the file system, each followed by a wait for the outputs: {:?}", layout, problem, h),
                replay: json!({"kind": "watch process", "layout": format!("{:?}", layout), "history": format!("{:?}", h), "problem": problem}),
            }),
            Err(e) => crate::common::machinery_error(&format!("C10 watch process harness: {}", e)),
        }
    }
    report.set("watch_process_histories", histories.len() as u64);
    report.set("watch_process_steps", steps);
}



// ------------------------------------------------------------------------------------------------ a text file read by a rule

/// `append_text_comment` with `file`: the text file is read from the real file system, so this family runs in a temporary
/// directory only. Every sequence of up to 3 events over {edit the text file, edit a source, spurious notification for the
/// text file}; after each one a pass, compared with a fresh run in another directory
fn header_file_cases(report: &mut Report) {
    #[derive(Clone, Copy, Debug)]
    enum Ev {
        EditHeader,
        EditSource,
        SpuriousHeader,
    }
    let alphabet = [Ev::EditHeader, Ev::EditSource, Ev::SpuriousHeader];
    let mut histories: Vec<Vec<Ev>> = Vec::new();
    let mut level: Vec<Vec<Ev>> = vec![vec![]];
    for _ in 0..3 {
        level = level.iter().flat_map(|h| alphabet.iter().map(move |e| { let mut t = h.clone(); t.push(*e); t })).collect();
        histories.extend(level.iter().cloned());
    }
    let write_all = |root: &std::path::Path, files: &BTreeMap<String, String>| {
        for (p, c) in files {
            let full = root.join(p);
            let _ = std::fs::create_dir_all(full.parent().unwrap());
            let _ = std::fs::write(full, c);
        }
    };
    let options = |root: &std::path::Path| Options::new(root.join("src")).with_output(root.join("out")).with_configuration_at(root.join(".darklua.json"));
    let outputs = |root: &std::path::Path| -> BTreeMap<String, String> {
        let store = Store { res: Resources::from_file_system(), root: Some(root.to_path_buf()) };
        store.walk("out").into_iter().map(|p| { let c = store.get(&p).unwrap_or_default(); (p, c) }).collect()
    };
    let mut configs = Vec::new();
    for location in ["start", "end"] {
        configs.push(format!("{{rules: [{{rule: 'append_text_comment', file: 'header.txt', location: '{}'}}]}}", location));
    }
    let jobs: Vec<(String, Vec<Ev>)> = configs.iter().flat_map(|c| histories.iter().map(move |h| (c.clone(), h.clone()))).collect();
    let results: Vec<Option<Violation>> = jobs
        .par_iter()
        .map(|(config, history)| {
            let dir = tempfile::tempdir().ok()?;
            let root = dir.path().to_path_buf();
            let mut files: BTreeMap<String, String> = BTreeMap::new();
            files.insert("src/a.lua".into(), "return 'a0'\n".into());
            files.insert("src/sub/b.lua".into(), "return 'b'\n".into());
            files.insert("header.txt".into(), "header 0".into());
            files.insert(".darklua.json".into(), config.clone());
            write_all(&root, &files);
            let res = Resources::from_file_system();
            let mut tree = match guarded({ let res = res.clone(); let o = options(&root); move || darklua_core::process(&res, o) }) {
                Ok(Ok(t)) => t,
                _ => return Some(Violation { finding: None, summary: format!("the first pass fails with {}", config), replay: json!({"kind": "text file", "config": config}) }),
            };
            for (i, ev) in history.iter().enumerate() {
                match ev {
                    Ev::EditHeader => {
                        let c = format!("header {}\nsecond line", i + 1);
                        let _ = std::fs::write(root.join("header.txt"), &c);
                        files.insert("header.txt".into(), c);
                        tree.source_changed(root.join("header.txt"));
                    }
                    Ev::EditSource => {
                        let c = format!("return 'a{}'\n", i + 1);
                        let _ = std::fs::write(root.join("src/a.lua"), &c);
                        files.insert("src/a.lua".into(), c);
                        tree.source_changed(root.join("src/a.lua"));
                    }
                    Ev::SpuriousHeader => tree.source_changed(root.join("header.txt")),
                }
                let r = res.clone();
                let o = options(&root);
                let (t, outcome) = match guarded(move || { let r2 = tree.process(&r, o).map_err(|e| e.to_string()); (tree, r2) }) {
                    Ok(x) => x,
                    Err(p) => return Some(Violation { finding: None, summary: format!("PANIC in the pass after {:?}: {}", &history[..=i], p), replay: json!({"kind": "text file", "config": config, "history": format!("{:?}", history)}) }),
                };
                tree = t;
                let fresh_dir = tempfile::tempdir().ok()?;
                write_all(fresh_dir.path(), &files);
                let fr = Resources::from_file_system();
                let fo = options(fresh_dir.path());
                let _ = guarded(move || darklua_core::process(&fr, fo));
                let want = outputs(fresh_dir.path());
                let got = outputs(&root);
                if want != got || outcome.is_err() {
                    let diff: Vec<String> = want.iter().filter(|(k, v)| got.get(*k) != Some(v)).map(|(k, v)| format!("{}: fresh run {:?}, worker left {:?}", k, v, got.get(k))).collect();
                    return Some(Violation {
                        finding: None,
                        summary: format!("after the events {:?} the outputs differ from a fresh run ({:?}): {}\n--- configuration {}; header.txt is the file named by the rule", &history[..=i], outcome.err(), diff.join("; "), config),
                        replay: json!({"kind": "text file", "config": config, "history": format!("{:?}", history), "differences": diff}),
                    });
                }
            }
            None
        })
        .collect();
    report.evaluations += jobs.len() as u64;
    report.set("text_file_histories", jobs.len() as u64);
    report.violations.extend(results.into_iter().flatten());
}


// ------------------------------------------------------------------------------------------------ an output folder that does not exist yet

/// The output folder is created by the first pass (nothing foreign in it). Every sequence of up to 2 removals of files and
/// directories; after each pass the files AND the directories below the output folder are those of a fresh run
fn new_output_folder_cases(report: &mut Report) {
    #[derive(Clone, Copy, Debug, PartialEq)]
    enum Ev {
        RemoveDeep,
        RemoveSub,
        RemoveFile,
        RemoveOther,
    }
    let alphabet = [Ev::RemoveDeep, Ev::RemoveSub, Ev::RemoveFile, Ev::RemoveOther];
    let mut histories: Vec<Vec<Ev>> = alphabet.iter().map(|e| vec![*e]).collect();
    for a in alphabet {
        for b in alphabet {
            if a != b {
                histories.push(vec![a, b]);
            }
        }
    }
    fn tree_of(root: &std::path::Path) -> BTreeMap<String, Option<String>> {
        fn rec(dir: &std::path::Path, root: &std::path::Path, out: &mut BTreeMap<String, Option<String>>) {
            if let Ok(rd) = std::fs::read_dir(dir) {
                for e in rd.flatten() {
                    let p = e.path();
                    let rel = p.strip_prefix(root).map(|r| r.to_string_lossy().replace('\\', "/")).unwrap_or_default();
                    if p.is_dir() {
                        out.insert(rel, None);
                        rec(&p, root, out);
                    } else {
                        out.insert(rel, std::fs::read_to_string(&p).ok());
                    }
                }
            }
        }
        let mut out = BTreeMap::new();
        if root.join("out").is_dir() {
            out.insert("out".to_owned(), None);
        }
        rec(&root.join("out"), root, &mut out);
        out
    }
    let options = |root: &std::path::Path| Options::new(root.join("src")).with_output(root.join("out")).with_configuration_at(root.join(".darklua.json"));
    let write_all = |root: &std::path::Path, files: &BTreeMap<String, String>| {
        for (p, c) in files {
            let full = root.join(p);
            let _ = std::fs::create_dir_all(full.parent().unwrap());
            let _ = std::fs::write(full, c);
        }
    };
    let results: Vec<Option<Violation>> = histories
        .par_iter()
        .map(|history| {
            let dir = tempfile::tempdir().ok()?;
            let root = dir.path().to_path_buf();
            let mut files: BTreeMap<String, String> = BTreeMap::new();
            for p in ["src/a.lua", "src/sub/b.lua", "src/sub/deep/c.lua", "src/sub/deep/d.lua", "src/other/e.lua"] {
                files.insert(p.into(), format!("return '{}'\n", p));
            }
            files.insert(".darklua.json".into(), "{rules: []}".into());
            write_all(&root, &files);
            let res = Resources::from_file_system();
            let mut tree = match guarded({ let res = res.clone(); let o = options(&root); move || darklua_core::process(&res, o) }) {
                Ok(Ok(t)) => t,
                _ => return Some(Violation { finding: None, summary: "the first pass into a new output folder fails".to_owned(), replay: json!({"kind": "new output folder"}) }),
            };
            for (i, ev) in history.iter().enumerate() {
                let target = match ev {
                    Ev::RemoveDeep => "src/sub/deep",
                    Ev::RemoveSub => "src/sub",
                    Ev::RemoveFile => "src/sub/b.lua",
                    Ev::RemoveOther => "src/other/e.lua",
                };
                let full = root.join(target);
                if full.is_dir() {
                    let _ = std::fs::remove_dir_all(&full);
                } else if full.is_file() {
                    let _ = std::fs::remove_file(&full);
                } else {
                    continue;
                }
                files.retain(|p, _| p != target && !p.starts_with(&format!("{}/", target)));
                tree.remove_source(&full);
                let r = res.clone();
                let o = options(&root);
                let (t, outcome) = match guarded(move || { let r2 = tree.process(&r, o).map_err(|e| e.to_string()); (tree, r2) }) {
                    Ok(x) => x,
                    Err(p) => return Some(Violation { finding: None, summary: format!("PANIC in the pass after {:?}: {}", &history[..=i], p), replay: json!({"kind": "new output folder", "history": format!("{:?}", history)}) }),
                };
                tree = t;
                let fresh_dir = tempfile::tempdir().ok()?;
                write_all(fresh_dir.path(), &files);
                let fr = Resources::from_file_system();
                let fo = options(fresh_dir.path());
                let _ = guarded(move || darklua_core::process(&fr, fo));
                let want = tree_of(fresh_dir.path());
                let got = tree_of(&root);
                if want != got || outcome.is_err() {
                    let mut diff: Vec<String> = want.iter().filter(|(k, v)| got.get(*k) != Some(v)).map(|(k, v)| format!("{}: fresh run {:?}, worker left {:?}", k, v, got.get(k))).collect();
                    diff.extend(got.iter().filter(|(k, _)| !want.contains_key(*k)).map(|(k, v)| format!("{} ({}) is not left by a fresh run", k, if v.is_none() { "a directory" } else { "a file" })));
                    return Some(Violation {
                        finding: None,
                        summary: format!("output folder created by the first pass; after the removals {:?} the output tree differs from a fresh run ({:?}): {}", &history[..=i], outcome.err(), diff.join("; ")),
                        replay: json!({"kind": "new output folder", "history": format!("{:?}", history), "differences": diff}),
                    });
                }
            }
            None
        })
        .collect();
    report.evaluations += histories.len() as u64;
    report.set("new_output_folder_histories", histories.len() as u64);
    report.violations.extend(results.into_iter().flatten());
}

// ------------------------------------------------------------------------------------------------ configuration switches

/// every ordered pair of variants of one rule (the property menus of C19): a worker that processed the project with the first
/// configuration and is told that the configuration file changed must leave what a fresh run with the second one writes
fn config_switch_cases(report: &mut Report) {
    let mut pairs: Vec<(String, String)> = Vec::new();
    for menu in super::c19::rule_menus() {
        let texts: Vec<String> = menu.variants.iter().filter_map(|v| super::c19::rule_text(menu.name, v, "").pop()).map(|r| format!("{{rules: [{}]}}", r)).collect();
        for a in &texts {
            for b in &texts {
                if a != b {
                    pairs.push((a.clone(), b.clone()));
                }
            }
        }
    }
    let outputs = |r: &Resources| -> BTreeMap<String, String> {
        let mut m = BTreeMap::new();
        for p in r.walk("out") {
            m.insert(p.to_string_lossy().replace('\\', "/"), r.get(&p).unwrap_or_default());
        }
        m
    };
    let fresh = |config: &str| -> Option<(BTreeMap<String, String>, Vec<String>)> {
        let r = Resources::from_memory();
        for (p, c) in super::c19::project() {
            let _ = r.write(p, c);
        }
        let _ = r.write(".darklua.json5", config);
        let res = r.clone();
        let tree = guarded(move || darklua_core::process(&res, Options::new("src").with_output("out"))).ok()?.ok()?;
        let mut errors: Vec<String> = tree.collect_errors().iter().map(|e| e.to_string()).collect();
        errors.sort();
        Some((outputs(&r), errors))
    };
    let results: Vec<(bool, Option<Violation>)> = pairs
        .par_iter()
        .map(|(a, b)| {
            let (want, want_errors) = match (fresh(a), fresh(b)) {
                (Some(_), Some(w)) => w,
                _ => return (false, None),
            };
            let r = Resources::from_memory();
            for (p, c) in super::c19::project() {
                let _ = r.write(p, c);
            }
            let _ = r.write(".darklua.json5", a);
            let res = r.clone();
            let b2 = b.clone();
            let run = guarded(move || {
                let mut tree = darklua_core::process(&res, Options::new("src").with_output("out")).map_err(|e| e.to_string())?;
                let _ = res.write(".darklua.json5", &b2);
                tree.source_changed(".darklua.json5");
                tree.process(&res, Options::new("src").with_output("out")).map_err(|e| e.to_string())?;
                let mut errors: Vec<String> = tree.collect_errors().iter().map(|e| e.to_string()).collect();
                errors.sort();
                Ok::<Vec<String>, String>(errors)
            });
            let problem = match run {
                Err(p) => Some(format!("PANIC: {}", p)),
                Ok(Err(e)) => Some(format!("the worker fails: {}", e)),
                Ok(Ok(errors)) => {
                    let got = outputs(&r);
                    if errors != want_errors {
                        Some(format!("errors {:?}, a fresh run reports {:?}", errors, want_errors))
                    } else {
                        want.iter().find(|(k, v)| got.get(*k) != Some(v)).map(|(k, v)| format!("{} differs from a fresh run\n    fresh:       {:?}\n    incremental: {:?}", k, v, got.get(k)))
                    }
                }
            };
            let nontrivial = fresh(a).map(|x| x.0) != Some(want.clone());
            (nontrivial, problem.map(|pb| Violation {
                finding: None,
                summary: format!("after the configuration file changed, {}\n--- first configuration  {}\n--- second configuration {}", pb, a, b),
                replay: json!({"kind": "configuration switch", "first": a, "second": b, "problem": pb}),
            }))
        })
        .collect();
    let mut differing = 0u64;
    for (nontrivial, v) in results {
        report.evaluations += 1;
        if nontrivial {
            differing += 1;
        }
        report.violations.extend(v);
    }
    report.set("configuration_switch_pairs", pairs.len() as u64);
    report.set("configuration_switch_pairs_with_different_outputs", differing);
}

/// breadth-first search over batches from the state after the initial run, on one backend
fn explore(on_disk: bool, tier: Tier, report: &mut Report) -> (usize, usize) {
    let backend = if on_disk { "temporary directory on the file system" } else { "in-memory resources" };
    let depth = if on_disk { tier.pick(1, 2) } else { tier.pick(2, 4) };
    let mut batches: Vec<Vec<Event>> = EVENTS.iter().map(|e| vec![*e]).collect();
    for a in EVENTS {
        for b in EVENTS {
            if a != b {
                batches.push(vec![*a, *b]);
            }
        }
    }
    let single_count = EVENTS.len();
    // BFS level by level; each level's expansions run in parallel
    let mut seen: HashMap<u128, usize> = HashMap::new();
    let mut frontier: Vec<Vec<Vec<Event>>> = vec![vec![]];
    let root = match replay(&[], on_disk) {
        Ok(w) => w,
        Err(e) => crate::common::machinery_error(&format!("cannot build the initial state: {}", e)),
    };
    seen.insert(root.key(), 0);
    let root_problems = judge(&root);
    if !root_problems.is_empty() {
        report.violations.push(Violation { finding: None, summary: format!("initial run ({}): {:?}", backend, root_problems), replay: json!({"history": [], "backend": backend}) });
    }
    report.states += 1;
    let mut distinct_outcomes: HashSet<u128> = HashSet::new();
    for level in 0..depth {
        // pairs are explored at the first two levels (quick: first level only), single events at every level
        let use_pairs = level < if on_disk { 1 } else { tier.pick(1, 2) };
        let menu: &[Vec<Event>] = if use_pairs { &batches } else { &batches[..single_count] };
        let jobs: Vec<(usize, usize)> = (0..frontier.len()).flat_map(|i| (0..menu.len()).map(move |j| (i, j))).collect();
        let results: Vec<(Vec<Vec<Event>>, Result<(u128, Vec<String>, u128), String>)> = jobs
            .par_iter()
            .map(|(i, j)| {
                let mut h = frontier[*i].clone();
                h.push(menu[*j].clone());
                let r = replay(&h, on_disk).map(|w| {
                    let mut problems = judge(&w);
                    // attribute to a known finding only when hiding a newly created file explains everything: work that ran again
                    // since the file was created saw it, the rest did not. Every output that differs from the fresh run must equal
                    // a run that does not see one of the candidate files, and nothing else may be wrong
                    if !problems.is_empty() {
                        let differing = |ps: &[String]| -> Option<Vec<String>> { ps.iter().map(|p| p.split(" differs from a fresh run").next().filter(|_| p.contains(" differs from a fresh run")).map(|s| s.to_owned())).collect() };
                        let converting = w.store.get(".darklua.json").as_deref() == Some(CONFIGS[6]);
                        let (candidates, id): (&[&str], &str) = if converting {
                            // convert_require leaves a require it cannot resolve (with a warning): nothing runs it again when the file appears
                            (&["src/lib/b.lua", "src/lib/b.luau", "vendor/v.lua", "src/.luaurc"], "convert-require-is-not-run-again-when-the-file-it-could-not-find-appears")
                        } else if w.store.get("src/lib/b.lua").is_some() {
                            // a file that comes before a bundled one in the resolution order
                            (&["src/lib/b.luau"], "new-file-earlier-in-the-resolution-order-is-not-noticed")
                        } else {
                            (&[], "")
                        };
                        if let Some(full) = differing(&problems) {
                            let mut explained = vec![false; full.len()];
                            // every non-empty set of the candidate files that exist (two files created one after the other)
                            let present: Vec<&str> = candidates.iter().cloned().filter(|c| w.store.get(c).is_some()).collect();
                            for mask in 1u32..(1 << present.len()) {
                                let set: Vec<&str> = present.iter().enumerate().filter(|(i, _)| mask & (1 << i) != 0).map(|(_, c)| *c).collect();
                                if let Some(hidden) = differing(&judge_hiding(&w, &set)) {
                                    for (i, p) in full.iter().enumerate() {
                                        if !hidden.contains(p) {
                                            explained[i] = true;
                                        }
                                    }
                                }
                            }
                            if !explained.is_empty() && explained.iter().all(|e| *e) {
                                problems.insert(0, format!("KNOWN:{}", id));
                            }
                        }
                    }
                    let outcome = hash128(&format!("{:?}", list_files(&w.store).iter().filter(|(p, _)| p.starts_with("out/")).collect::<Vec<_>>()));
                    (w.key(), problems, outcome)
                });
                (h, r)
            })
            .collect();
        let mut next = Vec::new();
        for (h, r) in results {
            report.transitions += 1;
            report.evaluations += 1;
            match r {
                Err(e) => report.violations.push(Violation {
                    finding: classify(&h, &[e.clone()]),
                    summary: format!("{}\n--- {} history {:?}", e, backend, h),
                    replay: json!({"kind": "watch history", "backend": backend, "history": format!("{:?}", h), "problem": e}),
                }),
                Ok((key, problems, outcome)) => {
                    distinct_outcomes.insert(outcome);
                    if !problems.is_empty() {
                        report.violations.push(Violation {
                            finding: classify(&h, &problems),
                            summary: format!("{}\n--- {}: history (batches, each followed by a processing pass) {:?}", problems.join("\n"), backend, h),
                            replay: json!({"kind": "watch history", "backend": backend, "history": format!("{:?}", h), "problems": problems}),
                        });
                    }
                    if !seen.contains_key(&key) {
                        seen.insert(key, level + 1);
                        report.states += 1;
                        next.push(h);
                    }
                }
            }
        }
        report.distinct_nontrivial = report.states;
        frontier = next;
        if frontier.is_empty() {
            break;
        }
    }
    (frontier.len(), distinct_outcomes.len())
}

pub fn run(tier: Tier) -> Report {
    let mut report = Report::new("C10", "model_checking", tier);
    report.rule = "project: bundle entry src/main.lua (requires ./lib/a and ../vendor/v outside the input), src/lib/a.lua (requires ./b), src/lib/b.lua, src/util/c.lua, src/solo.lua, \
        src/pkg/top.lua (requires `@u`, an alias of src/.luaurc that names a file), src/pkg/deep/leaf.lua, src/broken.lua (never parses), foreign files out/README.txt, out/lib/keep.me and out/broken.lua (at the place of an output that is never written), 7 configurations (bundle+no rules, \
        +remove_comments, +rule filter, +dense generator, no bundle, top-level skip_files, convert_require path -> roblox). Labels = the events listed under `events` (edit of each source / \
        bundled dependency / external dependency / .luaurc, add, re-add, add of a file earlier in the resolution order, remove file, remove directory, rename, configuration change, spurious notifications) delivered exactly as \
        FileWatcher::process_events does, in batches of 1 or 2 events followed by WorkerTree::process. BFS over batches from the state after the initial run, states rebuilt by replaying \
        the history on fresh real objects and merged on (all files, WorkerTree::verif_digest, last error); after every pass the output tree is compared with a fresh darklua_core::process \
        over the same inputs, configuration and foreign files"
        .to_owned();
    report.assumptions = vec![
        "the explicit-state search starts at the WorkerTree calls FileWatcher::process_events makes; the layer above (notify events, debouncing, watching of dependencies outside the input) is exercised by a smaller exhaustive set of histories against the real `darklua process --watch` binary on a temporary directory, where a failure is reported only if it happens twice, in four layouts: relative paths, absolute input and output paths, in place (`process src src`, no bundling; the sources must also stop being rewritten once they are right), and a source directory that is a symbolic link (absolute target) to a directory outside the input; relative link targets and links to single files are not exercised".to_owned(),
        "a source that fails in the fresh run may keep a stale output; only the presence of an error for it is required".to_owned(),
        "every history is run on in-memory resources and again in a temporary directory on the real file system (where emptied output directories are pruned)".to_owned(),
    ];
    let t0 = std::time::Instant::now();
    let (left_memory, outcomes_memory) = explore(false, tier, &mut report);
    report.set("seconds_in_memory_search", t0.elapsed().as_secs_f64());
    let t0 = std::time::Instant::now();
    let (left_disk, outcomes_disk) = explore(true, tier, &mut report);
    report.set("seconds_on_disk_search", t0.elapsed().as_secs_f64());
    let t0 = std::time::Instant::now();
    watch_binary_cases(tier, &mut report);
    config_switch_cases(&mut report);
    header_file_cases(&mut report);
    new_output_folder_cases(&mut report);
    report.set("seconds_watch_process", t0.elapsed().as_secs_f64());
    report.traces_validated = report.transitions;
    report.exhaustive = false;
    report.set("depth_bound_batches_in_memory", tier.pick(2, 4) as u64);
    report.set("depth_bound_batches_on_disk", tier.pick(1, 2) as u64);
    report.set("frontier_left_unexpanded", (left_memory + left_disk) as u64);
    report.set("distinct_outcomes", (outcomes_memory + outcomes_disk) as u64);
    report.set("events", json!(EVENTS.iter().map(|e| format!("{:?}", e)).collect::<Vec<_>>()));
    report.sample(json!({"history": [["Edit(\"src/lib/b.lua\")"], ["RemoveDir(\"src/lib\")", "SetConfig(1)"]]}));
    report
}

fn classify(_history: &[Vec<Event>], problems: &[String]) -> Option<String> {
    problems.first().and_then(|p| p.strip_prefix("KNOWN:")).map(|s| s.to_owned())
}
