//! C10 — Incremental reprocessing equals processing from scratch (Engine B: explicit-state search over watch histories
//! on the real WorkerTree, differential against a fresh run).
use crate::common::{guarded, hash128, Report, Tier, Violation};
use darklua_core::{Options, Resources, WorkerTree};
use rayon::prelude::*;
use serde_json::json;
use std::collections::{BTreeMap, HashMap, HashSet, VecDeque};

const CONFIGS: &[&str] = &[
    "{rules: [], bundle: {require_mode: 'path'}}",
    "{rules: ['remove_comments'], bundle: {require_mode: 'path'}}",
    "{rules: [{rule: 'remove_comments', skip_files: '**/solo.lua'}], bundle: {require_mode: 'path'}}",
    "{rules: ['remove_comments'], generator: 'dense', bundle: {require_mode: 'path'}}",
    "{rules: ['remove_comments', 'remove_empty_do']}",
];

fn initial_files() -> Vec<(&'static str, String)> {
    vec![
        ("src/main.lua", "-- main v0\nlocal a = require(\"./lib/a\")\nlocal v = require(\"../vendor/v\")\nreturn a, v\n".to_owned()),
        ("src/lib/a.lua", "-- a v0\nlocal b = require(\"./b\")\nreturn { b = b }\n".to_owned()),
        ("src/lib/b.lua", "-- b v0\nreturn 'b0'\n".to_owned()),
        ("src/util/c.lua", "-- c v0\ndo end\nreturn 'c0'\n".to_owned()),
        ("src/solo.lua", "-- solo v0\nreturn 'solo0'\n".to_owned()),
        ("vendor/v.lua", "-- v v0\nreturn 'v0'\n".to_owned()),
        ("out/README.txt", "foreign readme".to_owned()),
        ("out/lib/keep.me", "foreign keep".to_owned()),
        (".darklua.json", CONFIGS[0].to_owned()),
    ]
}

#[derive(Clone, Copy, Debug, PartialEq, Eq, Hash)]
pub enum Event {
    Edit(&'static str),
    Add(&'static str),
    RemoveFile(&'static str),
    RemoveDir(&'static str),
    Rename(&'static str, &'static str),
    SetConfig(usize),
    Spurious(&'static str),
}

pub const EVENTS: &[Event] = &[
    Event::Edit("src/main.lua"),
    Event::Edit("src/lib/a.lua"),
    Event::Edit("src/lib/b.lua"),
    Event::Edit("vendor/v.lua"),
    Event::Edit("src/solo.lua"),
    Event::Add("src/new.lua"),
    Event::Add("src/lib/b.lua"),
    Event::Add("src/lib/n.lua"),
    Event::RemoveFile("src/solo.lua"),
    Event::RemoveFile("src/lib/b.lua"),
    Event::RemoveFile("vendor/v.lua"),
    Event::RemoveDir("src/lib"),
    Event::RemoveDir("src/util"),
    Event::Rename("src/solo.lua", "src/solo2.lua"),
    Event::SetConfig(1),
    Event::SetConfig(2),
    Event::SetConfig(3),
    Event::SetConfig(4),
    Event::SetConfig(0),
    Event::Spurious("src/main.lua"),
    Event::Spurious("src/lib"),
];

fn options() -> Options {
    Options::new("src").with_output("out").with_configuration_at(".darklua.json")
}

struct World {
    resources: Resources,
    tree: Option<WorkerTree>,
    errors: Vec<String>,
    process_error: Option<String>,
}

fn list_files(resources: &Resources) -> BTreeMap<String, String> {
    let mut m = BTreeMap::new();
    for p in resources.walk("") {
        m.insert(p.to_string_lossy().replace('\\', "/"), resources.get(&p).unwrap_or_default());
    }
    m
}

fn toggled(content: &str) -> String {
    if content.contains("v0") || content.contains("0'") {
        content.replace("v0", "v1").replace("0'", "1'")
    } else {
        content.replace("v1", "v0").replace("1'", "0'")
    }
}

impl World {
    fn new() -> Result<World, String> {
        let resources = Resources::from_memory();
        for (p, c) in initial_files() {
            resources.write(p, &c).map_err(|e| format!("{:?}", e))?;
        }
        let mut w = World { resources, tree: None, errors: vec![], process_error: None };
        w.process()?;
        Ok(w)
    }

    /// what FileWatcher::run_worker_tree does
    fn process(&mut self) -> Result<(), String> {
        darklua_core::verif_hooks::set_walk_permutation(0);
        let res = self.resources.clone();
        let mut tree = self.tree.take();
        let (tree, err) = guarded(move || match tree.as_mut() {
            Some(t) => {
                let r = t.process(&res, options());
                (tree, r.err().map(|e| e.to_string()))
            }
            None => match darklua_core::process(&res, options()) {
                Ok(t) => (Some(t), None),
                Err(e) => (None, Some(e.to_string())),
            },
        })
        .map_err(|p| format!("PANIC in process: {}", p))?;
        self.tree = tree;
        self.process_error = err;
        self.errors = self.tree.as_ref().map(|t| t.collect_errors().iter().map(|e| e.to_string()).collect()).unwrap_or_default();
        Ok(())
    }

    /// what FileWatcher::process_events does for the corresponding notify events (after mutating the files)
    fn apply(&mut self, batch: &[Event]) -> Result<(), String> {
        let mut has_created = false;
        let res = self.resources.clone();
        let mut tree = self.tree.take();
        let batch_owned: Vec<Event> = batch.to_vec();
        let (tree, created) = guarded(move || {
            for ev in &batch_owned {
                match ev {
                    Event::Edit(f) => {
                        if let Ok(c) = res.get(f) {
                            let _ = res.write(f, &toggled(&c));
                            if let Some(t) = tree.as_mut() {
                                t.source_changed(f);
                            }
                        }
                    }
                    Event::Spurious(f) => {
                        if let Some(t) = tree.as_mut() {
                            t.source_changed(f);
                        }
                    }
                    Event::Add(f) => {
                        if res.get(f).is_err() {
                            let body = if f.ends_with("b.lua") { "-- b v0\nreturn 'b0'\n".to_owned() } else { format!("-- {} v0\nreturn 'n0'\n", f) };
                            let _ = res.write(f, &body);
                            has_created = true;
                        }
                    }
                    Event::RemoveFile(f) => {
                        if res.get(f).is_ok() {
                            let _ = res.remove(f);
                            if let Some(t) = tree.as_mut() {
                                t.remove_source(f);
                            }
                        }
                    }
                    Event::RemoveDir(d) => {
                        let inside: Vec<_> = res.walk(d).collect();
                        if !inside.is_empty() {
                            for p in inside {
                                let _ = res.remove(&p);
                            }
                            if let Some(t) = tree.as_mut() {
                                t.remove_source(d);
                            }
                        }
                    }
                    Event::Rename(from, to) => {
                        if let Ok(c) = res.get(from) {
                            let _ = res.remove(from);
                            let _ = res.write(to, &c);
                            if let Some(t) = tree.as_mut() {
                                t.remove_source(from);
                                t.remove_source(to);
                            }
                            has_created = true;
                        }
                    }
                    Event::SetConfig(i) => {
                        let _ = res.write(".darklua.json", CONFIGS[*i]);
                        if let Some(t) = tree.as_mut() {
                            t.source_changed(".darklua.json");
                        }
                    }
                }
            }
            if has_created {
                if let Some(t) = tree.as_mut() {
                    let _ = t.collect_work(&res, &options());
                }
            }
            (tree, has_created)
        })
        .map_err(|p| format!("PANIC while delivering events: {}", p))?;
        let _ = created;
        self.tree = tree;
        self.process()
    }

    fn key(&self) -> u128 {
        let files = list_files(&self.resources);
        let digest = self.tree.as_ref().map(|t| t.verif_digest()).unwrap_or_default();
        hash128(&format!("{:?}|{}|{:?}", files, digest, self.process_error))
    }
}

fn replay(history: &[Vec<Event>]) -> Result<World, String> {
    let mut w = World::new()?;
    for batch in history {
        w.apply(batch)?;
    }
    Ok(w)
}

/// the oracle: a fresh run over the final inputs and configuration
fn judge(w: &World) -> Vec<String> {
    let mut problems = Vec::new();
    let files = list_files(&w.resources);
    let fresh = Resources::from_memory();
    for (p, c) in &files {
        let generated = p.starts_with("out/") && p != "out/README.txt" && p != "out/lib/keep.me";
        if !generated {
            let _ = fresh.write(p, c);
        }
    }
    let res = fresh.clone();
    let outcome = guarded(move || darklua_core::process(&res, options()));
    let (fresh_errors, fresh_fatal): (Vec<String>, Option<String>) = match outcome {
        Ok(Ok(t)) => (t.collect_errors().iter().map(|e| e.to_string()).collect(), None),
        Ok(Err(e)) => (vec![], Some(e.to_string())),
        Err(p) => return vec![format!("PANIC in the fresh run: {}", p)],
    };
    if let Some(f) = fresh_fatal {
        // a configuration that cannot be used at all: the incremental run must fail too
        if w.process_error.is_none() {
            problems.push(format!("a fresh run fails with `{}` but the incremental pass reported nothing", f));
        }
        return problems;
    }
    let fresh_files = list_files(&fresh);
    let sources: Vec<&String> = files.keys().filter(|p| p.starts_with("src/") && (p.ends_with(".lua") || p.ends_with(".luau"))).collect();
    let mut allowed_stale: HashSet<String> = HashSet::new();
    for s in &sources {
        let out = format!("out/{}", &s[4..]);
        let failing = fresh_errors.iter().any(|e| e.contains(s.as_str()));
        if failing {
            allowed_stale.insert(out.clone());
            if !w.errors.iter().any(|e| e.contains(s.as_str())) && w.process_error.is_none() {
                problems.push(format!("a fresh run reports an error for {} but the incremental pass does not: fresh errors {:?}, incremental errors {:?}", s, fresh_errors, w.errors));
            }
        } else {
            match (fresh_files.get(&out), files.get(&out)) {
                (Some(a), Some(b)) if a == b => {}
                (a, b) => problems.push(format!("{} differs from a fresh run\n    fresh:       {:?}\n    incremental: {:?}", out, a, b)),
            }
        }
    }
    for (p, c) in &files {
        if p.starts_with("out/") {
            match fresh_files.get(p) {
                Some(f) => {
                    if (p == "out/README.txt" || p == "out/lib/keep.me") && f != c {
                        problems.push(format!("foreign file {} was changed", p));
                    }
                }
                None => {
                    if !allowed_stale.contains(p) {
                        problems.push(format!("{} exists although a fresh run does not produce it (stale output of a removed source?)", p));
                    }
                }
            }
        }
    }
    for p in ["out/README.txt", "out/lib/keep.me"] {
        if !files.contains_key(p) {
            problems.push(format!("foreign file {} was deleted", p));
        }
    }
    problems
}

pub fn run(tier: Tier) -> Report {
    let mut report = Report::new("C10", "model_checking", tier);
    report.rule = "project: bundle entry src/main.lua (requires ./lib/a and ../vendor/v outside the input), src/lib/a.lua (requires ./b), src/lib/b.lua, src/util/c.lua, src/solo.lua, \
        foreign files out/README.txt and out/lib/keep.me, 5 configurations (bundle+no rules, +remove_comments, +rule filter, +dense generator, no bundle). Labels = 21 events (edit of \
        each source / bundled dependency / external dependency, add, re-add, remove file, remove directory, rename, configuration change, spurious notifications) delivered exactly as \
        FileWatcher::process_events does, in batches of 1 or 2 events followed by WorkerTree::process. BFS over batches from the state after the initial run, states rebuilt by replaying \
        the history on fresh real objects and merged on (all files, WorkerTree::verif_digest, last error); after every pass the output tree is compared with a fresh darklua_core::process \
        over the same inputs, configuration and foreign files"
        .to_owned();
    report.assumptions = vec![
        "the driver starts at the WorkerTree calls FileWatcher::process_events makes (notify/debouncer translation and symlink handling are not intercepted)".to_owned(),
        "a source that fails in the fresh run may keep a stale output; only the presence of an error for it is required".to_owned(),
        "in-memory resources (empty-directory pruning is a file-system-only behaviour)".to_owned(),
    ];
    let depth = tier.pick(2, 4);
    let mut batches: Vec<Vec<Event>> = EVENTS.iter().map(|e| vec![*e]).collect();
    for a in EVENTS {
        for b in EVENTS {
            if a != b {
                batches.push(vec![*a, *b]);
            }
        }
    }
    let single_count = EVENTS.len();
    // BFS level by level; each level's expansions run in parallel
    let mut seen: HashMap<u128, usize> = HashMap::new();
    let mut frontier: Vec<Vec<Vec<Event>>> = vec![vec![]];
    let root = match replay(&[]) {
        Ok(w) => w,
        Err(e) => crate::common::machinery_error(&format!("cannot build the initial state: {}", e)),
    };
    seen.insert(root.key(), 0);
    let root_problems = judge(&root);
    if !root_problems.is_empty() {
        report.violations.push(Violation { finding: None, summary: format!("initial run: {:?}", root_problems), replay: json!({"history": []}) });
    }
    report.states = 1;
    let mut distinct_outcomes: HashSet<u128> = HashSet::new();
    for level in 0..depth {
        // pairs are explored at the first two levels (quick: first level only), single events at every level
        let use_pairs = level < tier.pick(1, 2);
        let menu: &[Vec<Event>] = if use_pairs { &batches } else { &batches[..single_count] };
        let jobs: Vec<(usize, usize)> = (0..frontier.len()).flat_map(|i| (0..menu.len()).map(move |j| (i, j))).collect();
        let results: Vec<(Vec<Vec<Event>>, Result<(u128, Vec<String>, u128), String>)> = jobs
            .par_iter()
            .map(|(i, j)| {
                let mut h = frontier[*i].clone();
                h.push(menu[*j].clone());
                let r = replay(&h).map(|w| {
                    let problems = judge(&w);
                    let outcome = hash128(&format!("{:?}", list_files(&w.resources).iter().filter(|(p, _)| p.starts_with("out/")).collect::<Vec<_>>()));
                    (w.key(), problems, outcome)
                });
                (h, r)
            })
            .collect();
        let mut next = Vec::new();
        for (h, r) in results {
            report.transitions += 1;
            report.evaluations += 1;
            match r {
                Err(e) => report.violations.push(Violation {
                    finding: classify(&h, &[e.clone()]),
                    summary: format!("{}\n--- history {:?}", e, h),
                    replay: json!({"kind": "watch history", "history": format!("{:?}", h), "problem": e}),
                }),
                Ok((key, problems, outcome)) => {
                    distinct_outcomes.insert(outcome);
                    if !problems.is_empty() {
                        report.violations.push(Violation {
                            finding: classify(&h, &problems),
                            summary: format!("{}\n--- history (batches, each followed by a processing pass) {:?}", problems.join("\n"), h),
                            replay: json!({"kind": "watch history", "history": format!("{:?}", h), "problems": problems}),
                        });
                    }
                    if !seen.contains_key(&key) {
                        seen.insert(key, level + 1);
                        report.states += 1;
                        next.push(h);
                    }
                }
            }
        }
        report.distinct_nontrivial = report.states;
        frontier = next;
        if frontier.is_empty() {
            break;
        }
    }
    report.traces_validated = report.transitions;
    report.exhaustive = false;
    report.set("depth_bound_batches", depth as u64);
    report.set("frontier_left_unexpanded", frontier.len() as u64);
    report.set("distinct_outcomes", distinct_outcomes.len() as u64);
    report.set("events", json!(EVENTS.iter().map(|e| format!("{:?}", e)).collect::<Vec<_>>()));
    report.sample(json!({"history": [["Edit(\"src/lib/b.lua\")"], ["RemoveDir(\"src/lib\")", "SetConfig(1)"]]}));
    report
}

fn classify(_history: &[Vec<Event>], _problems: &[String]) -> Option<String> {
    None
}
