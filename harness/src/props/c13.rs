//! C13 — String and number literals survive generation exactly (Engine C, bounded-exhaustive literal spaces).
use crate::common::{Report, Tier, Violation};
use crate::dl::{self, Gen};
use crate::luaref::lexer::{lex, Mode, Tok};
use crate::luaref::{self, Outcome};
use darklua_core::nodes::{
    BinaryExpression, BinaryOperator, Block, DecimalNumber, Expression, FunctionCall, IndexExpression, InterpolatedStringExpression, LastStatement, Prefix, ReturnStatement, UnaryExpression, UnaryOperator,
    StringExpression, StringSegment,
};
use rayon::prelude::*;
use serde_json::json;

const CLASS_BYTES: &[u8] = &[0, 7, b'\n', b'\r', b'\t', 0x7f, b'\'', b'"', b'\\', b']', b'[', b'=', b'0', b'9', b'a', b' ', 0x80, 0xc3, 0xa9, 0xff, b'`', b'{', b'-'];

fn strings(tier: Tier) -> Vec<Vec<u8>> {
    let mut out: Vec<Vec<u8>> = vec![vec![]];
    // all byte strings of length <= 2
    for a in 0..=255u8 {
        out.push(vec![a]);
    }
    for a in 0..=255u8 {
        for b in 0..=255u8 {
            out.push(vec![a, b]);
        }
    }
    // all strings of length 3 (quick) / 3-4 (thorough) over the class representatives
    let n = CLASS_BYTES.len();
    for a in 0..n {
        for b in 0..n {
            for c in 0..n {
                out.push(vec![CLASS_BYTES[a], CLASS_BYTES[b], CLASS_BYTES[c]]);
                if tier == Tier::Thorough {
                    for d in 0..n {
                        out.push(vec![CLASS_BYTES[a], CLASS_BYTES[b], CLASS_BYTES[c], CLASS_BYTES[d]]);
                    }
                }
            }
        }
    }
    // long-bracket threshold family
    for len in [19usize, 20, 21, 59, 60, 61, 100] {
        for newlines in [0usize, 1, 5, 6, 7] {
            for tail in ["", "]", "]]", "]=]", "]==]", "]]]", "\n", "\r", "\r\n", "\\", "]=", "]==", "=", "]=]=", "[", "[["] {
                for lead in ["", "\n", "\r\n", "\r", "[[", "[=["] {
                    for mid in ["", "]]", "]=]", "\"", "'", "\"'", "\0", "--", "\\n"] {
                        let mut s = Vec::new();
                        s.extend_from_slice(lead.as_bytes());
                        let mut body = vec![b'x'; len];
                        for i in 0..newlines.min(len) {
                            body[(i * 3) % len] = b'\n';
                        }
                        s.extend_from_slice(&body);
                        s.extend_from_slice(mid.as_bytes());
                        s.extend_from_slice(tail.as_bytes());
                        out.push(s);
                    }
                }
            }
        }
    }
    // every control byte followed by a digit, multi-byte sequences
    for c in 0..=255u8 {
        for d in [b'0', b'5', b'9'] {
            out.push(vec![c, d]);
            out.push(vec![b'a', c, d, d]);
        }
    }
    for s in ["é", "€", "😀", "\u{feff}", "\u{7f}", "\u{80}", "\u{d7ff}", "\u{e000}", "\u{10ffff}", "a\u{301}"] {
        out.push(s.as_bytes().to_vec());
        out.push(format!("{}1", s).into_bytes());
    }
    out
}

fn decode_return_string(text: &str, mode: Mode) -> Result<Vec<u8>, String> {
    // the text is `return <literal>` possibly wrapped: find the single string token
    let lexed = lex(text.as_bytes(), mode).map_err(|e| e.to_string())?;
    let mut found: Vec<Vec<u8>> = Vec::new();
    for t in &lexed.tokens {
        match &t.tok {
            Tok::Str(s) | Tok::InterpSimple(s) => found.push(s.clone()),
            Tok::InterpBegin(_) | Tok::InterpMid(_) | Tok::InterpEnd(_) => return Err("unexpected interpolation hole".to_owned()),
            _ => {}
        }
    }
    if found.len() != 1 {
        return Err(format!("expected exactly one string token, found {}", found.len()));
    }
    if !lexed.comments.is_empty() {
        return Err("a comment appeared".to_owned());
    }
    Ok(found.pop().unwrap())
}

fn shapes(value: &[u8]) -> Vec<(&'static str, Block, Vec<&'static str>)> {
    // (shape name, tree, code tokens expected around the literal)
    let s = || StringExpression::from_value(value.to_vec());
    let ret = |e: Expression| Block::default().with_last_statement(LastStatement::Return(ReturnStatement::one(e)));
    vec![
        ("return <lit>", ret(s().into()), vec!["return"]),
        ("f<lit>", ret(FunctionCall::from_name("f").with_arguments(s()).into()), vec!["return", "f"]),
        ("t[<lit>]", ret(IndexExpression::new(Prefix::from_name("t"), s()).into()), vec!["return", "t", "[", "]"]),
        (
            "`<segment>`",
            ret(InterpolatedStringExpression::empty().with_segment(StringSegment::from_value(value.to_vec())).into()),
            vec!["return"],
        ),
    ]
}

fn check_string(value: &[u8]) -> (u64, Vec<Violation>) {
    let mut n = 0;
    let mut v = Vec::new();
    for (shape, block, expected_code) in shapes(value) {
        for gen in [Gen::Dense(80), Gen::Readable(80), Gen::Retain, Gen::Dense(1)] {
            n += 1;
            let text = match dl::generate(&block, "", gen) {
                Ok(t) => t,
                Err(e) => {
                    v.push(Violation { finding: None, summary: format!("{} writing string {:?}", e, value), replay: json!({"bytes": value, "shape": shape}) });
                    continue;
                }
            };
            let uses_u = text.contains("\\u{");
            // a literal that is not an interpolated string must mean the same under both dialects
            let modes: &[Mode] = if shape.starts_with('`') { &[Mode::Luau] } else { &[Mode::Luau, Mode::Lua51] };
            for mode in modes {
                let problem = match decode_return_string(&text, *mode) {
                    Ok(back) if back == value => {
                        // neighbouring code tokens must still be there
                        let lexed = lex(text.as_bytes(), *mode).unwrap();
                        let code: Vec<String> = lexed
                            .tokens
                            .iter()
                            .filter_map(|t| match &t.tok {
                                Tok::Name(n) => Some(n.clone()),
                                Tok::Sym(s) if *s != "(" && *s != ")" => Some(s.to_string()),
                                _ => None,
                            })
                            .collect();
                        if code != expected_code {
                            Some(format!("code tokens around the literal are {:?}, expected {:?}", code, expected_code))
                        } else {
                            None
                        }
                    }
                    Ok(back) => Some(format!("read back as {:?}", back)),
                    Err(e) => Some(format!("cannot be read back: {}", e)),
                };
                if let Some(p) = problem {
                    // known finding: non-ASCII characters are written `\u{...}`, an escape Lua 5.1 does not have. Repair model:
                    // with every such escape replaced by the character itself the same text reads back correctly under Lua 5.1
                    let finding = if *mode == Mode::Lua51 && uses_u {
                        let re = regex::Regex::new(r"\\u\{([0-9a-fA-F]+)\}").unwrap();
                        let repaired = re.replace_all(&text, |c: &regex::Captures| u32::from_str_radix(&c[1], 16).ok().and_then(char::from_u32).map(|ch| ch.to_string()).unwrap_or_default()).into_owned();
                        match decode_return_string(&repaired, Mode::Lua51) {
                            Ok(back) if back == value => Some("non-ascii-written-as-unicode-escape-unknown-to-lua51".to_owned()),
                            _ => None,
                        }
                    } else {
                        None
                    };
                    v.push(Violation {
                        finding,
                        summary: format!("string {:?} written by {} as {:?} (shape {}) {} under {:?} rules", value, gen.name(), text, shape, p, mode),
                        replay: json!({"kind": "string literal", "bytes": value, "shape": shape, "generator": gen.name(), "text": text, "mode": format!("{:?}", mode)}),
                    });
                }
            }
        }
    }
    (n, v)
}

fn numbers(tier: Tier) -> Vec<f64> {
    let mut out = vec![0.0, -0.0, f64::INFINITY, f64::NEG_INFINITY, f64::NAN, f64::MIN_POSITIVE, f64::MAX, f64::MIN, 5e-324, f64::EPSILON];
    for e in -1074..=1023 {
        out.push(2f64.powi(e));
    }
    for e in -323..=308 {
        out.push(format!("1e{}", e).parse::<f64>().unwrap());
        out.push(format!("9.999999999999999e{}", e).parse::<f64>().unwrap());
        out.push(format!("1.5e{}", e).parse::<f64>().unwrap());
    }
    let base = out.clone();
    let span: i64 = tier.pick(1, 2);
    for v in base {
        if v.is_finite() {
            for d in -span..=span {
                let bits = v.to_bits() as i64 + d;
                let w = f64::from_bits(bits as u64);
                if w.is_finite() {
                    out.push(w);
                    out.push(-w);
                }
            }
        }
    }
    for k in 0..=4 {
        out.push(9007199254740992.0 + k as f64);
        out.push(9007199254740992.0 - k as f64);
    }
    for s in [
        "0.1", "0.2", "0.3", "0.30000000000000004", "1e23", "8.5e22", "2.2250738585072011e-308", "2.2250738585072014e-308", "4.9e-324",
        "1.7976931348623157e308", "123456789012345680", "0.000001", "1e-7", "100", "1000", "999", "1100", "12300", "5e-5", "0.1234567890123456789",
        "3.141592653589793", "255", "65535", "4294967296", "1e15", "1e16", "1e21", "1e22", "0.5", "1.5", "100.5", "1e300", "7e-10", "999.9",
    ] {
        let v: f64 = s.parse().unwrap();
        out.push(v);
        out.push(-v);
    }
    out
}

fn eval_number_text(text: &str) -> Result<String, String> {
    match luaref::observe(text, luaref::Mode::Luau, 1000, &|_| {}).outcome {
        Outcome::Returned(r) => Ok(r),
        other => Err(format!("{:?}", other)),
    }
}

fn ser(v: f64) -> String {
    if v.is_nan() {
        "NaN".to_owned()
    } else {
        format!("{:?}", v)
    }
}

fn check_number(v: f64) -> (u64, Vec<Violation>) {
    let mut n = 0;
    let mut out = Vec::new();
    let mut trees: Vec<(String, Expression)> = vec![("Expression::from(f64)".to_owned(), Expression::from(v))];
    if !v.is_finite() && !(v < 0.0) {
        // what parsing `1e999` produces: a non-finite decimal with a recorded exponent
        for e in [0i64, 1, 308, 999, -5] {
            for upper in [false, true] {
                trees.push((format!("DecimalNumber(non-finite) with_exponent({}, {})", e, upper), DecimalNumber::new(v).with_exponent(e, upper).into()));
            }
        }
        trees.push(("DecimalNumber::new(non-finite)".to_owned(), DecimalNumber::new(v).into()));
    }
    if v.is_finite() && v >= 0.0 {
        trees.push(("DecimalNumber::new".to_owned(), DecimalNumber::new(v).into()));
        let e10 = if v == 0.0 { 0 } else { v.log10().floor() as i64 };
        for d in -3..=3 {
            for upper in [false, true] {
                trees.push((format!("DecimalNumber with_exponent({}, {})", e10 + d, upper), DecimalNumber::new(v).with_exponent(e10 + d, upper).into()));
            }
        }
    }
    for (name, expr) in trees {
        let block = Block::default().with_last_statement(LastStatement::Return(ReturnStatement::one(expr)));
        for gen in [Gen::Dense(80), Gen::Readable(80), Gen::Retain] {
            n += 1;
            let text = match dl::generate(&block, "", gen) {
                Ok(t) => t,
                Err(e) => {
                    out.push(Violation { finding: None, summary: format!("{} writing number {:?}", e, v), replay: json!({"bits": v.to_bits()}) });
                    continue;
                }
            };
            let expected = ser(v);
            match eval_number_text(&text) {
                Ok(r) if r == expected => {}
                other => out.push(Violation {
                    finding: None,
                    summary: format!("number {} (bits {:#x}, built by {}) written by {} as `{}` reads back as {:?}", expected, v.to_bits(), name, gen.name(), text.trim(), other),
                    replay: json!({"kind": "number literal", "bits": v.to_bits(), "built_by": name, "generator": gen.name(), "text": text}),
                }),
            }
        }
    }
    // the number as an operand: the parentheses (or the space) the writer adds around a negative number decide the value
    let operand = || Expression::from(v);
    let two = || Expression::from(2.0);
    // the expected value is what the reference interpreter gives the same expression with the number written in a form that
    // cannot be misread (sign and magnitude between parentheses), so that both sides use the same arithmetic
    let reference_number = if v.is_nan() {
        "(0/0)".to_owned()
    } else if v.is_infinite() {
        if v > 0.0 { "(1/0)".to_owned() } else { "(-1/0)".to_owned() }
    } else if v.is_sign_negative() {
        format!("(-{:?})", -v)
    } else {
        format!("({:?})", v)
    };
    let reference = |template: &str| -> String { eval_number_text(&format!("return {}", template.replace("<n>", &reference_number))).unwrap_or_else(|e| e) };
    let contexts: Vec<(&str, Expression, String)> = vec![
        ("<n> ^ 2", BinaryExpression::new(BinaryOperator::Caret, operand(), two()).into(), reference("<n> ^ 2")),
        ("<n> ^ -2", BinaryExpression::new(BinaryOperator::Caret, operand(), Expression::from(-2.0)).into(), reference("<n> ^ (-2)")),
        ("2 ^ <n>", BinaryExpression::new(BinaryOperator::Caret, two(), operand()).into(), reference("2 ^ <n>")),
        ("- <n>", UnaryExpression::new(UnaryOperator::Minus, operand()).into(), reference("- <n>")),
        ("1 / <n>", BinaryExpression::new(BinaryOperator::Slash, Expression::from(1.0), operand()).into(), reference("1 / <n>")),
        ("<n> - <n>", BinaryExpression::new(BinaryOperator::Minus, operand(), operand()).into(), reference("<n> - <n>")),
        ("2 - <n>", BinaryExpression::new(BinaryOperator::Minus, two(), operand()).into(), reference("2 - <n>")),
        ("<n> * 2", BinaryExpression::new(BinaryOperator::Asterisk, operand(), two()).into(), reference("<n> * 2")),
    ];
    for (name, expr, expected) in contexts {
        let block = Block::default().with_last_statement(LastStatement::Return(ReturnStatement::one(expr)));
        for gen in [Gen::Dense(80), Gen::Readable(80), Gen::Retain] {
            n += 1;
            let text = match dl::generate(&block, "", gen) {
                Ok(t) => t,
                Err(e) => {
                    out.push(Violation { finding: None, summary: format!("{} writing `{}` for number {:?}", e, name, v), replay: json!({"bits": v.to_bits(), "context": name}) });
                    continue;
                }
            };
            match eval_number_text(&text) {
                Ok(r) if r == expected => {}
                other => out.push(Violation {
                    finding: None,
                    summary: format!("`{}` with the number {} (bits {:#x}) written by {} as `{}` evaluates to {:?}, expected {}", name, ser(v), v.to_bits(), gen.name(), text.trim(), other, expected),
                    replay: json!({"kind": "number operand", "bits": v.to_bits(), "context": name, "generator": gen.name(), "text": text}),
                }),
            }
        }
    }
    (n, out)
}

/// every text over the literal alphabet up to length `max_len` that luaref accepts as one Luau number token
fn number_texts(max_len: usize) -> Vec<String> {
    let alphabet: &[u8] = b"0123456789_.eExXbBaF+-";
    let mut out = Vec::new();
    let mut cur: Vec<Vec<u8>> = vec![vec![]];
    for _ in 0..max_len {
        let mut next = Vec::new();
        for p in &cur {
            for c in alphabet {
                let mut q = p.clone();
                q.push(*c);
                // prune: a number literal starts with a digit or '.digit'
                if q.len() == 1 && !(q[0].is_ascii_digit() || q[0] == b'.') {
                    continue;
                }
                next.push(q);
            }
        }
        for q in &next {
            let text = String::from_utf8(q.clone()).unwrap();
            if let Ok(l) = lex(text.as_bytes(), Mode::Luau) {
                if l.tokens.len() == 2 && matches!(l.tokens[0].tok, Tok::Number(_)) && l.tokens[0].end == text.len() {
                    out.push(text);
                }
            }
        }
        // keep only prefixes that can still become numbers (start with digit or '.')
        cur = next;
        if cur.len() > 3_000_000 {
            break;
        }
    }
    out
}

fn check_parse(text: &str) -> Option<Violation> {
    let expected = match lex(text.as_bytes(), Mode::Luau).ok()?.tokens.first()?.tok.clone() {
        Tok::Number(v) => v,
        _ => return None,
    };
    let src = format!("return {}", text);
    match dl::parse(&src, false) {
        Ok(block) => {
            let value = match block.get_last_statement() {
                Some(LastStatement::Return(r)) => match r.iter_expressions().next() {
                    Some(Expression::Number(n)) => Some(n.compute_value()),
                    _ => None,
                },
                _ => None,
            };
            match value {
                Some(v) if v.to_bits() == expected.to_bits() || (v.is_nan() && expected.is_nan()) => {
                    // the parsed literal written back by every generator must still denote the same number
                    for gen in [Gen::Dense(80), Gen::Readable(80), Gen::Retain] {
                        let text2 = match dl::generate(&block, &src, gen) {
                            Ok(t) => t,
                            Err(e) => return Some(Violation { finding: None, summary: format!("{} writing literal `{}`", e, text), replay: json!({"text": text}) }),
                        };
                        let want = ser(expected);
                        match eval_number_text(&text2) {
                            Ok(r) if r == want => {}
                            other => {
                                return Some(Violation {
                                    finding: None,
                                    summary: format!("literal `{}` (value {}) parsed and written back by {} as `{}` reads as {:?}", text, want, gen.name(), text2.trim(), other),
                                    replay: json!({"kind": "number rewrite", "text": text, "generator": gen.name(), "output": text2}),
                                })
                            }
                        }
                    }
                    // the token kept by retain_lines must not fuse with a following word once the spaces are removed
                    for (context, next) in [("local a = @ or b", "or"), ("for i = a, @ do end", "do"), ("return a == @ and b", "and")] {
                        let src2 = context.replace('@', text);
                        if let Ok(mut block2) = dl::parse(&src2, true) {
                            let rule = dl::make_rule("'remove_spaces'");
                            let resources = darklua_core::Resources::from_memory();
                            if dl::apply(rule.as_ref(), &mut block2, &src2, &resources, "src/test.lua").is_ok() {
                                if let Ok(out) = dl::generate(&block2, &src2, Gen::Retain) {
                                    let ok = match lex(out.as_bytes(), Mode::Luau) {
                                        Ok(l) => {
                                            let pos = l.tokens.iter().position(|t| matches!(&t.tok, Tok::Number(v) if v.to_bits() == expected.to_bits() || (v.is_nan() && expected.is_nan())));
                                            match pos {
                                                Some(i) => matches!(l.tokens.get(i + 1).map(|t| &t.tok), Some(Tok::Name(n)) if n == next) || matches!(l.tokens.get(i + 1).map(|t| &t.tok), Some(Tok::Sym(s)) if *s == next),
                                                None => false,
                                            }
                                        }
                                        Err(_) => false,
                                    };
                                    if !ok {
                                        return Some(Violation {
                                            finding: None,
                                            summary: format!("literal `{}` in `{}` after remove_spaces is written by retain_lines as `{}`: the number or the word after it is no longer the same token", text, src2, out.trim()),
                                            replay: json!({"kind": "number neighbour", "text": text, "context": context, "output": out}),
                                        });
                                    }
                                }
                            }
                        }
                    }
                    None
                }
                other => Some(Violation {
                    finding: None,
                    summary: format!("literal `{}` parsed by darklua as {:?}, Luau value is {:?}", text, other, expected),
                    replay: json!({"kind": "number parse", "text": text, "darklua": format!("{:?}", other), "luau": format!("{:?}", expected)}),
                }),
            }
        }
        Err(e) => {
            if e.starts_with("PANIC") {
                Some(Violation { finding: None, summary: format!("{} on literal `{}`", e, text), replay: json!({"text": text}) })
            } else {
                // darklua rejects a literal Luau accepts: reported as a count, judged under C12/C03 alphabets
                None
            }
        }
    }
}

/// pieces of string literal source text: escapes of every form, and the characters that may follow them
const LITERAL_PIECES: &[&str] = &[
    "\\0", "\\9", "\\10", "\\065", "\\255", "\\010", "\\001", "\\000", "\\09", "\\x41", "\\x0a", "\\xFF", "\\u{41}", "\\u{7FF}", "\\u{10FFFF}", "\\u{0}", "\\u{D800}", "\\u{DFFF}", "\\u{110000}", "\\u{FFFFFFFFF}", "\\u{}", "\\u{g}", "\\x4", "\\256", "\\q", "\\z ", "\\z\n  ", "\\z\x0B ", "\\z\x0C\t", "\\z", "\\\n", "\\n", "\\r", "\\t",
    "\\a", "\\b", "\\f", "\\v", "\\\\", "\\\"", "\\'", "0", "1", "9", "a", "F", "f", " ", "{", "}", "x", "u", "z", "é",
];

/// every sequence of up to `n` pieces between double quotes, single quotes and (without escapes) as a backtick string
fn literal_texts(n: usize) -> Vec<String> {
    let mut bodies: Vec<String> = vec![String::new()];
    let mut cur: Vec<String> = vec![String::new()];
    for _ in 0..n {
        let mut next = Vec::new();
        for b in &cur {
            for p in LITERAL_PIECES {
                next.push(format!("{}{}", b, p));
            }
        }
        bodies.extend(next.iter().cloned());
        cur = next;
    }
    let mut out = Vec::new();
    // long bracket literals: line breaks of every kind at the start, in the middle and at the end
    let long_pieces = ["a", "\r\n", "\n", "\r", "\n\r", "]", "]=", "[[", "\\n", " "];
    let mut longs: Vec<String> = vec![String::new()];
    let mut cur: Vec<String> = vec![String::new()];
    for _ in 0..n.max(3) {
        let mut next = Vec::new();
        for b in &cur {
            for p in long_pieces {
                next.push(format!("{}{}", b, p));
            }
        }
        longs.extend(next.iter().cloned());
        cur = next;
    }
    for b in longs {
        if !b.contains("]]") && !b.ends_with(']') {
            out.push(format!("[[{}]]", b));
        }
        if !b.contains("]=]") {
            out.push(format!("[=[{}]=]", b));
        }
    }
    // a backslash directly before each kind of line break in a quoted string
    for br in ["\n", "\r\n", "\r", "\n\r"] {
        for q in ['"', '\''] {
            out.push(format!("{}a\\{}b{}", q, br, q));
            out.push(format!("{}\\{}{}", q, br, q));
            out.push(format!("{}\\z{} b{}", q, br, q));
        }
    }
    for b in bodies {
        out.push(format!("\"{}\"", b));
        out.push(format!("'{}'", b));
        if !b.contains('{') && !b.contains('}') {
            out.push(format!("`{}`", b));
        }
    }
    out
}

/// the value darklua gives a string literal of the source must be the value the language gives it
fn check_string_parse(text: &str) -> Option<Violation> {
    let expected = match lex(text.as_bytes(), Mode::Luau) {
        Ok(l) => match l.tokens.first().map(|t| t.tok.clone()) {
            Some(Tok::Str(v)) if l.tokens.len() == 2 => v,
            Some(Tok::InterpSimple(v)) if l.tokens.len() == 2 => v,
            _ => return None,
        },
        Err(_) => return None,
    };
    let src = format!("return {}", text);
    let block = match dl::parse(&src, false) {
        Ok(b) => b,
        Err(e) if e.starts_with("PANIC") => return Some(Violation { finding: None, summary: format!("{} on literal {}", e, text), replay: json!({"text": text}) }),
        Err(_) => return None,
    };
    let value: Option<Vec<u8>> = match block.get_last_statement() {
        Some(LastStatement::Return(r)) => match r.iter_expressions().next() {
            Some(Expression::String(s)) => Some(s.get_value().to_vec()),
            Some(Expression::InterpolatedString(s)) => {
                let mut bytes = Vec::new();
                for segment in s.iter_segments() {
                    match segment {
                        darklua_core::nodes::InterpolationSegment::String(part) => bytes.extend_from_slice(part.get_value()),
                        darklua_core::nodes::InterpolationSegment::Value(_) => return None,
                    }
                }
                Some(bytes)
            }
            _ => None,
        },
        _ => None,
    };
    match value {
        Some(v) if v == expected => None,
        other => Some(Violation {
            finding: None,
            summary: format!("string literal {} is read by darklua as {:?}; its value is {:?}", text, other.map(|v| crate::luaref::interp::quote_bytes(&v)), crate::luaref::interp::quote_bytes(&expected)),
            replay: json!({"kind": "string parse", "text": text}),
        }),
    }
}

/// Bug model of the parser dependency (full_moon 2.2.0, tokenizer/interpolated_strings.rs): after `\z` the tokenizer stays
/// in its escape state, so the character after it is taken as escaped, which moves where it sees the holes of an
/// interpolated string. Returns the source rewritten so that Luau's rules put the holes where full_moon puts them (a brace
/// it does not see as a hole gets a backslash, a brace it wrongly sees as a hole loses its backslash).
fn full_moon_reading(src: &str) -> String {
    #[derive(PartialEq)]
    enum Fm {
        Normal,
        /// after a backslash (and still after `\z`)
        Escape,
        /// after `\` followed by `u`: the `u` is consumed
        AfterBackslashU,
        /// the `{` of `\u{` is consumed
        UnicodeOpen,
        /// inside `\u{...`, up to (not including) the `}`
        Unicode,
    }
    let b: Vec<char> = src.chars().collect();
    let start = match b.iter().position(|c| *c == '`') {
        Some(i) => i + 1,
        None => return src.to_owned(),
    };
    let mut out: Vec<char> = b[..start].to_vec();
    let mut i = start;
    let mut fm = Fm::Normal;
    // Luau: index up to which characters are already consumed by an escape
    let mut luau_skip_to = start;
    while i < b.len() {
        let c = b[i];
        let next = b.get(i + 1).copied();
        // ---- Luau
        if i >= luau_skip_to && c == '\\' {
            let mut j = i + 1;
            if j < b.len() {
                match b[j] {
                    'u' if j + 1 < b.len() && b[j + 1] == '{' => j += 2,
                    '\r' => {
                        j += 1;
                        if j < b.len() && b[j] == '\n' {
                            j += 1;
                        }
                    }
                    'z' => {
                        j += 1;
                        while j < b.len() && matches!(b[j], ' ' | '\t' | '\n' | '\r' | '\u{b}' | '\u{c}') {
                            j += 1;
                        }
                    }
                    _ => j += 1,
                }
            }
            luau_skip_to = j;
        }
        let luau_hole = c == '{' && i >= luau_skip_to;
        let luau_end = c == '`' && i >= luau_skip_to;
        // ---- full_moon
        let (mut fm_hole, mut fm_end) = (false, false);
        match fm {
            Fm::Escape => fm = if c == 'z' { Fm::Escape } else { Fm::Normal },
            Fm::AfterBackslashU => fm = if next == Some('{') { Fm::UnicodeOpen } else { Fm::Normal },
            Fm::UnicodeOpen => fm = if next == Some('}') || next.is_none() { Fm::Normal } else { Fm::Unicode },
            Fm::Unicode => {
                if next == Some('}') || next.is_none() {
                    fm = Fm::Normal;
                }
            }
            Fm::Normal => {
                if c == '\\' {
                    fm = if next == Some('u') { Fm::AfterBackslashU } else { Fm::Escape };
                } else {
                    fm_hole = c == '{';
                    fm_end = c == '`';
                }
            }
        }
        if luau_hole && !fm_hole {
            out.push('\\');
            out.push(c);
            i += 1;
        } else if fm_hole && !luau_hole {
            // drop the backslash Luau saw before it
            if out.last() == Some(&'\\') {
                out.pop();
            }
            out.push(c);
            i += 1;
        } else if luau_hole {
            // both open a hole: copy it up to the matching brace
            let mut depth = 0;
            while i < b.len() {
                out.push(b[i]);
                if b[i] == '{' {
                    depth += 1;
                } else if b[i] == '}' {
                    depth -= 1;
                    if depth == 0 {
                        i += 1;
                        break;
                    }
                }
                i += 1;
            }
            luau_skip_to = luau_skip_to.max(i);
        } else if luau_end != fm_end {
            // the literal ends at different places: not modelled
            return src.to_owned();
        } else {
            out.push(c);
            i += 1;
            if luau_end {
                out.extend_from_slice(&b[i..]);
                break;
            }
        }
    }
    out.into_iter().collect()
}

/// an interpolated string with holes, parsed without tokens and written by every generator, reads back as the same
/// sequence of string parts and values
fn check_interpolated_roundtrip(text: &str) -> Vec<Violation> {
    let src = format!("return {}", text);
    let toks = |t: &str| -> Option<Vec<Tok>> { lex(t.as_bytes(), Mode::Luau).ok().map(|l| l.tokens.into_iter().map(|t| t.tok).collect()) };
    let expected = match toks(&src) {
        Some(t) => t,
        None => return vec![],
    };
    let mut out = Vec::new();
    for with_tokens in [false, true] {
        let block = match dl::parse(&src, with_tokens) {
            Ok(b) => b,
            Err(e) if e.starts_with("PANIC") => return vec![Violation { finding: None, summary: format!("{} on literal {}", e, text), replay: json!({"kind": "interpolated", "text": text}) }],
            Err(_) => return vec![],
        };
        for gen in [Gen::Dense(80), Gen::Readable(80), Gen::Retain] {
            let problem = match dl::generate(&block, &src, gen) {
                Err(e) => Some(e),
                Ok(written) => match toks(&written) {
                    None => Some(format!("written as {:?}, which does not lex", written)),
                    Some(t) if t != expected => Some(format!("written as {:?}, which reads differently", written)),
                    _ => None,
                },
            };
            if let Some(problem) = problem {
                // full_moon keeps escaping after `\z`: a brace directly after it is swallowed (known finding, attributed
                // only when the output reads exactly like the source with that brace escaped)
                let model = full_moon_reading(&src);
                let matches_model = model != src && src.contains("\\z") && dl::generate(&block, &src, gen).ok().and_then(|w| toks(&w)).is_some_and(|t| Some(t) == toks(&model));
                out.push(Violation {
                    finding: if matches_model { Some("z-escape-directly-before-an-interpolation-brace-swallows-the-brace".to_owned()) } else { None },
                    summary: format!("interpolated string {:?} parsed {} tokens and written by {}: {}", text, if with_tokens { "with" } else { "without" }, gen.name(), problem),
                    replay: json!({"kind": "interpolated", "text": text}),
                });
            }
        }
    }
    out
}

/// text appended through the public API to the last string part of a parsed interpolated string is written by every generator
fn check_appended_segment(literal: &str, appended: &str) -> Vec<Violation> {
    let src = format!("return {}", literal);
    let toks = |t: &str| -> Option<Vec<Tok>> { lex(t.as_bytes(), Mode::Luau).ok().map(|l| l.tokens.into_iter().map(|t| t.tok).collect()) };
    let escaped = appended.replace('\\', "\\\\").replace('`', "\\`").replace('{', "\\{").replace('\n', "\\n");
    let expected_text = format!("return {}{}`", &literal[..literal.len() - 1], escaped);
    let expected = match toks(&expected_text) {
        Some(t) => t,
        None => return vec![],
    };
    let mut out = Vec::new();
    for with_tokens in [false, true] {
        let mut block = match dl::parse(&src, with_tokens) {
            Ok(b) => b,
            Err(_) => return vec![],
        };
        let mut done = false;
        if let Some(LastStatement::Return(r)) = block.mutate_last_statement() {
            if let Some(Expression::InterpolatedString(s)) = r.iter_mut_expressions().next() {
                s.push_segment(StringSegment::from_value(appended));
                done = true;
            }
        }
        if !done {
            return vec![];
        }
        for gen in [Gen::Dense(80), Gen::Readable(80), Gen::Retain] {
            let problem = match dl::generate(&block, &src, gen) {
                Err(e) => Some(e),
                Ok(written) => match toks(&written) {
                    Some(t) if t == expected => None,
                    _ => Some(format!("written as {:?}", written)),
                },
            };
            if let Some(problem) = problem {
                out.push(Violation {
                    finding: None,
                    summary: format!("{} parsed {} tokens, then push_segment({:?}): {} by {}, expected the parts of {:?}", literal, if with_tokens { "with" } else { "without" }, appended, problem, gen.name(), expected_text),
                    replay: json!({"kind": "appended segment", "literal": literal, "appended": appended}),
                });
            }
        }
    }
    out
}

pub fn run(tier: Tier) -> Report {
    let mut report = Report::new("C13", "exploration", tier);
    report.rule = "strings: ALL byte strings of length <= 2 (65 793), all strings of length 3 (4 in thorough) over 23 class bytes, the long-bracket \
        threshold family (lengths 19-100 x newline counts x tails `]`/`]]`/`]=]`/CR/LF/backslash x leading newline/`[[` x embedded `]]`/quotes/NUL), every \
        byte followed by a digit, multi-byte UTF-8; each written by dense(80), readable(80), dense(1) and token-less retain_lines in four shapes (plain, \
        call-sugar argument, table index, interpolated-string segment) and read back by the luaref lexer with Luau rules and (unless \\u{ or backtick) Lua \
        5.1 rules. numbers: +-0, inf, nan, all 2098 powers of two, all powers of ten and 1.5/9.99..e(k), each +-1 ulp (2 in thorough), 2^53 neighbours, \
        hard cases; via Expression::from(f64) and DecimalNumber with recorded exponents -3..+3 and both cases; read back by luaref (bit-exact). parsing: \
        every text over `0-9 _ . e E x X b B a F + -` up to 5 (6) characters that luaref lexes as one Luau number is parsed by darklua and \
        compute_value() compared bit-exactly; every sequence of up to 2 (3) pieces from 54 string-literal pieces (every escape form, digits and hex digits that may follow one, braces) in double quotes, single quotes and backticks is parsed by darklua and its value compared with the luaref lexer's; every backtick body is also placed before, after and around holes, parsed with and without tokens and written by the three generators: the output must lex to the same parts. non-trivial = the writer had to escape or choose a quoting form / the number needs more than 3 digits"
        .to_owned();
    report.assumptions = vec![
        "the luaref lexer implements Lua 5.1 and Luau escape and numeral rules (manual §2.1; Luau lexer)".to_owned(),
        "Rust's f64 parsing is correctly rounded".to_owned(),
    ];
    let strs = strings(tier);
    let res: Vec<(u64, Vec<Violation>, bool)> = strs
        .par_iter()
        .map(|s| {
            let (n, v) = check_string(s);
            let nontrivial = s.iter().any(|c| !(0x20..0x7f).contains(c) || matches!(c, b'\'' | b'"' | b'\\' | b']'));
            (n, v, nontrivial)
        })
        .collect();
    for (n, v, nt) in res {
        report.evaluations += n;
        if nt {
            report.distinct_nontrivial += 1;
        }
        report.violations.extend(v);
    }
    report.set("strings", strs.len() as u64);
    let mut nums = numbers(tier);
    nums.sort_by(|a, b| a.to_bits().cmp(&b.to_bits()));
    nums.dedup_by(|a, b| a.to_bits() == b.to_bits());
    let res: Vec<(u64, Vec<Violation>)> = nums.par_iter().map(|v| check_number(*v)).collect();
    for (n, v) in res {
        report.evaluations += n;
        report.distinct_nontrivial += 1;
        report.violations.extend(v);
    }
    report.set("numbers", nums.len() as u64);
    let texts = number_texts(tier.pick(5, 6));
    let res: Vec<Option<Violation>> = texts.par_iter().map(|t| check_parse(t)).collect();
    report.evaluations += texts.len() as u64;
    for v in res.into_iter().flatten() {
        report.violations.push(v);
    }
    report.set("number_literal_texts", texts.len() as u64);
    let lits = literal_texts(tier.pick(2, 3));
    let res: Vec<Option<Violation>> = lits.par_iter().map(|t| check_string_parse(t)).collect();
    report.evaluations += lits.len() as u64;
    for v in res.into_iter().flatten() {
        report.violations.push(v);
    }
    report.set("string_literal_texts", lits.len() as u64);
    // the same bodies around one or two holes
    let mut holes: Vec<String> = Vec::new();
    for t in &lits {
        if let Some(body) = t.strip_prefix('`').and_then(|r| r.strip_suffix('`')) {
            holes.push(format!("`{}{{x}}`", body));
            holes.push(format!("`{{x}}{}`", body));
            holes.push(format!("`{}{{x}}{}{{ {{}} }}`", body, body));
        }
    }
    let res: Vec<Vec<Violation>> = holes.par_iter().map(|t| check_interpolated_roundtrip(t)).collect();
    report.evaluations += 6 * holes.len() as u64;
    for v in res.into_iter().flatten() {
        report.violations.push(v);
    }
    report.set("interpolated_literal_texts", holes.len() as u64);
    let mut appended_cases = 0u64;
    for literal in ["`a`", "`{x}a`", "`a{x}b`", "`{x}`", "``", "`a\\n{x}\\t`"] {
        for appended in ["b", "1", " tail", "`", "{", "\n"] {
            appended_cases += 6;
            report.violations.extend(check_appended_segment(literal, appended));
        }
    }
    report.evaluations += appended_cases;
    report.set("appended_segment_cases", appended_cases);
    for idx in [11usize, 300, 70000 % strs.len(), strs.len() - 5000, strs.len() - 40] {
        let value = &strs[idx];
        let texts: Vec<String> = shapes(value)
            .into_iter()
            .flat_map(|(_, b, _)| [Gen::Dense(80), Gen::Readable(80), Gen::Retain].into_iter().map(move |g| dl::generate(&b, "", g).unwrap_or_default()))
            .collect();
        report.sample(json!({"string_bytes": value, "written_as": texts}));
    }
    report.sample(json!({"number": format!("{:?}", nums[nums.len() / 2])}));
    report.sample(json!({"literal_texts": &texts[texts.len() / 2..texts.len() / 2 + 5]}));
    report
}
