use crate::common::{Report, Tier};

pub fn run(id: &str, tier: Tier) -> Option<Report> {
    let _ = tier;
    match id {
        _ => None,
    }
}

pub fn replay(id: &str, path: &str) -> i32 {
    println!("replay of {} from {} not implemented", id, path);
    2
}
