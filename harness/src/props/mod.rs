pub mod behave;
pub mod c01;
pub mod c02;
pub mod c03;
pub mod c04;
pub mod c05;
pub mod c06;
pub mod c07;
pub mod c08;
pub mod c09;
pub mod c10;
pub mod c11;
pub mod c12;
pub mod c13;
pub mod c14;
pub mod c15;
pub mod c16;
pub mod c17;
pub mod c18;
pub mod c19;
pub mod c20;
pub mod findings;

use crate::common::{Report, Tier};

pub fn run(id: &str, tier: Tier) -> Option<Report> {
    Some(match id {
        "C01" => c01::run(tier),
        "C02" => c02::run(tier),
        "C03" => c03::run(tier),
        "C04" => c04::run(tier),
        "C05" => c05::run(tier),
        "C06" => c06::run(tier),
        "C07" => c07::run(tier),
        "C08" => c08::run(tier),
        "C09" => c09::run(tier),
        "C10" => c10::run(tier),
        "C11" => c11::run_check(tier),
        "C12" => c12::run(tier),
        "C13" => c13::run(tier),
        "C14" => c14::run(tier),
        "C15" => c15::run(tier),
        "C16" => c16::run(tier),
        "C17" => c17::run(tier),
        "C18" => c18::run(tier),
        "C19" => c19::run(tier),
        "C20" => c20::run(tier),
        _ => return None,
    })
}

pub fn replay(id: &str, path: &str) -> i32 {
    let text = match std::fs::read_to_string(path) {
        Ok(t) => t,
        Err(e) => {
            println!("cannot read {}: {}", path, e);
            return 2;
        }
    };
    let doc: serde_json::Value = serde_json::from_str(&text).unwrap_or_default();
    let replay = &doc["replay"];
    println!("{}", doc["summary"].as_str().unwrap_or(""));
    match (id, replay["kind"].as_str()) {
        ("C01" | "C06" | "C16", Some("pipeline")) => behave::replay_pipeline(replay, behave::env_none(), behave::env_none()),
        ("C15", Some("resolve" | "convert" | "nested")) => c15::replay(replay),
        ("C10", Some("watch history")) => c10::replay_history(replay),
        ("C05", Some("bundle")) => c05::replay(replay),
        _ => {
            println!("no dedicated replay for this record; the summary above holds the complete case");
            2
        }
    }
}
