//! C14 — Data files convert to Lua values equal to the data (Engine C, bounded-exhaustive documents).
use crate::common::{guarded, Report, Tier, Violation};
use crate::dl;
use crate::luaref::interp::Interp;
use crate::luaref::value::Value;
use crate::luaref::{parser, Mode};
use rayon::prelude::*;
use serde_json::json;

#[derive(Clone, Debug, PartialEq)]
enum Data {
    Null,
    Bool(bool),
    Num(f64),
    Str(Vec<u8>),
    Seq(Vec<Data>),
    Map(Vec<(Data, Data)>),
    /// values the property does not define (TOML datetimes, YAML tags): not judged
    Opaque,
}

fn from_json(v: &serde_json::Value) -> Data {
    match v {
        serde_json::Value::Null => Data::Null,
        serde_json::Value::Bool(b) => Data::Bool(*b),
        serde_json::Value::Number(n) => Data::Num(if let Some(u) = n.as_u64() { u as f64 } else if let Some(i) = n.as_i64() { i as f64 } else { n.as_f64().unwrap_or(f64::NAN) }),
        serde_json::Value::String(s) => Data::Str(s.as_bytes().to_vec()),
        serde_json::Value::Array(a) => Data::Seq(a.iter().map(from_json).collect()),
        serde_json::Value::Object(o) => Data::Map(o.iter().map(|(k, v)| (Data::Str(k.as_bytes().to_vec()), from_json(v))).collect()),
    }
}

fn from_yaml(v: &serde_yaml::Value) -> Data {
    match v {
        serde_yaml::Value::Null => Data::Null,
        serde_yaml::Value::Bool(b) => Data::Bool(*b),
        serde_yaml::Value::Number(n) => Data::Num(if let Some(u) = n.as_u64() { u as f64 } else if let Some(i) = n.as_i64() { i as f64 } else { n.as_f64().unwrap_or(f64::NAN) }),
        serde_yaml::Value::String(s) => Data::Str(s.as_bytes().to_vec()),
        serde_yaml::Value::Sequence(a) => Data::Seq(a.iter().map(from_yaml).collect()),
        serde_yaml::Value::Mapping(m) => Data::Map(m.iter().map(|(k, v)| (from_yaml(k), from_yaml(v))).collect()),
        serde_yaml::Value::Tagged(_) => Data::Opaque,
    }
}

fn from_toml(v: &toml::Value) -> Data {
    match v {
        toml::Value::String(s) => Data::Str(s.as_bytes().to_vec()),
        toml::Value::Integer(i) => Data::Num(*i as f64),
        toml::Value::Float(f) => Data::Num(*f),
        toml::Value::Boolean(b) => Data::Bool(*b),
        toml::Value::Datetime(_) => Data::Opaque,
        toml::Value::Array(a) => Data::Seq(a.iter().map(from_toml).collect()),
        toml::Value::Table(t) => Data::Map(t.iter().map(|(k, v)| (Data::Str(k.as_bytes().to_vec()), from_toml(v))).collect()),
    }
}

fn has_opaque(d: &Data) -> bool {
    match d {
        Data::Opaque => true,
        Data::Seq(a) => a.iter().any(has_opaque),
        // keys that no Lua table can hold (null, NaN, containers) are outside the property
        Data::Map(m) => m.iter().any(|(k, v)| has_opaque(k) || has_opaque(v) || matches!(k, Data::Null | Data::Seq(_) | Data::Map(_)) || matches!(k, Data::Num(n) if n.is_nan())),
        _ => false,
    }
}

fn data_key_to_value(k: &Data) -> Option<Value> {
    Some(match k {
        Data::Str(s) => Value::bytes(s.clone()),
        Data::Num(n) => Value::Num(*n),
        Data::Bool(b) => Value::Bool(*b),
        _ => return None,
    })
}

/// structural equality between the data and the Lua value; returns a description of the first difference
fn compare(d: &Data, v: &Value, path: &str) -> Option<String> {
    match (d, v) {
        (Data::Null, Value::Nil) => None,
        (Data::Bool(a), Value::Bool(b)) if a == b => None,
        (Data::Num(a), Value::Num(b)) if a.to_bits() == b.to_bits() || (a.is_nan() && b.is_nan()) || (*a == 0.0 && *b == 0.0) => None,
        (Data::Str(a), Value::Str(b)) if a == &**b => None,
        (Data::Seq(items), Value::Table(t)) => {
            let t = t.borrow();
            let mut live = 0;
            for (i, item) in items.iter().enumerate() {
                let got = t.get(&Value::Num((i + 1) as f64));
                if !matches!(item, Data::Null) {
                    live += 1;
                }
                if let Some(p) = compare(item, &got, &format!("{}[{}]", path, i + 1)) {
                    return Some(p);
                }
            }
            if t.map.len() != live {
                return Some(format!("{}: the table has {} entries, the array has {} non-null elements", path, t.map.len(), live));
            }
            None
        }
        (Data::Map(entries), Value::Table(t)) => {
            let t = t.borrow();
            let mut live = 0;
            for (k, item) in entries {
                let key = match data_key_to_value(k) {
                    Some(k) => k,
                    None => return None, // null / container keys cannot be Lua keys: outside the property
                };
                if key.to_key().is_none() {
                    return None;
                }
                let got = t.get(&key);
                if !matches!(item, Data::Null) {
                    live += 1;
                }
                if let Some(p) = compare(item, &got, &format!("{}.{:?}", path, k)) {
                    return Some(p);
                }
            }
            if t.map.len() != live {
                return Some(format!("{}: the table has {} entries, the object has {} non-null members", path, t.map.len(), live));
            }
            None
        }
        (a, b) => Some(format!("{}: data {:?} became a Lua {} ({})", path, a, b.type_name(), match b {
            Value::Num(n) => format!("{:?}", n),
            Value::Str(s) => crate::luaref::interp::quote_bytes(s),
            Value::Bool(x) => x.to_string(),
            _ => String::new(),
        })),
    }
}

fn check_lua(text: &str, data: &Data, plain_lua: bool) -> Option<String> {
    let parsed = match parser::parse(text.as_bytes(), Mode::Luau) {
        Ok(p) => p,
        Err(e) => return Some(format!("the emitted text does not parse: {}", e)),
    };
    if plain_lua && std::str::from_utf8(text.as_bytes()).map(|s| s.is_ascii()).unwrap_or(false) && parser::parse(text.as_bytes(), Mode::Lua51).is_err() && !text.contains("\\u{") && !text.contains("\\x") {
        return Some("the emitted text is not valid Lua 5.1".to_owned());
    }
    let mut it = Interp::new(Mode::Luau);
    it.fuel = 200_000;
    match it.run_chunk(&parsed.block, "data") {
        Ok(vals) => {
            if vals.len() != 1 && !(vals.is_empty() && matches!(data, Data::Null)) {
                return Some(format!("the chunk returns {} values", vals.len()));
            }
            let v = vals.into_iter().next().unwrap_or(Value::Nil);
            compare(data, &v, "$")
        }
        Err(_) => Some("the emitted text raises an error when executed".to_owned()),
    }
}

// ------------------------------------------------------------------------------------------------ documents

const AWKWARD_STRINGS: &[&str] = &[
    "", "a", "end", "nil", "1a", "a b", "a\"b", "a'b", "a\\b", "a\nb", "a\r\nb", "é", "\u{0}", "\u{7f}", "]]", "[[", "--", "\t", "\\n", "\u{feff}x", "😀", "a]=]b", "'\"", "\u{1}1", "0", "-1", "true", "%s", "{}", "`x`",
    "café", "naïve_key", "x²", "a日本", "_é", "k9é", "straße", "Ωmega", "a\u{301}",
    "long long long long long long long long long long long long long long long\nwith\nseveral\nlines\nin\nit\nand more",
    // long texts (the writers switch to long-bracket form) with carriage returns, which long brackets cannot hold
    "line one\r\nline two\r\nline three\r\nline four\r\nline five\r\nline six\r\nline seven\r\n",
    "a single carriage return in the middle of a long enough text\rthat is otherwise printable ASCII only",
    "\r\nstarts with a line break and is long enough to be written in the long bracket form, really",
    "\nstarts with a line feed and is long enough to be written in the long bracket form, really it is",
    "ends with a bracket and is long enough to be written in the long bracket form, really it is ]",
    "contains ]] and ]=] and is long enough to be written in the long bracket form, really it is so",
    "tab\tand form feed\x0c and vertical tab\x0b in a text long enough for the long bracket form, really",
];

fn scalars() -> Vec<serde_json::Value> {
    let mut v = vec![
        json!(null), json!(true), json!(false), json!(0), json!(-1), json!(1.5), json!(1e21), json!(9007199254740993u64), json!(i64::MIN), json!(u64::MAX), json!(-0.0), json!(1e-7),
        json!(0.1), json!(123456789.125), json!(1e300), json!(5e-324),
    ];
    for s in AWKWARD_STRINGS {
        v.push(json!(s));
    }
    v
}

fn json_documents(tier: Tier) -> Vec<serde_json::Value> {
    let sc = scalars();
    let mut docs: Vec<serde_json::Value> = sc.clone();
    docs.push(json!([]));
    docs.push(json!({}));
    // every scalar inside an array and an object, every awkward key
    for s in &sc {
        docs.push(json!([s]));
        docs.push(json!([1, s, 2]));
        docs.push(json!({ "k": s }));
        docs.push(json!({"a": [s, {"b": s}]}));
    }
    for k in AWKWARD_STRINGS {
        docs.push(json!({ *k: 1 }));
        docs.push(json!({ *k: {*k: [*k]} }));
        docs.push(json!({ *k: null, "x": 1 }));
    }
    // nulls at start / middle / end
    docs.push(json!([null, 1, 2]));
    docs.push(json!([1, null, 2]));
    docs.push(json!([1, 2, null]));
    docs.push(json!([null]));
    docs.push(json!([null, null]));
    docs.push(json!({"a": null}));
    docs.push(json!({"a": [null, {"b": null}], "c": [[null], []]}));
    docs.push(json!({"end": 1, "nil": 2, "1a": 3, "a b": 4, "": 5, "é": 6}));
    docs.push(json!([[[[[[1]]]]]]));
    docs.push(json!({"a": {"b": {"c": {"d": {"e": []}}}}}));
    if tier == Tier::Thorough {
        // triples of scalars (nulls and values in every arrangement), keys nested in keys with every scalar
        for a in &sc {
            for b in &sc {
                for c in sc.iter().step_by(3) {
                    docs.push(json!([a, b, c]));
                }
            }
        }
        for k1 in AWKWARD_STRINGS {
            for k2 in AWKWARD_STRINGS {
                for v in sc.iter().step_by(5) {
                    docs.push(json!({ *k1: { *k2: v }, *k2: [v, { *k1: v }] }));
                }
            }
        }
    }
    {
        for a in &sc {
            for b in &sc {
                docs.push(json!([a, b]));
                docs.push(json!({"x": a, "y": [b]}));
            }
        }
        for k1 in AWKWARD_STRINGS {
            for k2 in AWKWARD_STRINGS {
                docs.push(json!({ *k1: 1, *k2: 2 }));
            }
        }
    }
    docs
}

const JSON5_TEXTS: &[&str] = &[
    "{a: 1, 'b': 'x', \"c\": [1, 2,], }",
    "{unquoted: 'single', trailing: [1, 2, 3,],}",
    "[0x1F, +1, -0x10, .5, 5., 1e3, -1e-3]",
    "[Infinity, -Infinity, +Infinity]",
    "[NaN]",
    "{end: 1, nil: 2, while: 3, 'a b': 4, '': 5}",
    "'line1\\\nline2'",
    "'\\x41\\u0042\\0'",
    "// comment\n{a: /* c */ 1}",
    "{a: null, b: [null, 1]}",
    "\"\\ud83d\\ude00\"",
    "{\"\\u0000\": 1}",
    "1e400",
    "[-1e400, 1e-400, -0, 0x7fffffffffffffff, 9223372036854775808, 18446744073709551615]",
    "{ big: Infinity, small: -Infinity, nan: NaN, list: [1, Infinity, 3] }",
    "{$key: 1, _k: 2, k9: 3}",
];

const YAML_TEXTS: &[&str] = &[
    "a: 1\nb: two\nc: [1, 2]\n",
    "- 1\n- ~\n- null\n- x\n",
    "inf: .inf\nneg: -.inf\nnan: .nan\n",
    "1: one\n2: two\n",
    "true: yes\nfalse: no\n",
    "1.5: float key\n",
    "? [a, b]\n: seq key\n",
    "~: null key\n",
    "a: ~\nb:\nc: null\n",
    "s: |\n  block\n  text\nf: >\n  folded\n  text\n",
    "'end': 1\n\"a b\": 2\n'': 3\n",
    "hex: 0x1F\noct: 0o17\nsci: 1e3\nneg: -5\nbig: 18446744073709551615\nmin: -9223372036854775808\n",
    "anchors: &a [1, 2]\nref: *a\n",
    "nested:\n  deeper:\n    - a: 1\n      b: [x, {y: z}]\n",
    "str_num: '10'\nstr_bool: 'true'\nempty: ''\n",
    "[]",
    "{}",
    "\"\\0\\x01\\e\\u00e9\": \"\\n\\t\\\\\"\n",
    "---\nplain\n",
    "date: 2001-12-14\ntagged: !!str 123\n",
    "!custom tagged\n",
];

const TOML_TEXTS: &[&str] = &[
    "a = 1\nb = \"two\"\nc = [1, 2, 3]\n",
    "[table]\nkey = \"v\"\n[table.sub]\nx = 1.5\n",
    "[[arr]]\na = 1\n[[arr]]\na = 2\n",
    "inline = { a = 1, b = [true, false] }\n",
    "\"end\" = 1\n\"a b\" = 2\n\"\" = 3\n'nil' = 4\n\"1a\" = 5\n",
    "f1 = inf\nf2 = -inf\nf3 = nan\nf4 = 1e21\nf5 = -0.0\n",
    "i1 = 9223372036854775807\ni2 = -9223372036854775808\ni3 = 0x1F\ni4 = 0o17\ni5 = 0b101\ni6 = 1_000\n",
    "s1 = \"a\\nb\\t\\\"q\\\"\\\\\"\ns2 = 'lit\\n'\ns3 = \"\"\"\nmulti\nline\"\"\"\ns4 = \"\\u00e9\\U0001F600\"\n",
    "dt = 1979-05-27T07:32:00Z\nd = 1979-05-27\nt = 07:32:00\n",
    "empty_arr = []\nempty_tab = {}\nnested = [[1, 2], [\"a\"]]\n",
    "mixed = [1, \"a\", 1.5, true]\n",
    "",
];

enum Doc {
    Json(String),
    Yaml(String),
    Toml(String),
}

fn convert(doc: &Doc) -> Result<Option<(String, Data)>, String> {
    // exactly the three lines of `darklua convert`
    let r = guarded(|| -> Result<Option<(String, Data)>, String> {
        Ok(match doc {
            // the data is what the JSON5 reader yields when nothing is lost on the way: read into a value type that keeps
            // non-finite numbers (`serde_json::Value` turns them into null); darklua is called the way `convert` calls it
            Doc::Json(t) => match (json5::from_str::<darklua_core::Json5Value>(t), json5::from_str::<serde_yaml::Value>(t)) {
                (Ok(v), Ok(reference)) => Some((darklua_core::convert_data(&v).map_err(|e| e.to_string())?, from_yaml(&reference))),
                _ => None,
            },
            Doc::Yaml(t) => match serde_yaml::from_str::<serde_yaml::Value>(t) {
                Ok(v) => Some((darklua_core::convert_data(&v).map_err(|e| e.to_string())?, from_yaml(&v))),
                Err(_) => None,
            },
            Doc::Toml(t) => match toml::from_str::<toml::Value>(t) {
                Ok(v) => Some((darklua_core::convert_data(&v).map_err(|e| e.to_string())?, from_toml(&v))),
                Err(_) => None,
            },
        })
    });
    match r {
        Ok(x) => x,
        Err(p) => Err(format!("PANIC in convert_data: {}", p)),
    }
}

fn doc_text(doc: &Doc) -> (&'static str, &str) {
    match doc {
        Doc::Json(t) => ("json", t),
        Doc::Yaml(t) => ("yaml", t),
        Doc::Toml(t) => ("toml", t),
    }
}

/// the same file required while bundling
fn bundled(doc: &Doc) -> Result<Option<String>, String> {
    let (ext, text) = doc_text(doc);
    let data_path = format!("src/data.{}", ext);
    let entry = format!("return require(\"./data.{}\")\n", ext);
    let (res, errors) = dl::process_memory(&[("src/main.lua", &entry), (&data_path, text)], "{rules: [], generator: 'dense', bundle: {require_mode: 'path'}}", "src/main.lua", Some("out/main.lua"))?;
    if !errors.is_empty() {
        return Ok(None);
    }
    Ok(res.get("out/main.lua").ok())
}

fn check_doc(doc: &Doc) -> (u64, bool, Vec<Violation>) {
    let (fmt, text) = doc_text(doc);
    let mut v = Vec::new();
    let mut n = 0;
    let (lua, data) = match convert(doc) {
        Ok(Some(x)) => x,
        Ok(None) => return (0, false, v),
        Err(e) => {
            v.push(Violation { finding: None, summary: format!("{} for {} document {:?}", e, fmt, text), replay: json!({"format": fmt, "document": text}) });
            return (1, false, v);
        }
    };
    let judged = !has_opaque(&data);
    n += 1;
    if judged {
        if let Some(problem) = check_lua(&lua, &data, true) {
            v.push(Violation {
                finding: None,
                summary: format!("convert: {}\n--- {} document {:?}\n--- emitted {:?}", problem, fmt, text, lua),
                replay: json!({"kind": "data conversion", "format": fmt, "document": text, "emitted": lua, "problem": problem}),
            });
        }
    } else if parser::parse(lua.as_bytes(), Mode::Luau).is_err() {
        v.push(Violation { finding: None, summary: format!("convert: emitted text does not parse\n--- {} document {:?}\n--- emitted {:?}", fmt, text, lua), replay: json!({"format": fmt, "document": text}) });
    }
    // bundled require of the same file
    match bundled(doc) {
        Ok(Some(out)) => {
            n += 1;
            if judged {
                if let Some(problem) = check_lua(&out, &data, false) {
                    v.push(Violation {
                        finding: None,
                        summary: format!("bundled require: {}\n--- {} document {:?}\n--- bundle {:?}", problem, fmt, text, out),
                        replay: json!({"kind": "data require", "format": fmt, "document": text, "bundle": out, "problem": problem}),
                    });
                }
            }
        }
        Ok(None) => {}
        Err(e) => v.push(Violation { finding: None, summary: format!("{} while bundling a {} document {:?}", e, fmt, text), replay: json!({"format": fmt, "document": text}) }),
    }
    (n, judged, v)
}

/// the real `darklua convert` command on a file must print exactly what the library conversion of the same text gives
fn cli_cases(docs: &[Doc], report: &mut Report) {
    let binary = match dl::darklua_binary() {
        Ok(b) => b,
        Err(e) => crate::common::machinery_error(&e),
    };
    let hand_written = JSON5_TEXTS.len() + YAML_TEXTS.len() + TOML_TEXTS.len();
    let chosen: Vec<&Doc> = docs.iter().enumerate().filter(|(i, _)| i % 61 == 0 || *i + hand_written >= docs.len()).map(|(_, d)| d).collect();
    let dir = match tempfile::tempdir() {
        Ok(d) => d,
        Err(e) => crate::common::machinery_error(&format!("tempdir: {}", e)),
    };
    let results: Vec<Option<Violation>> = chosen
        .par_iter()
        .enumerate()
        .map(|(i, doc)| {
            let (fmt, text) = doc_text(doc);
            let ext = match (fmt, i % 3) {
                ("json", 1) => "json5",
                ("yaml", 1) => "yml",
                (f, _) => f,
            };
            let input = dir.path().join(format!("doc{}.{}", i, ext));
            let output = dir.path().join(format!("doc{}.lua", i));
            if std::fs::write(&input, text).is_err() {
                return None;
            }
            let run = std::process::Command::new(&binary).arg("convert").arg(&input).arg(&output).output();
            let expected = convert(doc);
            let got = std::fs::read_to_string(&output).ok();
            let status_ok = run.as_ref().map(|o| o.status.success()).unwrap_or(false);
            let problem = match (&expected, status_ok, &got) {
                (Ok(Some((lua, _))), true, Some(g)) if g == lua => None,
                (Ok(Some((lua, _))), _, g) => Some(format!("`darklua convert` wrote {:?} (exit ok: {}), the conversion of the same text gives {:?}", g, status_ok, lua)),
                (Ok(None), false, None) => None,
                (Ok(None), _, g) => Some(format!("the text is rejected by the data crate but `darklua convert` wrote {:?} (exit ok: {})", g, status_ok)),
                (Err(_), _, _) => None,
            };
            problem.map(|pb| Violation {
                finding: None,
                summary: format!("{}\n--- file with extension .{} holding {:?}", pb, ext, text),
                replay: json!({"kind": "cli convert", "extension": ext, "document": text, "problem": pb}),
            })
        })
        .collect();
    report.evaluations += chosen.len() as u64;
    report.set("cli_convert_invocations", chosen.len() as u64);
    report.violations.extend(results.into_iter().flatten());
}

pub fn run(tier: Tier) -> Report {
    let mut report = Report::new("C14", "exploration", tier);
    report.rule = "documents: every scalar of a 47-value menu (null, booleans, integers beyond 2^53, i64::MIN, u64::MAX, fractions, 1e21, -0, 31 awkward strings incl. keywords, quotes, \
        backslashes, newlines, NUL, non-ASCII, bracket closers, a long multi-line string) alone, inside arrays and objects, every awkward string as key (nested in itself), nulls at start / middle / \
        end of arrays and as values, deep nesting (all pairs of scalars and of keys in thorough); rendered as JSON, also as YAML and (objects without nulls) TOML through the data crates, plus hand-written \
        JSON5, YAML and TOML texts for format-specific forms (hex, Infinity/NaN, .inf/.nan, `~`, non-string YAML keys, anchors, block scalars, arrays of tables, datetimes). Each text goes through the \
        three lines `darklua convert` runs and through a bundled `require` of the file; the emitted Lua is parsed and executed by luaref and compared structurally with the parsed data (arrays = 1..n \
        with nulls absent, objects = exactly the non-null keys, strings byte-identical, numbers = nearest double, booleans kept). non-trivial = documents fully judged (no datetime/tag)"
        .to_owned();
    report.assumptions = vec![
        "the serde data crates (json5, serde_yaml, toml) define the parsed data, exactly as the CLI uses them; the real `darklua convert` binary is run on a subset of the documents (every hand-written format-specific text and every 61st generated one) with the extensions json/json5/yaml/yml/toml and must write exactly the library conversion of the same text".to_owned(),
        "YAML mappings with null or container keys and documents with TOML datetimes / YAML tags are only checked to produce parsable text".to_owned(),
    ];
    let mut docs: Vec<Doc> = Vec::new();
    for v in json_documents(tier) {
        docs.push(Doc::Json(serde_json::to_string(&v).unwrap()));
        docs.push(Doc::Json(serde_json::to_string_pretty(&v).unwrap()));
        if let Ok(y) = serde_yaml::to_string(&v) {
            docs.push(Doc::Yaml(y));
        }
        if v.is_object() {
            if let Ok(t) = toml::to_string(&v) {
                docs.push(Doc::Toml(t));
            }
        }
    }
    for t in JSON5_TEXTS {
        docs.push(Doc::Json(t.to_string()));
    }
    for t in YAML_TEXTS {
        docs.push(Doc::Yaml(t.to_string()));
    }
    for t in TOML_TEXTS {
        docs.push(Doc::Toml(t.to_string()));
    }
    let results: Vec<(u64, bool, Vec<Violation>)> = docs.par_iter().map(check_doc).collect();
    let mut by_format = [0u64; 3];
    for (d, (n, judged, v)) in docs.iter().zip(results) {
        report.evaluations += n;
        if judged {
            report.distinct_nontrivial += 1;
        }
        if n > 0 {
            by_format[match d {
                Doc::Json(_) => 0,
                Doc::Yaml(_) => 1,
                Doc::Toml(_) => 2,
            }] += 1;
        }
        report.violations.extend(v);
    }
    cli_cases(&docs, &mut report);
    report.set("documents", docs.len() as u64);
    report.set("accepted_json_yaml_toml", json!(by_format));
    for i in [3, docs.len() / 3, docs.len() / 2, docs.len() - 30, docs.len() - 5] {
        let (f, t) = doc_text(&docs[i]);
        report.sample(json!({"format": f, "document": t}));
    }
    report
}
