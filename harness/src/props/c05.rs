//! C05 — A bundle behaves like the program with its modules required normally (Engine C: every module graph of a
//! bounded shape x value kinds x require forms x configurations; bundle executed against a model `require`).
use super::c15::{extension, resolve, Env, MPath, ModeCfg};
use crate::common::{guarded, Report, Tier, Violation};
use crate::luaref::interp::{Interp, ModuleSource, Stop};
use crate::luaref::value::Value;
use crate::luaref::{parser, Mode, Observation, Outcome};
use darklua_core::{Options, Resources};
use rayon::prelude::*;
use serde::{Deserialize, Serialize};
use serde_json::json;
use std::collections::{BTreeMap, BTreeSet};
use std::rc::Rc;

#[derive(Clone, Copy, PartialEq, Eq, Debug, Serialize, Deserialize)]
pub enum Kind {
    Table,
    Func,
    Nil,
    False,
    Str,
    Typed,
    CallReturn,
    Json,
    Yaml,
    Toml,
    Txt,
}

impl Kind {
    fn is_data(self) -> bool {
        matches!(self, Kind::Json | Kind::Yaml | Kind::Toml | Kind::Txt)
    }
    fn is_table(self) -> bool {
        matches!(self, Kind::Table | Kind::Typed | Kind::CallReturn)
    }
}

/// everything needed to evaluate one case again
#[derive(Clone, Debug, Serialize, Deserialize)]
pub struct Program {
    mode: ModeCfg,
    /// path -> content; the entry is `entry`
    files: Vec<(String, String)>,
    entry: String,
    excludes: Vec<String>,
    /// modules served by the run-time `require` of the bundle (excluded ones): require string -> returned string
    externals: Vec<(String, String)>,
    generator: String,
    /// json5 list, or "default" to leave the key out
    rules: String,
    /// when the graph is cyclic / a module is malformed: substrings the reported error must contain
    expect_error: Option<Vec<String>>,
    label: String,
}

// ------------------------------------------------------------------------------------------------ module sources

const ENTRY_EPILOGUE: &str = r#"
local log = {}
local visit
local function visit_deps(path, list, depth)
    for i, d in ipairs(list) do
        if d.lazy then
            visit(path .. "." .. i .. "L", d.lazy(), depth + 1)
            visit(path .. "." .. i .. "L2", d.lazy(), depth + 1)
        else
            visit(path .. "." .. i, d.v, depth + 1)
        end
        if d.t then log[#log + 1] = path .. "." .. i .. ".t=" .. tostring(d.t) end
        if d.n then log[#log + 1] = path .. "." .. i .. ".n=" .. tostring(d.n) end
        if d.same ~= nil then log[#log + 1] = path .. "." .. i .. ".same=" .. tostring(d.same) end
    end
end
function visit(path, v, depth)
    local t = type(v)
    if t == "table" then
        log[#log + 1] = path .. "=table " .. tostring(v.name)
        if depth < 6 then
            if type(v.touch) == "function" then log[#log + 1] = path .. ".touch=" .. tostring(v.touch()) end
            if type(v.deps) == "table" then visit_deps(path, v.deps, depth) end
        end
    elseif t == "function" then
        local name, c, d = v()
        log[#log + 1] = path .. "=function " .. tostring(name) .. " " .. tostring(c)
        if depth < 6 and type(d) == "table" then visit_deps(path, d, depth) end
    else
        log[#log + 1] = path .. "=" .. t .. " " .. tostring(v)
    end
end
visit_deps("main", deps, 0)
return table.concat(log, "\n"), deps
"#;

pub const FORMS: usize = 12;

fn edge_code(form: usize, spelling: &str, target: Kind) -> String {
    let s = spelling;
    match form % FORMS {
        0 => format!("local dep = require(\"{s}\")\ndeps[#deps + 1] = {{ v = dep }}\n"),
        1 => format!("deps[#deps + 1] = {{ v = require('{s}') }}\n"),
        2 => format!("deps[#deps + 1] = {{ v = (function() return require(\"{s}\") end)() }}\n"),
        3 => format!("require(\"{s}\")\ndeps[#deps + 1] = {{ v = require(\"{s}\") }}\n"),
        4 => format!("deps[#deps + 1] = {{ v = select(1, require \"{s}\"), t = type(require [[{s}]]) }}\n"),
        5 => format!("do\n    local count = require(\"{s}\")\n    deps[#deps + 1] = {{ v = count }}\nend\n"),
        6 => format!("deps[#deps + 1] = {{ lazy = function() return require(\"{s}\") end }}\n"),
        7 => {
            if target.is_table() {
                format!("deps[#deps + 1] = {{ v = require(\"{s}\"), n = require(\"{s}\").name }}\n")
            } else {
                format!("deps[#deps + 1] = {{ v = require(\"{s}\"), same = require(\"{s}\") == require('{s}') }}\n")
            }
        }
        8 => format!("for i = 1, 2 do\n    deps[#deps + 1] = {{ v = require(\"{s}\") }}\nend\n"),
        // loop headers: start, limit and step of a numeric for, the iterator list of a generic for
        10 => format!(
            "for i = (require(\"{s}\") == 0 and 2 or 1), (require(\"{s}\") == 0 and 0 or 1), (require(\"{s}\") == 0 and -1 or 1) do\n    deps[#deps + 1] = {{ v = require(\"{s}\") }}\nend\nfor _, w in ipairs({{ {{ v = require(\"{s}\") }} }}) do\n    deps[#deps + 1] = w\nend\n"
        ),
        // conditions of if / while / repeat, a return inside a function, a table key and a method receiver
        11 => format!(
            "if require(\"{s}\") == 0 then deps = nil elseif require(\"{s}\") ~= 0 then deps[#deps + 1] = {{ v = require(\"{s}\") }} end\nwhile require(\"{s}\") == 0 do break end\nrepeat until require(\"{s}\") ~= 0\nlocal function get() return require(\"{s}\") end\ndeps[#deps + 1] = {{ v = get(), same = ({{ [tostring(require(\"{s}\") == get())] = true }})[\"true\"] }}\n"
        ),
        _ => format!("local function load(...)\n    if ... then return require(\"{s}\") end\n    return nil\nend\ndeps[#deps + 1] = {{ v = load(true), same = load(true) == require(\"{s}\") }}\n"),
    }
}

fn module_source(file: &str, kind: Kind, edges: &[(usize, String, Kind)], entry: bool) -> String {
    if kind.is_data() {
        return match kind {
            Kind::Json => format!("{{\"name\": \"{}\", \"list\": [1, 2, {{\"k\": null, \"end\": true}}], \"holes\": [null, 20, null, 40, null], \"s\": \"x\\ny\"}}", file),
            Kind::Yaml => format!("name: \"{}\"\nlist:\n  - 1\n  - two\n  - {{k: ~, 3: three}}\nholes:\n  - ~\n  - 20\n  - null\n  - 40\n", file),
            Kind::Toml => format!("name = \"{}\"\nlist = [1, 2]\n[sub]\nk = 1.5\n", file),
            _ => format!("text of {}\nsecond line", file),
        };
    }
    let mut s = format!("-- module {}\nlocal count = 0\nlocal deps = {{}}\n", file);
    for (form, spelling, target) in edges {
        s.push_str(&edge_code(*form, spelling, *target));
    }
    if entry {
        s.push_str(ENTRY_EPILOGUE);
        return s;
    }
    match kind {
        Kind::Table => s.push_str(&format!("local M = {{ name = \"{}\", deps = deps }}\nfunction M.touch()\n    count = count + 1\n    return count\nend\nreturn M\n", file)),
        Kind::Func => s.push_str(&format!("return function()\n    count = count + 1\n    return \"{}\", count, deps\nend\n", file)),
        Kind::Nil => s.push_str("return nil\n"),
        Kind::False => s.push_str("return false\n"),
        Kind::Str => s.push_str(&format!("return \"{}\"\n", file)),
        Kind::Typed => s.push_str(&format!(
            "export type Shape = {{ name: string, touch: () -> number }}\ntype Private<T> = {{ [string]: T }}\nlocal M: Shape & Private<any> = {{ name = \"{}\", deps = deps, touch = function(): number\n    count += 1\n    return count\nend }}\nreturn M\n",
            file
        )),
        Kind::CallReturn => s.push_str(&format!(
            "local function build(...)\n    local M = {{ name = \"{}\", deps = deps, extra = select(\"#\", ...) }}\n    function M.touch() count = count + 1 return count end\n    return M, \"dropped\"\nend\nreturn (build(1, 2))\n",
            file
        )),
        _ => unreachable!(),
    }
    s
}

// ------------------------------------------------------------------------------------------------ evaluation

fn data_to_value(it: &mut Interp, v: &serde_json::Value) -> Value {
    match v {
        serde_json::Value::Null => Value::Nil,
        serde_json::Value::Bool(b) => Value::Bool(*b),
        serde_json::Value::Number(n) => Value::Num(n.as_f64().unwrap_or(f64::NAN)),
        serde_json::Value::String(s) => Value::str(s),
        serde_json::Value::Array(a) => {
            let t = it.new_table_value();
            for (i, x) in a.iter().enumerate() {
                let xv = data_to_value(it, x);
                if !matches!(xv, Value::Nil) {
                    t.borrow_mut().set(Value::Num((i + 1) as f64), xv);
                }
            }
            Value::Table(t)
        }
        serde_json::Value::Object(o) => {
            let t = it.new_table_value();
            for (k, x) in o {
                let xv = data_to_value(it, x);
                if !matches!(xv, Value::Nil) {
                    t.borrow_mut().set(Value::str(k), xv);
                }
            }
            Value::Table(t)
        }
    }
}

fn yaml_to_json(v: &serde_yaml::Value) -> serde_json::Value {
    match v {
        serde_yaml::Value::Null => serde_json::Value::Null,
        serde_yaml::Value::Bool(b) => json!(b),
        serde_yaml::Value::Number(n) => json!(n.as_f64()),
        serde_yaml::Value::String(s) => json!(s),
        serde_yaml::Value::Sequence(a) => serde_json::Value::Array(a.iter().map(yaml_to_json).collect()),
        serde_yaml::Value::Mapping(m) => {
            // only string keys are used by the generated documents except one numeric key, handled by the caller
            let mut o = serde_json::Map::new();
            for (k, x) in m {
                let key = match k {
                    serde_yaml::Value::String(s) => s.clone(),
                    other => format!("\u{0}num:{}", serde_yaml::to_string(other).unwrap_or_default().trim()),
                };
                o.insert(key, yaml_to_json(x));
            }
            serde_json::Value::Object(o)
        }
        serde_yaml::Value::Tagged(t) => yaml_to_json(&t.value),
    }
}

fn module_value(it: &mut Interp, path: &str, content: &str) -> ModuleSource {
    let name = path.rsplit('/').next().unwrap_or("");
    match extension(name) {
        Some("lua" | "luau") => match parser::parse(content.as_bytes(), Mode::Luau) {
            Ok(p) => ModuleSource::Lua(Rc::new(p.block)),
            Err(e) => ModuleSource::Broken(format!("syntax error in {}: {}", path, e)),
        },
        Some("json" | "json5") => match json5::from_str::<serde_json::Value>(content) {
            Ok(v) => ModuleSource::Value(data_to_value(it, &v)),
            Err(e) => ModuleSource::Broken(e.to_string()),
        },
        Some("yaml" | "yml") => match serde_yaml::from_str::<serde_yaml::Value>(content) {
            Ok(v) => {
                let j = yaml_to_json(&v);
                let val = data_to_value(it, &j);
                fix_numeric_keys(&val);
                ModuleSource::Value(val)
            }
            Err(e) => ModuleSource::Broken(e.to_string()),
        },
        Some("toml") => match toml::from_str::<toml::Value>(content) {
            Ok(v) => {
                let j = serde_json::to_value(&v).unwrap_or_default();
                ModuleSource::Value(data_to_value(it, &j))
            }
            Err(e) => ModuleSource::Broken(e.to_string()),
        },
        Some("txt") => ModuleSource::Value(Value::str(content)),
        _ => ModuleSource::Broken(format!("{} is neither Lua nor data", path)),
    }
}

/// YAML integer keys become number keys
fn fix_numeric_keys(v: &Value) {
    if let Value::Table(t) = v {
        let entries: Vec<(Value, Value)> = t.borrow().iteration_keys().into_iter().map(|k| (k.clone(), t.borrow().get(&k))).collect();
        for (k, x) in entries {
            fix_numeric_keys(&x);
            if let Value::Str(s) = &k {
                if let Some(rest) = std::str::from_utf8(s).ok().and_then(|s| s.strip_prefix("\u{0}num:")) {
                    if let Ok(n) = rest.parse::<f64>() {
                        t.borrow_mut().set(k.clone(), Value::Nil);
                        t.borrow_mut().set(Value::Num(n), x);
                    }
                }
            }
        }
    }
}

fn env_of(p: &Program) -> Env {
    Env { mode: p.mode.clone(), config_dir: String::new(), luaurc: vec![] }
}

fn observe_with(p: &Program, block: &crate::luaref::ast::Block, all_modules: bool) -> Observation {
    let mut it = Interp::new(Mode::Luau);
    let fuel = 400_000;
    it.fuel = fuel;
    let files: BTreeSet<String> = p.files.iter().map(|(k, _)| k.clone()).collect();
    let env = env_of(p);
    let externals: BTreeMap<String, String> = p.externals.iter().cloned().collect();
    if all_modules {
        for (path, content) in &p.files {
            if *path != p.entry {
                let m = module_value(&mut it, path, content);
                it.modules.insert(path.clone(), m);
            }
        }
    }
    for (req, val) in &externals {
        it.modules.insert(format!("external:{}", req), ModuleSource::Value(Value::str(val)));
    }
    let entry = p.entry.clone();
    let ext2 = externals.clone();
    it.resolver = Some(Box::new(move |from: &str, arg: &str| {
        if ext2.contains_key(arg) {
            return Ok(format!("external:{}", arg));
        }
        if !all_modules {
            return Err(format!("the bundle requires {:?} at run time", arg));
        }
        let from = if from == "main" { entry.as_str() } else { from };
        resolve(&env, arg, from, &files).map_err(|e| format!("{:?}", e))
    }));
    it.current_file = Rc::from(p.entry.as_str());
    let r = it.run_chunk(block, &p.entry);
    let outcome = match r {
        Ok(vals) => Outcome::Returned(vals.iter().map(|v| it.serialize(v)).collect::<Vec<_>>().join(", ")),
        Err(Stop::Error(v)) => Outcome::Error(it.serialize(&v)),
        Err(Stop::Fuel) => Outcome::NoTermination,
        Err(Stop::Poison(m)) => Outcome::Poison(m),
    };
    Observation { outcome, log: std::mem::take(&mut it.log), fuel_used: fuel - it.fuel }
}

pub struct Verdict {
    pub violation: Option<String>,
    pub reference_failed: Option<String>,
    pub distinct: Option<String>,
}

pub fn eval(p: &Program) -> Verdict {
    let mut verdict = Verdict { violation: None, reference_failed: None, distinct: None };
    // reference run
    let mut reference = None;
    if p.expect_error.is_none() {
        let entry_text = &p.files.iter().find(|(k, _)| *k == p.entry).expect("entry").1;
        match parser::parse(entry_text.as_bytes(), Mode::Luau) {
            Err(e) => {
                verdict.reference_failed = Some(format!("entry does not parse: {}", e));
                return verdict;
            }
            Ok(parsed) => {
                let obs = observe_with(p, &parsed.block, true);
                if !obs.is_ok() {
                    verdict.reference_failed = Some(format!("reference run is not error free: {}", obs.render()));
                    return verdict;
                }
                reference = Some(obs);
            }
        }
    }
    // bundle
    let resources = Resources::from_memory();
    for (k, v) in &p.files {
        let _ = resources.write(k, v);
    }
    let generator = if p.generator.starts_with('{') { p.generator.clone() } else { format!("'{}'", p.generator) };
    let rules = if p.rules == "default" { String::new() } else { format!("rules: {}, ", p.rules) };
    let config = format!("{{generator: {}, {}bundle: {{require_mode: {}, excludes: {}}}}}", generator, rules, p.mode.to_json5(), json!(p.excludes));
    let _ = resources.write(".darklua.json", &config);
    let options = Options::new(&p.entry).with_output("out/bundle.lua").with_configuration_at(".darklua.json");
    let res = resources.clone();
    let outcome = match guarded(move || darklua_core::process(&res, options)) {
        Err(panic) => {
            verdict.violation = Some(format!("PANIC while bundling: {}", panic));
            return verdict;
        }
        Ok(o) => o,
    };
    let errors: Vec<String> = match &outcome {
        Ok(tree) => tree.collect_errors().iter().map(|e| e.to_string()).collect(),
        Err(e) => vec![e.to_string()],
    };
    match (&p.expect_error, errors.is_empty()) {
        (Some(_), true) => {
            verdict.violation = Some(format!("no error was reported; out/bundle.lua = {:?}", resources.get("out/bundle.lua").ok()));
        }
        (Some(names), false) => {
            let all = errors.join("\n");
            let missing: Vec<&String> = names.iter().filter(|n| !all.contains(n.as_str())).collect();
            if !missing.is_empty() {
                verdict.violation = Some(format!("the error does not name {:?}: {:?}", missing, errors));
            } else if resources.get("out/bundle.lua").is_ok() {
                verdict.violation = Some(format!("an output was written although bundling failed: {:?}", errors));
            }
        }
        (None, false) => verdict.violation = Some(format!("bundling failed: {:?}", errors)),
        (None, true) => {
            let text = match resources.get("out/bundle.lua") {
                Ok(t) => t,
                Err(_) => {
                    verdict.violation = Some("no bundle was written and no error reported".to_owned());
                    return verdict;
                }
            };
            match parser::parse(text.as_bytes(), Mode::Luau) {
                Err(e) => verdict.violation = Some(format!("the bundle does not parse: {}\n--- bundle\n{}", e, text)),
                Ok(parsed) => {
                    let got = observe_with(p, &parsed.block, false);
                    let reference = reference.unwrap();
                    if !got.same_behaviour(&reference) {
                        verdict.violation = Some(format!("the bundle behaves differently\n    modules required normally: {}\n    bundle:                    {}\n--- bundle\n{}", reference.render(), got.render(), text));
                    }
                    verdict.distinct = Some(match reference.outcome {
                        Outcome::Returned(r) => r,
                        _ => String::new(),
                    });
                }
            }
        }
    }
    verdict
}

fn describe(p: &Program) -> String {
    let mut s = format!("{} — mode {} generator {} rules {} excludes {:?}; entry {}\n", p.label, p.mode.label(), p.generator, p.rules, p.excludes, p.entry);
    for (k, v) in &p.files {
        s.push_str(&format!("--- file {}\n{}\n", k, v));
    }
    s
}

// ------------------------------------------------------------------------------------------------ spellings

fn rel(from_dir: &MPath, to: &MPath) -> String {
    let mut common = 0;
    while common < from_dir.segs.len() && common < to.segs.len() && from_dir.segs[common] == to.segs[common] {
        common += 1;
    }
    let ups = from_dir.segs.len() - common;
    let mut parts: Vec<String> = Vec::new();
    if ups == 0 {
        parts.push(".".to_owned());
    }
    for _ in 0..ups {
        parts.push("..".to_owned());
    }
    parts.extend(to.segs[common..].iter().cloned());
    parts.join("/")
}

fn strip_ext(s: &str) -> String {
    let name = s.rsplit('/').next().unwrap_or("");
    match extension(name) {
        Some("lua" | "luau") => s[..s.rfind('.').unwrap()].to_owned(),
        _ => s.to_owned(),
    }
}

/// every spelling from a menu that the reference resolver maps to `to` from `from`
pub fn spellings(env: &Env, from: &str, to: &str, files: &BTreeSet<String>) -> Vec<String> {
    let from_dir = MPath::parse(from).parent();
    let target = MPath::parse(to);
    let mut cands: Vec<String> = Vec::new();
    for base_dir in [from_dir.clone(), from_dir.parent()] {
        let full = rel(&base_dir, &target);
        let mut forms = vec![strip_ext(&full), full.clone()];
        let name = to.rsplit('/').next().unwrap_or("");
        if strip_ext(name) == "init" {
            let folder = rel(&base_dir, &target.parent());
            forms.push(folder.clone());
            forms.push(format!("{}/", folder));
        }
        for f in forms {
            cands.push(f.clone());
            if let Some(rest) = f.strip_prefix("./") {
                cands.push(format!("././{}", rest));
                cands.push(format!("./zz/../{}", rest));
            }
            if let Some(rest) = f.strip_prefix("../") {
                cands.push(format!("./../{}", rest));
            }
        }
    }
    // through the source / alias `pkg` -> ./src
    if let Some(rest) = to.strip_prefix("src/") {
        for prefix in ["pkg", "@pkg"] {
            cands.push(format!("{}/{}", prefix, strip_ext(rest)));
            cands.push(format!("{}/{}", prefix, rest));
            cands.push(format!("{}/./{}", prefix, strip_ext(rest)));
        }
    }
    if to.rsplit('/').next().map(strip_ext).as_deref() == Some("init") && MPath::parse(to).parent() == from_dir {
        cands.push("@self".to_owned());
    }
    if let Some(rest) = to.strip_prefix(&format!("{}/", from_dir.key())) {
        cands.push(format!("@self/{}", strip_ext(rest)));
    }
    let mut out = Vec::new();
    for c in cands {
        if matches!(resolve(env, &c, from, files), Ok(ref f) if f == to) && !out.contains(&c) {
            out.push(c);
        }
    }
    out
}

// ------------------------------------------------------------------------------------------------ families

fn mode_menu() -> Vec<ModeCfg> {
    vec![
        ModeCfg::Path { mfn: "init".to_owned(), sources: vec![("pkg".to_owned(), "./src".to_owned()), ("@pkg".to_owned(), "src".to_owned())] },
        ModeCfg::Luau { aliases: vec![("@pkg".to_owned(), "./src".to_owned()), ("pkg".to_owned(), "src".to_owned())] },
    ]
}

fn layouts() -> Vec<[&'static str; 4]> {
    vec![
        ["src/main.lua", "src/a.lua", "src/b.lua", "src/c.lua"],
        ["src/main.luau", "src/a.luau", "src/lib/b.lua", "src/c/init.luau"],
        // modules directly in the working directory, reached with `./` from there and with `../` from below
        ["src/main.lua", "a.lua", "b.luau", "lib/c.lua"],
        ["main.lua", "a.lua", "sub/b.lua", "c.lua"],
        // a vendored copy: the path of one module ends with the whole path of another
        ["src/main.lua", "src/vendor/src/c.lua", "src/b.lua", "src/c.lua"],
    ]
}

fn data_file(kind: Kind) -> &'static str {
    match kind {
        Kind::Json => "src/data/c.json",
        Kind::Yaml => "src/data/c.yml",
        Kind::Toml => "src/data/c.toml",
        _ => "src/data/c.txt",
    }
}

fn configs(tier: Tier) -> Vec<(&'static str, &'static str)> {
    let custom = "['remove_types', 'remove_comments', 'remove_spaces', 'rename_variables', 'remove_unused_variable', 'remove_compound_assignment']";
    match tier {
        Tier::Quick => vec![("retain_lines", "[]"), ("dense", "default"), ("readable", custom)],
        Tier::Thorough => {
            let mut v = Vec::new();
            for g in ["retain_lines", "dense", "readable"] {
                for r in ["[]", "default", custom] {
                    v.push((g, r));
                }
            }
            v.push(("{name:'dense',column_span:1}", "[]"));
            v
        }
    }
}

/// (A) every DAG over main, a, b, c x value kinds x require forms and spellings
fn dag_programs(tier: Tier) -> Vec<Program> {
    let small_ab = vec![Kind::Table, Kind::Func, Kind::Nil];
    let small_c = vec![Kind::Table, Kind::False, Kind::Typed, Kind::Json, Kind::Txt];
    match tier {
        Tier::Quick => dag_sweep(tier, small_ab, small_c, 6, false),
        Tier::Thorough => {
            // every value kind with a rotating configuration, then every configuration on the smaller kind menu
            let mut v = dag_sweep(
                tier,
                vec![Kind::Table, Kind::Func, Kind::Nil, Kind::False, Kind::Str, Kind::Typed, Kind::CallReturn],
                vec![Kind::Table, Kind::Func, Kind::Nil, Kind::False, Kind::Str, Kind::Typed, Kind::CallReturn, Kind::Json, Kind::Yaml, Kind::Toml, Kind::Txt],
                FORMS,
                false,
            );
            v.extend(dag_sweep(tier, small_ab, small_c, FORMS, true));
            v
        }
    }
}

fn dag_sweep(tier: Tier, kinds_ab: Vec<Kind>, kinds_c: Vec<Kind>, variants: usize, all_configs: bool) -> Vec<Program> {
    let mut out = Vec::new();
    // quick: 6 variants in steps of 2 reach all 12 require positions on every edge set
    let form_stride = if variants < FORMS { 2 } else { 1 };
    let edges_all: [(usize, usize); 6] = [(0, 1), (0, 2), (0, 3), (1, 2), (1, 3), (2, 3)];
    for mode in mode_menu() {
        for (li, layout) in layouts().iter().enumerate() {
            for ka in &kinds_ab {
                for kb in &kinds_ab {
                    for kc in &kinds_c {
                        let mut names: Vec<String> = layout.iter().map(|s| s.to_string()).collect();
                        if kc.is_data() {
                            names[3] = data_file(*kc).to_owned();
                        }
                        let kinds = [Kind::Table, *ka, *kb, *kc];
                        let fileset: BTreeSet<String> = names.iter().cloned().collect();
                        let env = Env { mode: mode.clone(), config_dir: String::new(), luaurc: vec![] };
                        // spellings per ordered pair
                        let mut sp: BTreeMap<(usize, usize), Vec<String>> = BTreeMap::new();
                        for (f, t) in edges_all {
                            sp.insert((f, t), spellings(&env, &names[f], &names[t], &fileset));
                        }
                        for mask in 1u32..64 {
                            // main must require something
                            if mask & 0b111 == 0 {
                                continue;
                            }
                            for variant in 0..variants {
                                // quick: rotate the configuration with the case; thorough: all of them
                                let cfgs = configs(tier);
                                let chosen: Vec<(&str, &str)> = if all_configs { cfgs } else { vec![cfgs[(mask as usize + variant) % cfgs.len()]] };
                                for (generator, rules) in chosen {
                                    let mut files = Vec::new();
                                    for node in 0..4 {
                                        let mut edges = Vec::new();
                                        for (ei, (f, t)) in edges_all.iter().enumerate() {
                                            if *f == node && mask & (1 << ei) != 0 {
                                                let list = &sp[&(*f, *t)];
                                                let spelling = list[(ei + variant * 3 + li) % list.len()].clone();
                                                edges.push(((ei + variant * form_stride) % FORMS, spelling, kinds[*t]));
                                            }
                                        }
                                        files.push((names[node].clone(), module_source(&names[node], kinds[node], &edges, node == 0)));
                                    }
                                    out.push(Program {
                                        mode: mode.clone(),
                                        files,
                                        entry: names[0].clone(),
                                        excludes: vec![],
                                        externals: vec![],
                                        generator: generator.to_owned(),
                                        rules: rules.to_owned(),
                                        expect_error: None,
                                        label: format!("DAG edges {:06b} kinds {:?}/{:?}/{:?} variant {} layout {}", mask, ka, kb, kc, variant, li),
                                    });
                                }
                            }
                        }
                    }
                }
            }
        }
    }
    out
}

/// (B) one module reached through every spelling at once, from the entry and from another module
fn spelling_programs(tier: Tier) -> Vec<Program> {
    let mut out = Vec::new();
    for mode in mode_menu() {
        for layout in layouts() {
            let names: Vec<String> = layout.iter().map(|s| s.to_string()).collect();
            let fileset: BTreeSet<String> = names.iter().cloned().collect();
            let env = Env { mode: mode.clone(), config_dir: String::new(), luaurc: vec![] };
            for target in 1..4 {
                for kind in [Kind::Table, Kind::Func] {
                    for (generator, rules) in configs(tier) {
                        let mut kinds = [Kind::Table; 4];
                        kinds[target] = kind;
                        let mut files = Vec::new();
                        for node in 0..4 {
                            let mut edges = Vec::new();
                            if node != target {
                                for (i, s) in spellings(&env, &names[node], &names[target], &fileset).into_iter().enumerate() {
                                    edges.push((if i % 2 == 0 { 1 } else { 0 }, s, kind));
                                }
                            }
                            // the entry also requires the other modules so that their requires are reached
                            if node == 0 {
                                for other in 1..4 {
                                    if other != target {
                                        let s = spellings(&env, &names[0], &names[other], &fileset);
                                        edges.push((1, s[0].clone(), Kind::Table));
                                    }
                                }
                            }
                            files.push((names[node].clone(), module_source(&names[node], kinds[node], &edges, node == 0)));
                        }
                        out.push(Program {
                            mode: mode.clone(),
                            files,
                            entry: names[0].clone(),
                            excludes: vec![],
                            externals: vec![],
                            generator: generator.to_owned(),
                            rules: rules.to_owned(),
                            expect_error: None,
                            label: format!("all spellings of {}", names[target]),
                        });
                    }
                }
            }
        }
    }
    out
}

/// (C) cyclic graphs and malformed modules: an error naming the files, never a hang or crash
fn failing_programs(tier: Tier) -> Vec<Program> {
    let mut out = Vec::new();
    let m = "src/main.lua";
    let (a, b, c) = ("src/a.lua", "src/b.lua", "src/c.lua");
    let req = |s: &str, form: usize| edge_code(form, s, Kind::Table);
    let modt = |file: &str, body: &str| format!("local deps = {{}}\n{}return {{ name = \"{}\", deps = deps }}\n", body, file);
    let entry = |body: &str| format!("local deps = {{}}\n{}return deps\n", body);
    for form in [0usize, 1, 2, 3, 6, 8] {
        let cases: Vec<(&str, Vec<(&str, String)>, Vec<&str>)> = vec![
            ("self cycle", vec![(m, entry(&req("./a", form))), (a, modt(a, &req("./a", form)))], vec!["a.lua"]),
            ("two cycle", vec![(m, entry(&req("./a", form))), (a, modt(a, &req("./b", form))), (b, modt(b, &req("./a", form)))], vec!["a.lua", "b.lua"]),
            ("three cycle", vec![(m, entry(&req("./a", 0))), (a, modt(a, &req("./b", form))), (b, modt(b, &req("./c", 0))), (c, modt(c, &req("./a.lua", form)))], vec!["a.lua", "b.lua", "c.lua"]),
            ("cycle through the entry", vec![(m, entry(&req("./a", form))), (a, modt(a, &req("./main", form)))], vec!["main.lua"]),
            ("cycle behind a DAG", vec![(m, entry(&format!("{}{}", req("./c", 0), req("./a", form)))), (a, modt(a, &req("./b", 0))), (b, modt(b, &format!("{}{}", req("./c", 1), req("../src/a", form)))), (c, modt(c, ""))], vec!["a.lua", "b.lua"]),
            ("cycle through a source-prefixed spelling", vec![(m, entry(&req("./a", 0))), (a, modt(a, &req("pkg/b", form))), (b, modt(b, &req("./a.lua", form)))], vec!["a.lua", "b.lua"]),
            ("self cycle through a source-prefixed spelling", vec![(m, entry(&req("pkg/a", form))), (a, modt(a, &req("@pkg/./a", form)))], vec!["a.lua"]),
            ("missing file", vec![(m, entry(&req("./a", form))), (a, modt(a, &req("./missing", form)))], vec!["missing"]),
            ("syntax error", vec![(m, entry(&req("./a", form))), (a, "local = 1\nreturn {}\n".to_owned())], vec!["a.lua"]),
            ("no return", vec![(m, entry(&req("./a", form))), (a, "local x = 1\n".to_owned())], vec!["a.lua"]),
            ("empty return", vec![(m, entry(&req("./a", form))), (a, "return\n".to_owned())], vec!["a.lua"]),
            ("two values", vec![(m, entry(&req("./a", form))), (a, "return 1, 2\n".to_owned())], vec!["a.lua"]),
            ("empty module", vec![(m, entry(&req("./a", form))), (a, "".to_owned())], vec!["a.lua"]),
            ("malformed json", vec![(m, entry(&req("./d.json", form))), ("src/d.json", "{\"a\": ".to_owned())], vec!["d.json"]),
            ("malformed json5", vec![(m, entry(&req("./d.json5", form))), ("src/d.json5", "{a: ".to_owned())], vec!["d.json5"]),
            ("malformed yaml", vec![(m, entry(&req("./d.yaml", form))), ("src/d.yaml", "a: [1".to_owned())], vec!["d.yaml"]),
            ("malformed toml", vec![(m, entry(&req("./d.toml", form))), ("src/d.toml", "a = = 1".to_owned())], vec!["d.toml"]),
            ("malformed data behind a sound one", vec![(m, entry(&format!("{}{}", req("./ok.json", 0), req("./a", 0)))), (a, modt(a, &req("./d.json", form))), ("src/ok.json", "{\"fine\": true}".to_owned()), ("src/d.json", "[1, ".to_owned())], vec!["d.json"]),
            ("unknown extension", vec![(m, entry(&req("./d.data", form))), ("src/d.data", "return 1".to_owned())], vec!["d.data"]),
            ("no extension", vec![(m, entry(&req("./d", form))), ("src/d", "return 1".to_owned())], vec!["src/d"]),
            ("deep malformed", vec![(m, entry(&req("./a", 0))), (a, modt(a, &req("./b", form))), (b, "return 1, 2".to_owned())], vec!["b.lua"]),
            ("unknown source", vec![(m, entry(&req("nowhere/a", form)))], vec!["nowhere"]),
        ];
        for (label, files, names) in cases {
            for (generator, rules) in configs(tier).into_iter().take(tier.pick(3, 10)) {
                for mode in mode_menu() {
                    out.push(Program {
                        mode,
                        files: files.iter().map(|(k, v)| (k.to_string(), v.clone())).collect(),
                        entry: m.to_owned(),
                        excludes: vec![],
                        externals: vec![],
                        generator: generator.to_owned(),
                        rules: rules.to_owned(),
                        expect_error: Some(names.iter().map(|s| s.to_string()).collect()),
                        label: format!("{} (require form {})", label, form),
                    });
                }
            }
        }
    }
    out
}

/// (D) excluded requires stay run-time requires; everything else is still inlined once
fn exclude_programs(tier: Tier) -> Vec<Program> {
    let mut out = Vec::new();
    let m = "src/main.lua";
    let a = "src/a.lua";
    for (patterns, ext_req) in [(vec!["@ext/**"], "@ext/thing"), (vec!["./vendor*"], "./vendored"), (vec!["**/*.server"], "./game.server"), (vec!["./vendored", "@ext/*"], "@ext/thing")] {
        for form in 0..FORMS {
            for (generator, rules) in configs(tier) {
                let edges_main = vec![(form, ext_req.to_owned(), Kind::Str), (1, "./a".to_owned(), Kind::Table), ((form + 3) % FORMS, ext_req.to_owned(), Kind::Str)];
                let edges_a = vec![((form + 1) % FORMS, ext_req.to_owned(), Kind::Str)];
                let files = vec![(m.to_owned(), module_source(m, Kind::Table, &edges_main, true)), (a.to_owned(), module_source(a, Kind::Table, &edges_a, false))];
                out.push(Program {
                    mode: ModeCfg::Path { mfn: "init".to_owned(), sources: vec![] },
                    files,
                    entry: m.to_owned(),
                    excludes: patterns.iter().map(|s| s.to_string()).collect(),
                    externals: vec![(ext_req.to_owned(), format!("external {}", ext_req))],
                    generator: generator.to_owned(),
                    rules: rules.to_owned(),
                    expect_error: None,
                    label: format!("excluded {:?} (form {})", patterns, form),
                });
            }
        }
    }
    out
}

/// (E) module-level details: top-level varargs, shadowed `require`, same-named locals and globals, deep chains
fn detail_programs(tier: Tier) -> Vec<Program> {
    let mut out = Vec::new();
    let m = "src/main.lua";
    let cases: Vec<(&str, Vec<(&str, String)>)> = vec![
        (
            "module reading its varargs",
            vec![(m, module_source(m, Kind::Table, &[(1, "./a".to_owned(), Kind::Table)], true)), ("src/a.lua", "local deps = {}\nlocal first = ...\nlocal n = select(\"#\", ...)\nreturn { name = \"a\", deps = deps, touch = function() return type(n) end }\n".to_owned())],
        ),
        (
            "module reading its varargs only in its return",
            vec![(m, module_source(m, Kind::Table, &[(1, "./a".to_owned(), Kind::Table), (0, "./b".to_owned(), Kind::Table)], true)), ("src/a.lua", "return { name = \"a\", count = select(\"#\", ...), deps = {} }\n".to_owned()), ("src/b.lua", "local deps = {}\nreturn (function(...) return { name = \"b\", deps = deps, n = select(\"#\", ...) } end)(...)\n".to_owned())],
        ),
        (
            "shadowed require is not a module require",
            vec![
                (m, module_source(m, Kind::Table, &[(1, "./a".to_owned(), Kind::Table)], true)),
                ("src/a.lua", "local deps = {}\nlocal function require(name) return \"shadow:\" .. name end\ndeps[#deps + 1] = { v = require(\"./b\") }\nreturn { name = \"a\", deps = deps }\n".to_owned()),
                ("src/b.lua", "return 'b'\n".to_owned()),
            ],
        ),
        (
            "require as a parameter name",
            vec![
                (m, module_source(m, Kind::Table, &[(1, "./a".to_owned(), Kind::Table)], true)),
                ("src/a.lua", "local deps = {}\nlocal function f(require) return require(\"./b\") end\ndeps[#deps + 1] = { v = f(function(n) return 'param:' .. n end) }\ndeps[#deps + 1] = { v = require(\"./b\") }\nreturn { name = \"a\", deps = deps }\n".to_owned()),
                ("src/b.lua", "return 'b'\n".to_owned()),
            ],
        ),
        (
            "module locals named like bundle internals",
            vec![
                (m, module_source(m, Kind::Table, &[(1, "./a".to_owned(), Kind::Table), (0, "./b".to_owned(), Kind::Table)], true)),
                ("src/a.lua", "local deps = {}\nlocal v, c, cache, __modImpl = 1, 2, 3, 4\ndeps[#deps + 1] = { v = require('./b') }\nreturn { name = 'a' .. v .. c .. cache .. __modImpl, deps = deps }\n".to_owned()),
                ("src/b.lua", "local deps = {}\nlocal v = 'bv'\nreturn { name = 'b' .. v, deps = deps }\n".to_owned()),
            ],
        ),
        (
            "globals assigned by a module are shared",
            vec![
                (m, module_source(m, Kind::Table, &[(1, "./a".to_owned(), Kind::Table), (1, "./b".to_owned(), Kind::Table)], true)),
                ("src/a.lua", "local deps = {}\nSHARED = (SHARED or 0) + 1\nlocal seen = SHARED\nreturn { name = 'a' .. seen, deps = deps }\n".to_owned()),
                ("src/b.lua", "local deps = {}\ndeps[#deps + 1] = { v = require('./a') }\nSHARED = (SHARED or 0) + 10\nlocal seen = SHARED\nreturn { name = 'b' .. seen, deps = deps }\n".to_owned()),
            ],
        ),
        (
            "chain of eight modules with early returns",
            {
                let mut files = vec![(m, module_source(m, Kind::Table, &[(1, "./m1".to_owned(), Kind::Table)], true))];
                let names = ["src/m1.lua", "src/m2.lua", "src/m3.lua", "src/m4.lua", "src/m5.lua", "src/m6.lua", "src/m7.lua", "src/m8.lua"];
                for i in 0..8 {
                    let next = if i < 7 { format!("deps[#deps + 1] = {{ v = require('./m{}') }}\n", i + 2) } else { String::new() };
                    files.push((names[i], format!("local deps = {{}}\n{}if #deps > 5 then\n    return {{ name = 'never' }}\nend\ndo\n    local deps = nil\nend\nreturn {{ name = 'm{}', deps = deps }}\n", next, i + 1)));
                }
                files
            },
        ),
        (
            "require inside a table constructor, condition, loop bound and call argument",
            vec![
                (
                    m,
                    "local deps = {}\nlocal t = { require('./a'), k = require('./a'), [require('./b')] = true }\nif require('./a') == t[1] and t.k == t[1] then deps[#deps + 1] = { v = t[1] } end\nfor i = 1, #require('./b') do deps[#deps + 1] = { v = i } end\ndeps[#deps + 1] = { v = t['b'] }\nwhile not require('./a') do end\nlocal function id(...) return ... end\ndeps[#deps + 1] = { v = id(require('./a'), require('./b')) }\nreturn deps\n"
                        .to_owned(),
                ),
                ("src/a.lua", "return { name = 'a' }\n".to_owned()),
                ("src/b.lua", "return 'b'\n".to_owned()),
            ],
        ),
        (
            "module ending with a semicolon and comments after the return",
            vec![(m, module_source(m, Kind::Table, &[(0, "./a".to_owned(), Kind::Table)], true)), ("src/a.lua", "-- leading\nlocal deps = {} -- c\nreturn { name = 'a', deps = deps }; -- trailing\n-- after\n".to_owned())],
        ),
        (
            "exported types used through the module name",
            vec![
                (m, "local a = require('./a')\nlocal b = require('./b')\ntype Local = a.Shape\nexport type Again = b.Other<a.Shape>\nlocal deps = {}\nlocal x: a.Shape = a\ndeps[#deps + 1] = { v = x }\ndeps[#deps + 1] = { v = b }\nreturn deps\n".to_owned()),
                ("src/a.lua", "export type Shape = { name: string }\ntype Hidden = number\nlocal M: Shape = { name = 'a' }\nreturn M\n".to_owned()),
                ("src/b.lua", "local a = require('./a')\nexport type Other<T> = { item: T, again: a.Shape }\ntype Shape = string\nlocal M = { name = 'b', dep = a }\nreturn M\n".to_owned()),
            ],
        ),
    ];
    for (label, files) in cases {
        for (generator, rules) in configs(tier) {
            for mode in mode_menu() {
                out.push(Program {
                    mode,
                    files: files.iter().map(|(k, v)| (k.to_string(), v.clone())).collect(),
                    entry: m.to_owned(),
                    excludes: vec![],
                    externals: vec![],
                    generator: generator.to_owned(),
                    rules: rules.to_owned(),
                    expect_error: None,
                    label: label.to_owned(),
                });
            }
        }
    }
    // the same require string written in two files designates two different files: `@self` of two module folders (luau
    // mode), `./helper` of two folders (both modes), next to an alias-prefixed string that designates one file for both
    let m2 = "src/main.luau";
    for (label, spelled, mode_index) in [("the same `@self/helper` in two module folders", "@self/helper", 1usize), ("the same `./helper` in two folders", "./helper", 0), ("the same `./helper` in two folders", "./helper", 1)] {
        let folder_file = if spelled.starts_with("@self") { "init.luau" } else { "mod.luau" };
        let req_a = if spelled.starts_with("@self") { "./pa".to_owned() } else { "./pa/mod".to_owned() };
        let req_b = if spelled.starts_with("@self") { "./pb".to_owned() } else { "./pb/mod".to_owned() };
        let (pa, pb) = (format!("src/pa/{}", folder_file), format!("src/pb/{}", folder_file));
        let files: Vec<(String, String)> = vec![
            (m2.to_owned(), module_source(m2, Kind::Table, &[(0, req_a, Kind::Table), (0, req_b, Kind::Table), (0, "pkg/shared".to_owned(), Kind::Table)], true)),
            (pa.clone(), module_source(&pa, Kind::Table, &[(0, spelled.to_owned(), Kind::Table), (0, "pkg/shared".to_owned(), Kind::Table)], false)),
            (pb.clone(), module_source(&pb, Kind::Table, &[(1, spelled.to_owned(), Kind::Table), (0, "@pkg/shared".to_owned(), Kind::Table)], false)),
            ("src/pa/helper.luau".to_owned(), module_source("src/pa/helper.luau", Kind::Table, &[], false)),
            ("src/pb/helper.luau".to_owned(), module_source("src/pb/helper.luau", Kind::Func, &[], false)),
            ("src/shared.luau".to_owned(), module_source("src/shared.luau", Kind::Table, &[], false)),
        ];
        for (generator, rules) in configs(tier).into_iter().take(2) {
            out.push(Program {
                mode: mode_menu()[mode_index].clone(),
                files: files.clone(),
                entry: m2.to_owned(),
                excludes: vec![],
                externals: vec![],
                generator: generator.to_owned(),
                rules: rules.to_owned(),
                expect_error: None,
                label: label.to_owned(),
            });
        }
    }
    out
}

// ------------------------------------------------------------------------------------------------ on-disk projects

/// how the real `darklua process` binary is started on a project written to disk
#[derive(Clone, Debug, Serialize, Deserialize)]
pub struct DiskRun {
    /// working directory, relative to the project root ("" or "src")
    cwd: String,
    /// entry file as spelled on the command line (`$ABS` = absolute path of the project, `$NAME` = its directory name)
    entry_arg: String,
    /// `-c` argument, if any (same placeholders); the configuration file is always `.darklua.json` at the project root
    config_arg: Option<String>,
}

fn disk_programs() -> Vec<(Program, DiskRun)> {
    let mut out = Vec::new();
    let table = |file: &str, edges: &[(usize, String, Kind)]| module_source(file, Kind::Table, edges, false);
    // (1) a module reached through a source of the configuration and through relative paths
    let mode1 = ModeCfg::Path { mfn: "init".to_owned(), sources: vec![("pkg".to_owned(), "./packages".to_owned())] };
    for (s1, s2) in [("pkg/x", "./packages/x"), ("pkg/x", "pkg/x.lua"), ("./packages/x", "./packages/../packages/x.lua"), ("pkg/x", "./packages/y")] {
        let files = vec![
            ("main.lua".to_owned(), module_source("main.lua", Kind::Table, &[(0, s1.to_owned(), Kind::Table), (0, s2.to_owned(), Kind::Table), (0, "pkg/y".to_owned(), Kind::Table)], true)),
            ("packages/x.lua".to_owned(), table("packages/x.lua", &[(0, "./y".to_owned(), Kind::Table)])),
            ("packages/y.lua".to_owned(), table("packages/y.lua", &[])),
        ];
        for entry_arg in ["main.lua", "./main.lua", "$ABS/main.lua", "../$NAME/main.lua", "packages/../main.lua"] {
            for config_arg in [None, Some(".darklua.json"), Some("$ABS/.darklua.json"), Some("../$NAME/.darklua.json")] {
                out.push((
                    Program {
                        mode: mode1.clone(),
                        files: files.clone(),
                        entry: "main.lua".to_owned(),
                        excludes: vec![],
                        externals: vec![],
                        generator: "readable".to_owned(),
                        rules: "[]".to_owned(),
                        expect_error: None,
                        label: format!("on disk: x required as {:?} and {:?}", s1, s2),
                    },
                    DiskRun { cwd: String::new(), entry_arg: entry_arg.to_owned(), config_arg: config_arg.map(|c| c.to_owned()) },
                ));
            }
        }
    }
    // (2) darklua started inside a folder of the project: a module reached from inside and from a sibling folder
    let mode2 = ModeCfg::Path { mfn: "init".to_owned(), sources: vec![] };
    let files = vec![
        ("src/main.lua".to_owned(), module_source("src/main.lua", Kind::Table, &[(0, "./config".to_owned(), Kind::Table), (0, "../shared/util".to_owned(), Kind::Table)], true)),
        ("src/config.lua".to_owned(), table("src/config.lua", &[])),
        ("shared/util.lua".to_owned(), table("shared/util.lua", &[(0, "../src/config".to_owned(), Kind::Table)])),
    ];
    for (cwd, entry_arg, config_arg) in [
        ("", "src/main.lua", None),
        ("", "$ABS/src/main.lua", None),
        ("src", "main.lua", Some("../.darklua.json")),
        ("src", "./main.lua", Some("$ABS/.darklua.json")),
        ("src", "../src/main.lua", Some("../.darklua.json")),
        ("src", "$ABS/src/main.lua", Some("../.darklua.json")),
        ("shared", "../src/main.lua", Some("../.darklua.json")),
    ] {
        out.push((
            Program {
                mode: mode2.clone(),
                files: files.clone(),
                entry: "src/main.lua".to_owned(),
                excludes: vec![],
                externals: vec![],
                generator: "readable".to_owned(),
                rules: "[]".to_owned(),
                expect_error: None,
                label: "on disk: config required from its folder and from a sibling folder".to_owned(),
            },
            DiskRun { cwd: cwd.to_owned(), entry_arg: entry_arg.to_owned(), config_arg: config_arg.map(|c: &str| c.to_owned()) },
        ));
    }
    out
}

/// Bug model `module identity is the lexical path`: the reference run in which every lexical spelling of a file (relative
/// to the working directory through each of its ancestors, and absolute) is a module of its own
fn observe_lexical(p: &Program, run: &DiskRun, abs_root: &str, name: &str, block: &crate::luaref::ast::Block) -> Observation {
    let subst = |s: &str| s.replace("$ABS", abs_root).replace("$NAME", name);
    let cwd_real = MPath::parse(abs_root).join(&run.cwd);
    let aliases = |file: &str| -> Vec<String> {
        let abs = MPath::parse(abs_root).join(file);
        let mut v = vec![abs.key()];
        for k in 0..=cwd_real.segs.len() {
            let ancestor = &cwd_real.segs[..cwd_real.segs.len() - k];
            if abs.segs.len() > ancestor.len() && abs.segs[..ancestor.len()] == *ancestor {
                v.push(MPath { abs: false, ups: k, segs: abs.segs[ancestor.len()..].to_vec() }.key());
            }
        }
        v
    };
    let mut it = Interp::new(Mode::Luau);
    let fuel = 400_000;
    it.fuel = fuel;
    let mut files: BTreeSet<String> = BTreeSet::new();
    for (path, content) in &p.files {
        for a in aliases(path) {
            files.insert(a.clone());
            if *path != p.entry {
                let m = module_value(&mut it, path, content);
                it.modules.insert(a, m);
            }
        }
    }
    let config_dir = match &run.config_arg {
        None => String::new(),
        Some(c) => {
            let d = MPath::parse(&subst(c)).parent().key();
            if d == "." { String::new() } else { d }
        }
    };
    let env = Env { mode: p.mode.clone(), config_dir, luaurc: vec![] };
    let entry = MPath::parse(&subst(&run.entry_arg)).key();
    let entry2 = entry.clone();
    it.resolver = Some(Box::new(move |from: &str, arg: &str| {
        let from = if from == "main" { entry2.as_str() } else { from };
        resolve(&env, arg, from, &files).map_err(|e| format!("{:?}", e))
    }));
    it.current_file = Rc::from(entry.as_str());
    let r = it.run_chunk(block, &entry);
    let outcome = match r {
        Ok(vals) => Outcome::Returned(vals.iter().map(|v| it.serialize(v)).collect::<Vec<_>>().join(", ")),
        Err(Stop::Error(v)) => Outcome::Error(it.serialize(&v)),
        Err(Stop::Fuel) => Outcome::NoTermination,
        Err(Stop::Poison(m)) => Outcome::Poison(m),
    };
    Observation { outcome, log: std::mem::take(&mut it.log), fuel_used: fuel - it.fuel }
}

/// writes the project to a scratch directory, runs the real binary there and compares the bundle with the reference run
pub fn eval_disk(p: &Program, run: &DiskRun, binary: &std::path::Path, slot: usize) -> (Option<String>, Option<String>) {
    let name = format!("proj{}", slot);
    let base = std::path::PathBuf::from(crate::common::VERIF_DIR).join("target").join("tmp").join(format!("c05-{}-{}", std::process::id(), slot));
    let root = base.join(&name);
    let _ = std::fs::remove_dir_all(&base);
    let cleanup = |r: (Option<String>, Option<String>)| {
        let _ = std::fs::remove_dir_all(&base);
        r
    };
    for (k, v) in &p.files {
        let path = root.join(k);
        if let Some(parent) = path.parent() {
            let _ = std::fs::create_dir_all(parent);
        }
        if std::fs::write(&path, v).is_err() {
            return cleanup((Some(format!("MACHINERY: cannot write {}", path.display())), None));
        }
    }
    let config = format!("{{generator: '{}', rules: {}, bundle: {{require_mode: {}}}}}", p.generator, p.rules, p.mode.to_json5());
    let _ = std::fs::write(root.join(".darklua.json"), config);
    let abs_root = root.to_string_lossy().to_string();
    let subst = |s: &str| s.replace("$ABS", &abs_root).replace("$NAME", &name);
    let entry_text = &p.files.iter().find(|(k, _)| *k == p.entry).expect("entry").1;
    let parsed = match parser::parse(entry_text.as_bytes(), Mode::Luau) {
        Ok(b) => b,
        Err(e) => return cleanup((Some(format!("MACHINERY: entry does not parse: {}", e)), None)),
    };
    let reference = observe_with(p, &parsed.block, true);
    if !reference.is_ok() {
        return cleanup((Some(format!("MACHINERY: reference run is not error free: {}", reference.render())), None));
    }
    let out_file = base.join("out.lua");
    let mut cmd = std::process::Command::new(binary);
    cmd.current_dir(root.join(&run.cwd)).arg("process");
    if let Some(c) = &run.config_arg {
        cmd.arg("-c").arg(subst(c));
    }
    cmd.arg(subst(&run.entry_arg)).arg(&out_file);
    let output = match cmd.output() {
        Ok(o) => o,
        Err(e) => return cleanup((Some(format!("MACHINERY: cannot run the binary: {}", e)), None)),
    };
    let describe_run = format!("cwd=<project>/{} darklua process {}{} <out>", run.cwd, run.config_arg.as_ref().map(|c| format!("-c {} ", c)).unwrap_or_default(), run.entry_arg);
    if !output.status.success() {
        return cleanup((Some(format!("bundling failed ({}): {}", describe_run, String::from_utf8_lossy(&output.stderr).trim())), None));
    }
    let text = match std::fs::read_to_string(&out_file) {
        Ok(t) => t,
        Err(_) => return cleanup((Some(format!("no output was written ({})", describe_run)), None)),
    };
    let bundle = match parser::parse(text.as_bytes(), Mode::Luau) {
        Ok(b) => b,
        Err(e) => return cleanup((Some(format!("the bundle does not parse ({}): {}\n{}", describe_run, e, text)), None)),
    };
    let got = observe_with(p, &bundle.block, false);
    if got.same_behaviour(&reference) {
        return cleanup((None, None));
    }
    // attribute to the known finding only when the bundle behaves exactly like the lexical-identity model
    let lexical = observe_lexical(p, run, &abs_root, &name, &parsed.block);
    let finding = if lexical.is_ok() && got.same_behaviour(&lexical) { Some("same-file-under-two-lexical-paths-is-bundled-twice".to_owned()) } else { None };
    cleanup((
        Some(format!(
            "the bundle behaves differently ({})\n    modules required normally: {}\n    bundle:                    {}\n    lexical-identity model:    {}\n--- bundle\n{}",
            describe_run,
            reference.render(),
            got.render(),
            lexical.render(),
            text
        )),
        finding,
    ))
}

pub fn run(tier: Tier) -> Report {
    let mut report = Report::new("C05", "exploration", tier);
    report.rule = "(A) EVERY acyclic graph over an entry and three modules (63 edge sets with a non-empty entry) x value kind of each module (table with state, function with state, nil, false, string, \
        typed table with exported types, parenthesised call result; the last module also json / yaml / toml / txt data) x two layouts (flat; mixed .lua/.luau with a nested file and an init module folder) x \
        path and luau require modes with a source/alias x 12 require positions (local, table field, immediately called function, statement then expression, string-call sugar inside select/type, \
        shadowing local, lazily in a closure called twice, prefix position, loop body, vararg function, numeric and generic for headers, if/while/repeat conditions with a return inside a function and a table key) rotated with every spelling the reference resolver maps to the same file (extension, ././, zz/.., \
        parent-relative, source/alias-prefixed, folder, @self) x generator and rule pipeline after bundling; (B) one module required through all its spellings at once from every other file; (C) all \
        cycles on up to three modules incl. through the entry and behind a DAG, and malformed modules (syntax error, no/empty/two-value return, missing file, malformed data, unknown or missing \
        extension, unknown source) in six require positions: an error naming the files, no output, no panic; (D) excluded requires; (E) module details (top-level varargs, shadowed require, names of \
        the bundle internals, shared globals, chain of eight, requires in every expression position, exported types); (F) projects written to disk and bundled by the real `darklua process` binary: the entry \
        and the `-c` configuration spelled relatively, with `./`, absolutely, through `../<project>/` and through a sub-folder, darklua started at the project root or inside `src` / a sibling folder, a module reached \
        through a configured source and through relative paths, or from its own folder and from a sibling one. Oracle: the reference interpreter runs the entry with a model `require` (one \
        evaluation per resolved file, cached value incl. nil/false, data files parsed) and runs the bundle with a `require` that only knows the excluded modules; the entry walks the whole graph, \
        calls every stateful value and returns a log plus the graph itself, serialised with table identities; both runs must agree. non-trivial = cases with at least two requirers of one module"
        .to_owned();
    report.assumptions = vec![
        "module bodies have no externally visible effect at require time (only internal state, observed later through the values), as the property requires".to_owned(),
        "resolution of require strings in the reference run uses the C15 reference resolver; resources are in memory".to_owned(),
        "a module declaring a local with the configured modules_identifier (default __DARKLUA_BUNDLE_MODULES) collides with the documented, configurable name and is not judged; a module must end with a `return` statement at its top level".to_owned(),
        "family (F) uses the real file system under /verif/target/tmp (removed after each run); symbolic links are not created".to_owned(),
        "a model `require` passes no arguments to the module chunk (Luau behaviour); modules that depend on the value of `...` are outside the common dialect".to_owned(),
    ];
    let mut programs = Vec::new();
    let mut family_sizes = serde_json::Map::new();
    for (name, list) in [("dag", dag_programs(tier)), ("spellings", spelling_programs(tier)), ("failing", failing_programs(tier)), ("excludes", exclude_programs(tier)), ("details", detail_programs(tier))] {
        family_sizes.insert(name.to_owned(), json!(list.len()));
        programs.extend(list);
    }
    report.set("families", serde_json::Value::Object(family_sizes));
    let results: Vec<Verdict> = programs.par_iter().map(eval).collect();
    let mut distinct = BTreeSet::new();
    let mut reference_failed = 0u64;
    let mut first_reference_failure = None;
    for (p, v) in programs.iter().zip(results) {
        report.evaluations += 1;
        if let Some(d) = v.distinct {
            // a back reference (`#k` not followed by `{`): some value is reached through two paths
            let b = d.as_bytes();
            let shared = (0..b.len()).any(|i| b[i] == b'#' && {
                let mut j = i + 1;
                while j < b.len() && b[j].is_ascii_digit() {
                    j += 1;
                }
                j > i + 1 && j < b.len() && b[j] != b'{'
            });
            if shared {
                report.distinct_nontrivial += 1;
            }
            distinct.insert(crate::common::hash128(&d));
        }
        if let Some(r) = v.reference_failed {
            reference_failed += 1;
            if first_reference_failure.is_none() {
                first_reference_failure = Some(format!("{}\n{}", r, describe(p)));
            }
        }
        if let Some(why) = v.violation {
            report.violations.push(Violation { finding: None, summary: format!("{}\n--- {}", why, describe(p)), replay: json!({"kind": "bundle", "program": serde_json::to_value(p).unwrap_or_default()}) });
        }
    }
    // on-disk projects through the real binary
    let disk = disk_programs();
    match crate::dl::darklua_binary() {
        Err(e) => crate::common::machinery_error(&format!("C05: {}", e)),
        Ok(binary) => {
            let results: Vec<(Option<String>, Option<String>)> = disk.par_iter().enumerate().map(|(i, (p, run))| eval_disk(p, run, &binary, i)).collect();
            for ((p, run), (violation, finding)) in disk.iter().zip(results) {
                report.evaluations += 1;
                report.distinct_nontrivial += 1;
                if let Some(why) = violation {
                    if why.starts_with("MACHINERY") {
                        crate::common::machinery_error(&format!("C05 on-disk family: {}", why));
                    }
                    report.violations.push(Violation {
                        finding,
                        summary: format!("{}\n--- {}", why, describe(p)),
                        replay: json!({"kind": "disk bundle", "program": serde_json::to_value(p).unwrap_or_default(), "run": serde_json::to_value(run).unwrap_or_default()}),
                    });
                }
            }
        }
    }
    report.set("on_disk_runs", disk.len() as u64);
    if let Some(f) = first_reference_failure {
        crate::common::machinery_error(&format!("C05: {} generated programs do not run under the reference `require` (the generator is wrong): {}", reference_failed, f));
    }
    report.set("distinct_reference_outcomes", distinct.len() as u64);
    report.sample(json!({"label": programs[programs.len() / 3].label, "entry": programs[programs.len() / 3].files[0].1}));
    report
}

pub fn replay(v: &serde_json::Value) -> i32 {
    let p: Program = match serde_json::from_value(v["program"].clone()) {
        Ok(p) => p,
        Err(e) => {
            println!("cannot read the program: {}", e);
            return 2;
        }
    };
    println!("{}", describe(&p));
    let verdict = eval(&p);
    if let Some(r) = verdict.reference_failed {
        println!("reference run failed: {}", r);
        return 2;
    }
    match verdict.violation {
        Some(why) => {
            println!("{}", why);
            1
        }
        None => {
            println!("the case passes");
            0
        }
    }
}
