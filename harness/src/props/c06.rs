//! C06 — Luau-lowering rules preserve program behaviour (Engine A, model checking).
use super::behave::{self, FailCtx, Seed, Spec};
use crate::common::{Report, Tier};
use crate::gen::luau as u;

pub const LOWERING_RULES: &[&str] = &[
    "'remove_compound_assignment'",
    "'remove_continue'",
    "'remove_if_expression'",
    "'remove_interpolated_string'",
    "{rule:'remove_interpolated_string',strategy:'tostring'}",
    "'remove_floor_division'",
    "'convert_luau_number'",
    "'make_assignment_local'",
    "'remove_types'",
];

pub fn seeds(tier: Tier) -> Vec<Seed> {
    let th = true; let _ = tier;
    let mut seeds = Vec::new();
    let mut add = |v: Vec<String>, family: &'static str| {
        for code in v {
            seeds.push(Seed { code, family });
        }
    };
    add(u::compound_programs(th), "compound assignment");
    add(u::continue_programs(th), "continue");
    add(u::if_expr_programs(th), "if expression");
    add(u::interp_programs(th), "interpolated string");
    add(u::floor_div_programs(th), "floor division");
    add(u::number_programs(), "luau numbers");
    add(u::const_programs(), "const");
    add(u::type_programs(), "types");
    seeds
}

fn classify(ctx: &FailCtx) -> Option<String> {
    super::findings::classify_behaviour("C06", ctx)
}

pub fn run(tier: Tier) -> Report {
    let mut report = Report::new("C06", "model_checking", tier);
    report.rule = "seeds = Luau fragments U (compound assignment targets x operators x right-hand sides, continue in for/while/repeat \
        with break/closures/until-locals, if-expressions in value-position contexts, interpolated strings, floor division grid, Luau number \
        spellings, const, type syntax); BFS over the 8 lowering rules (interpolated strings in both strategies) to closure in both parser \
        modes; every reachable state generated and executed by luaref in Luau mode; distinct_nontrivial counts reached ASTs other than the seed"
        .to_owned();
    report.assumptions = vec![
        "luaref in Luau mode defines the meaning of the Luau extensions (Appendix A of DESIGN.md)".to_owned(),
        "operands of // are numbers or numeric strings (tables with __idiv are outside the property's quantifier)".to_owned(),
    ];
    let rule_jsons: Vec<String> = LOWERING_RULES.iter().map(|s| s.to_string()).collect();
    // every construct in every syntactic position, and nested in the holes of every other construct (shared with C07)
    let mut all_seeds = seeds(tier);
    for code in super::c07::position_programs() {
        all_seeds.push(Seed { code, family: "construct positions" });
    }
    for code in super::c07::nested_position_programs() {
        all_seeds.push(Seed { code, family: "nested constructs" });
    }
    let spec = Spec {
        property: "C06",
        seeds: all_seeds,
        bind_default_config: Some(format!("[{}]", rule_jsons.join(","))),
        rule_jsons,
        max_depth: tier.pick(9, 18),
        max_states: tier.pick(600, 5000),
        env_seed: behave::env_none(),
        env_out: behave::env_none(),
        classify: std::sync::Arc::new(classify),
        extra_gens: vec![],
        judge_root: true,
    };
    behave::run(spec, tier, report)
}
