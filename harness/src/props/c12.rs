//! C12 — No input or configuration crashes darklua (Engine C + A: exhaustive short inputs, one-deviation inputs, rule chains, bounded nesting).
use crate::common::{guarded, Report, Tier, Violation};
use crate::dl::{self, Gen};
use crate::explore::pipeline::explore;
use crate::gen::layouts as l;
use crate::luaref::{parser, Mode};
use rayon::prelude::*;
use serde_json::json;
use std::sync::atomic::{AtomicU64, Ordering};
use std::sync::Arc;
use std::time::{SystemTime, UNIX_EPOCH};

pub const ALPHABET: &[&str] = &[
    "-", "[", "]", "=", "\"", "'", "\\", "\n", "\r", "0", "x", ".", "e", "a", "_", "{", "}", "(", ")", ":", "<", ">", "`", "#", "%", "é", "€", "😀", "\u{feff}", "\0", " ", ",", ";", "@",
];

/// watchdog: every worker publishes when it started its current case; a monitor reports a hang as a violation
struct Watchdog {
    slots: Vec<AtomicU64>,
}

fn now_ms() -> u64 {
    SystemTime::now().duration_since(UNIX_EPOCH).map(|d| d.as_millis() as u64).unwrap_or(0)
}

thread_local! {
    static CURRENT_INPUT: std::cell::RefCell<String> = const { std::cell::RefCell::new(String::new()) };
}

static CURRENT_INPUTS: std::sync::Mutex<Vec<(usize, String)>> = std::sync::Mutex::new(Vec::new());

impl Watchdog {
    fn start() -> Arc<Watchdog> {
        let w = Arc::new(Watchdog { slots: (0..64).map(|_| AtomicU64::new(0)).collect() });
        let w2 = w.clone();
        std::thread::spawn(move || loop {
            std::thread::sleep(std::time::Duration::from_millis(500));
            let now = now_ms();
            for (i, s) in w2.slots.iter().enumerate() {
                let t = s.load(Ordering::Relaxed);
                if t != 0 && now.saturating_sub(t) > 20_000 {
                    let input = CURRENT_INPUTS.lock().map(|v| v.iter().find(|(k, _)| *k == i).map(|(_, s)| s.clone()).unwrap_or_default()).unwrap_or_default();
                    let dir = std::path::PathBuf::from(crate::common::VERIF_DIR).join("replays").join("C12");
                    let _ = std::fs::create_dir_all(&dir);
                    let path = dir.join("hang.json");
                    let _ = std::fs::write(&path, serde_json::to_string_pretty(&json!({"summary": "a case did not finish within 20 s", "input": input})).unwrap());
                    println!("VIOLATION property=C12 replay={}", path.display());
                    println!("  a case did not finish within 20 s (hang): {:?}", input);
                    std::process::exit(1);
                }
            }
        });
        w
    }
    fn run<T>(&self, input: &str, f: impl FnOnce() -> T) -> T {
        let idx = rayon::current_thread_index().unwrap_or(63).min(63);
        if let Ok(mut v) = CURRENT_INPUTS.lock() {
            v.retain(|(k, _)| *k != idx);
            v.push((idx, input.chars().take(400).collect()));
        }
        self.slots[idx].store(now_ms(), Ordering::Relaxed);
        let r = f();
        self.slots[idx].store(0, Ordering::Relaxed);
        r
    }
}

/// parse in both modes; when it parses, every generator must complete and its output must parse again
fn check_input(src: &str, full: bool, wd: &Watchdog) -> (u64, bool, Vec<Violation>) {
    let mut v = Vec::new();
    let mut n = 0;
    let mut parsed_any = false;
    for tokens in [false, true] {
        n += 1;
        let res = wd.run(src, || dl::parse(src, tokens));
        match res {
            Err(e) if e.starts_with("PANIC") => v.push(Violation { finding: None, summary: format!("{} on input {:?}", e, src), replay: json!({"kind": "parse", "input": src, "preserve_tokens": tokens}) }),
            Err(_) => {}
            Ok(block) => {
                parsed_any = true;
                if !full {
                    continue;
                }
                let gens: &[Gen] = if tokens { &[Gen::Retain] } else { &[Gen::Dense(0), Gen::Dense(1), Gen::Dense(80), Gen::Readable(0), Gen::Readable(1), Gen::Readable(80), Gen::Retain] };
                for gen in gens {
                    n += 1;
                    match wd.run(src, || dl::generate(&block, src, *gen)) {
                        Err(e) => v.push(Violation { finding: None, summary: format!("{} on input {:?}", e, src), replay: json!({"kind": "generate", "input": src, "generator": gen.name()}) }),
                        Ok(text) => {
                            let again = wd.run(&text, || dl::parse(&text, false));
                            if let Err(e) = again {
                                v.push(Violation {
                                    finding: None,
                                    summary: format!("output of {} does not parse again ({})\n--- input  {:?}\n--- output {:?}", gen.name(), e, src, text),
                                    replay: json!({"kind": "reparse", "input": src, "generator": gen.name(), "output": text}),
                                });
                            }
                        }
                    }
                }
            }
        }
    }
    (n, parsed_any, v)
}

fn short_inputs(max_len: usize) -> Vec<String> {
    let mut out = vec![String::new()];
    let mut cur = vec![String::new()];
    for _ in 0..max_len {
        let mut next = Vec::with_capacity(cur.len() * ALPHABET.len());
        for p in &cur {
            for a in ALPHABET {
                next.push(format!("{}{}", p, a));
            }
        }
        out.extend(next.iter().cloned());
        cur = next;
    }
    out
}

fn deviated_inputs(tier: Tier) -> Vec<String> {
    let mut files: Vec<String> = l::TEMPLATES.iter().map(|s| s.to_string()).collect();
    files.extend(l::spelling_programs().into_iter().filter(|s| s.len() < 80));
    for path in ["tests/test_cases/spaces_and_comments.lua", "tests/fuzzed_test_cases/a.lua", "tests/fuzzed_test_cases/b.lua", "tests/fuzzed_test_cases/c.lua"] {
        if let Ok(t) = std::fs::read_to_string(std::path::Path::new("/repo").join(path)) {
            if t.len() < 6000 {
                files.push(t);
            }
        }
    }
    // constructs after which the parser dependency has been seen to stop reading without reporting an error
    for extra in [
        "local e = { f = 1 :: T }",
        "function f(...: (number) -> ()) end",
        "return function(...: number) end",
        "function fn<T>(): T end",
        "local i = `{a :: T}`",
        "local y = f<<T>>()",
        "type T = { x: number }",
        "while x :: T do print(1) end",
        "repeat until if a then b else c",
        "x = {if a then 1 else 2}",
        "f(if a then 1 else 2)",
        "do return if a then b else c\nend print(1)",
    ] {
        files.push(extra.to_owned());
    }
    let mut out: Vec<String> = ["local t = { a = 1 ::\nlocal y = 2", "while x ::\ndo print(1) end", "do return if\nend print(1)", "while if a then 1 else\ndo print(1) end", "f(x ::)", "return 1 return launch()", "a - (b << -c)"]
        .iter()
        .map(|s| s.to_string())
        .collect();
    for f in &files {
        let offsets: Vec<usize> = f.char_indices().map(|(i, _)| i).chain(std::iter::once(f.len())).collect();
        let big = f.len() > 400;
        let step = if big { tier.pick(7, 2) } else { 1 };
        for (k, off) in offsets.iter().enumerate() {
            // truncation at every offset
            out.push(f[..*off].to_owned());
            if k % step != 0 {
                continue;
            }
            for a in ALPHABET {
                // insertion
                out.push(format!("{}{}{}", &f[..*off], a, &f[*off..]));
                // replacement of the next character
                if let Some(next) = offsets.get(k + 1) {
                    if !big || tier == Tier::Thorough {
                        out.push(format!("{}{}{}", &f[..*off], a, &f[*next..]));
                    }
                }
            }
        }
    }
    out
}

pub const ALL_RULES: &[&str] = &[
    "{rule:'append_text_comment',text:'hello'}",
    "{rule:'append_text_comment',text:'a\\nb',location:'end'}",
    "'compute_expression'",
    "'convert_function_to_assignment'",
    "'convert_index_to_field'",
    "'convert_local_function_to_assign'",
    "'convert_luau_number'",
    "{rule:'convert_require',current:'path',target:'luau'}",
    "{rule:'convert_require',current:{name:'luau',use_luau_configuration:false},target:{name:'path',module_folder_name:'index'}}",
    "'convert_square_root_call'",
    "'filter_after_early_return'",
    "'group_local_assignment'",
    "{rule:'inject_global_value',identifier:'G',value:{a:[1,'s',null]}}",
    "{rule:'inject_global_value',identifier:'x'}",
    "'make_assignment_local'",
    "'remove_assertions'",
    "{rule:'remove_assertions',preserve_arguments_side_effects:false}",
    "'remove_attribute'",
    "{rule:'remove_attribute',match:['^n']}",
    "'remove_comments'",
    "{rule:'remove_comments',except:['^--!']}",
    "'remove_compound_assignment'",
    "'remove_debug_profiling'",
    "'remove_empty_do'",
    "'remove_floor_division'",
    "'remove_function_call_parens'",
    "'remove_interpolated_string'",
    "{rule:'remove_interpolated_string',strategy:'tostring'}",
    "'remove_method_call'",
    "'remove_method_definition'",
    "'remove_nil_declaration'",
    "'remove_spaces'",
    "'remove_types'",
    "'remove_unused_if_branch'",
    "'remove_unused_variable'",
    "'remove_unused_while'",
    "'rename_variables'",
    "{rule:'rename_variables',include_functions:true,globals:[]}",
    "'remove_if_expression'",
    "'remove_continue'",
];

const CHAIN_SEEDS: &[&str] = &[
    "--!strict\n-- c\nlocal unused = 1\nlocal t = { k = 1, [\"end\"] = 2 }\nlocal function lf(a: number, ...): number\n    local x = a\n    x += 1\n    x //= 2\n    if x == 1 then return x end\n    for i = 1, 3 do\n        if i == 2 then continue end\n        print(i, `v{i}`, if i > 1 then \"a\" else \"b\")\n    end\n    do end\n    while false do end\n    return x\nend\nfunction gf() return t[\"k\"] end\nfunction t:method() return self end\nassert(lf(1), \"message\")\ndebug.profilebegin(\"label\")\nlocal r = require(\"./dep\")\nprint(G, _G.G, math.sqrt(4), t:method(), (\"x\"):rep(2), 0b11, 1_000, gf(), r)\nconst c = nil\n@native local function nf() end\ntype T = number\nreturn true and lf(2)\n",
    "local a, b = 1\nlocal c = nil\nrepeat local d = a if d then continue end until d\nreturn a, b, c\n",
    "local t = {}\nt[`{1}`] += if t then 1 else 2\nfunction t.a.b:c(...) return ... end\nreturn t:c() :: any\n",
    "for i = 1, 2 do local function f() return i end if f() then break end end\nwhile true do break end\nreturn\n",
    "local x <const> = 1\nreturn x\n",
    "export type A<T = number, U... = ...string> = (T) -> U...\ntype function tf(a) return a end\nlocal v: A<number> = nil :: any\nreturn v\n",
    "return function(...) local a, b = ... return a // b, #{...}, -(-a), not not b, a .. b .. `{a}{b}` end\n",
    "if a then elseif b then else end\ndo do do end end end\nlocal _ = function() end\n;(f or g)()\n",
    "",
    "-- only a comment",
    "return (((1)))",
    "local s = [==[\nlong]==] .. 'x' .. \"y\" .. [[z]]\nreturn s:rep(2), #s, s[1]\n",
    // strings that are not valid UTF-8 and hold both quotes; declarations that rules leave with fewer values than names
    "local s = \"\\xff it's \\\"quoted\\\"\"\nlocal u = '\\xfe\\\"\\''\nreturn s .. u, `\\xff'\"{s}`\n",
    "const a, b, c = 1, assert(x)\nconst d, e = assert(y, 'm')\nconst f, g = debug.profilebegin('p')\nlocal h, i = assert(z)\nreturn a, b, c, d, e, f, g, h, i\n",
    // a line comment ending in a word directly before every construct a rule replaces by generated text
    "local a = -- the text string\n    `x{v}`\nif true then -- then word\n    f()\nelse -- else word\n    g()\nend\nif false then -- dead\n    f()\nelse -- kept word\n    g()\nend\nlocal b = -- cond word\n    if a then 1 else 2\nt.x -- target word\n    += 1\nlocal c = -- call word\n    obj:method()\nlocal d = -- sqrt word\n    math.sqrt(4)\nlocal e = -- idx word\n    t[\"k\"]\nlocal f = -- num word\n    0b11 // 2\nlocal g = -- assert word\n    assert(a, \"m\")\nlocal h = -- req word\n    require(\"./dep\")\nfor i = 1, 2 do -- loop word\n    continue -- cont word\nend\nfunction t:m() -- body word\n    return self -- ret word\nend\nreturn G -- global word\n",
    // a shebang line and a byte order mark: whatever is accepted must still come out as text that parses, also after a rule
    // wrote something in front of it
    "#!/usr/bin/env lua\nlocal a = 1 -- c\nreturn a\n",
    "\u{feff}local a = 1 -- c\nreturn a\n",
    "\u{feff}return 'é'\n",
    // numeric strings in hexadecimal floating point form (C99 strtod accepts them)
    "return '0x1p64' + 0, -'0x10p60', '0x3p63' * 1, '0x1p4' .. '', '0xffp60' ^ 2, #'0x1p64', '0x1p64' == 1, '0x1P+2' + 1\n",
    "local a = f() --[[block word]] `x{v}` -- tail word\nlocal b = (g()) -- paren word\n;(h or i)() -- call word\nreturn a -- a word\n    , b -- b word\n",
];

fn check_chains(tier: Tier, wd: &Watchdog) -> (u64, u64, u64, Vec<Violation>) {
    let depth = tier.pick(2, 3);
    let mut seeds: Vec<String> = CHAIN_SEEDS.iter().map(|s| s.to_string()).collect();
    seeds.extend(crate::gen::luau::type_programs());
    seeds.extend(crate::gen::luau::const_programs());
    seeds.extend(crate::gen::luau::continue_programs(false).into_iter().step_by(9));
    seeds.extend(crate::gen::luau::compound_programs(false).into_iter().step_by(97));
    let results: Vec<(u64, u64, u64, Vec<Violation>)> = seeds
        .par_iter()
        .flat_map(|code| [(code, true), (code, false)])
        .map(|(code, tokens)| {
            let mut v = Vec::new();
            let rules: Vec<_> = ALL_RULES.iter().map(|j| dl::make_rule(j)).collect();
            let graph = match wd.run(code, || explore(code, tokens, &rules, depth, tier.pick(1800, 40000))) {
                Ok(g) => g,
                Err(e) => {
                    if e.starts_with("PANIC") {
                        v.push(Violation { finding: None, summary: format!("{} on seed {:?}", e, code), replay: json!({"seed": code}) });
                    }
                    return (0, 0, 0, v);
                }
            };
            for (path, msg) in &graph.panics {
                let names: Vec<&str> = path.iter().map(|i| ALL_RULES[*i]).collect();
                v.push(Violation { finding: None, summary: format!("{} after rules {:?}\n--- seed\n{}", msg, names, code), replay: json!({"kind": "rule chain", "seed": code, "rules": names, "tokens": tokens}) });
            }
            let gens: Vec<Gen> = if tokens { vec![Gen::Retain] } else { vec![Gen::Dense(0), Gen::Dense(1), Gen::Dense(80), Gen::Readable(0), Gen::Readable(1), Gen::Readable(80)] };
            let mut n = 0;
            for (idx, node) in graph.nodes.iter().enumerate() {
                for gen in &gens {
                    n += 1;
                    let names = || -> Vec<&str> { graph.path(idx).iter().map(|i| ALL_RULES[*i]).collect() };
                    match wd.run(code, || dl::generate(&node.block, code, *gen)) {
                        Err(e) => v.push(Violation { finding: None, summary: format!("{} after rules {:?}\n--- seed\n{}", e, names(), code), replay: json!({"kind": "rule chain generate", "seed": code, "rules": names(), "generator": gen.name(), "tokens": tokens}) }),
                        Ok(text) => {
                            let p1 = wd.run(&text, || dl::parse(&text, false)).err();
                            let p2 = parser::parse(text.as_bytes(), Mode::Luau).err().map(|e| e.to_string());
                            if p1.is_some() || p2.is_some() {
                                v.push(Violation {
                                    finding: None,
                                    summary: format!("output does not parse again (darklua: {:?}, luaref: {:?}) after rules {:?} with {}\n--- seed\n{}\n--- output\n{}", p1, p2, names(), gen.name(), code, text),
                                    replay: json!({"kind": "rule chain reparse", "seed": code, "rules": names(), "generator": gen.name(), "tokens": tokens, "output": text}),
                                });
                            }
                        }
                    }
                }
            }
            (n, graph.nodes.len() as u64, graph.edges.len() as u64, v)
        })
        .collect();
    let mut total = (0, 0, 0, Vec::new());
    for (n, s, t, v) in results {
        total.0 += n;
        total.1 += s;
        total.2 += t;
        total.3.extend(v);
    }
    total
}

/// batch with one bad file: errors are values naming the file, the other files are written
fn check_batch() -> Vec<Violation> {
    let mut v = Vec::new();
    for bad in ["local = 1", "return `{`", "\0", "x = = 1", "local t = {", "--[[ unfinished", "return 1 2"] {
        let files = [("src/good1.lua", "return 1\n"), ("src/bad.lua", bad), ("src/good2.lua", "do end return 2\n")];
        match dl::process_memory(&files, "{rules: ['remove_empty_do']}", "src", Some("out")) {
            Err(e) => v.push(Violation { finding: None, summary: format!("{} on a batch containing {:?}", e, bad), replay: json!({"kind": "batch", "bad": bad}) }),
            Ok((res, errors)) => {
                if errors.len() != 1 || !errors[0].contains("bad.lua") || errors[0].starts_with("FATAL") {
                    v.push(Violation { finding: None, summary: format!("expected exactly one error value naming bad.lua for {:?}: {:?}", bad, errors), replay: json!({"kind": "batch", "bad": bad}) });
                }
                if res.get("out/good1.lua").is_err() || res.get("out/good2.lua").is_err() {
                    v.push(Violation { finding: None, summary: format!("the batch stopped half way for {:?}", bad), replay: json!({"kind": "batch", "bad": bad}) });
                }
            }
        }
    }
    v
}

const BUNDLE_MODULES: &[&str] = &[
    "return 1;",
    "local x = 1; return x;",
    "-- a module\nlocal t = {}\nfunction t.f() return 1; end\nreturn t;\n",
    "do return { a = 1 }; end",
    "local M = {} -- c\nfor i = 1, 2 do if i then break; end end\nwhile true do continue; end\nreturn M -- tail\n",
    "type T = number\nexport type U = T\nlocal v: T = 1\nreturn v :: U;\n",
    "return function(...) return ...; end;",
    "return `a{1}b`;",
    "return nil",
    "",
    "local a = 1",
    "return 1, 2",
];

const BUNDLE_ENTRIES: &[&str] = &[
    "return require('./m')",
    "local m = require('./m')\nlocal n = require(\"./m.lua\")\n-- a much longer entry file so that the byte offsets of the module fall inside it, with a comment and some more statements to be on the safe side\nlocal function use(...) return ... end\nreturn use(m, n);\n",
    "require('./m');require('./n')\nreturn { require('./n'), (require('./m')) }",
];

/// bundling is a configuration too: every entry x module pair x generator, alone and followed by rules
fn check_bundles(wd: &Watchdog) -> (u64, Vec<Violation>) {
    let mut cases = Vec::new();
    for entry in BUNDLE_ENTRIES {
        for m in BUNDLE_MODULES {
            for n in BUNDLE_MODULES.iter().step_by(3) {
                for generator in ["retain_lines", "dense", "readable", "{name:'dense',column_span:1}"] {
                    for rules in ["[]", "['remove_spaces','remove_comments','remove_types']", "['remove_empty_do','rename_variables','remove_unused_variable']"] {
                        cases.push((*entry, *m, *n, generator, rules));
                    }
                }
            }
        }
    }
    let results: Vec<Vec<Violation>> = cases
        .par_iter()
        .map(|(entry, m, n, generator, rules)| {
            let mut v = Vec::new();
            let gen_json = if generator.starts_with('{') { generator.to_string() } else { format!("'{}'", generator) };
            let config = format!("{{generator: {}, rules: {}, bundle: {{require_mode: 'path'}}}}", gen_json, rules);
            let files = [("src/main.lua", *entry), ("src/m.lua", *m), ("src/n.lua", *n)];
            let describe = || format!("entry {:?} requiring modules m = {:?}, n = {:?} with configuration {}", entry, m, n, config);
            let replay = || json!({"kind": "bundle", "entry": entry, "m": m, "n": n, "config": config});
            match wd.run(entry, || dl::process_memory(&files, &config, "src/main.lua", Some("out/main.lua"))) {
                Err(e) => v.push(Violation { finding: None, summary: format!("{}\n--- {}", e, describe()), replay: replay() }),
                Ok((res, errors)) => {
                    if errors.iter().any(|e| e.starts_with("FATAL")) {
                        v.push(Violation { finding: None, summary: format!("bundling aborted instead of reporting a per-file error: {:?}\n--- {}", errors, describe()), replay: replay() });
                    } else if errors.is_empty() {
                        match res.get("out/main.lua") {
                            Err(_) => v.push(Violation { finding: None, summary: format!("no error and no output\n--- {}", describe()), replay: replay() }),
                            Ok(text) => {
                                let p1 = dl::parse(&text, false).err();
                                let p2 = parser::parse(text.as_bytes(), Mode::Luau).err().map(|e| e.to_string());
                                if p1.is_some() || p2.is_some() {
                                    v.push(Violation { finding: None, summary: format!("the bundle does not parse again ({})\n--- {}\n--- output\n{}", p1.or(p2).unwrap_or_default(), describe(), text), replay: replay() });
                                }
                            }
                        }
                    } else if !errors.iter().all(|e| e.contains("main.lua")) {
                        v.push(Violation { finding: None, summary: format!("an error does not name the file being processed: {:?}\n--- {}", errors, describe()), replay: replay() });
                    }
                }
            }
            v
        })
        .collect();
    let mut all: Vec<Violation> = results.into_iter().flatten().collect();
    // the name of the table of modules is free text in the configuration: whatever it is, the answer is a refusal or a bundle that parses
    let mut n = cases.len() as u64;
    for identifier in ["M", "_", "__DARKLUA_BUNDLE_MODULES", "end", "nil", "a b", "1x", "a.b", "", " ", "é", "a-b", "a\nb", "self", "type", "continue"] {
        for generator in ["retain_lines", "dense", "readable"] {
            n += 1;
            let config = format!("{{generator: '{}', rules: [], bundle: {{require_mode: 'path', modules_identifier: {}}}}}", generator, serde_json::to_string(identifier).unwrap());
            let files = [("src/main.lua", "local m = require('./m')\nreturn m\n"), ("src/m.lua", "return {}\n")];
            let describe = || format!("bundling with configuration {}", config);
            let replay = || json!({"kind": "bundle identifier", "config": config});
            match wd.run(&config, || dl::process_memory(&files, &config, "src/main.lua", Some("out/main.lua"))) {
                Err(e) => all.push(Violation { finding: None, summary: format!("{}\n--- {}", e, describe()), replay: replay() }),
                Ok((res, errors)) => {
                    if errors.is_empty() {
                        match res.get("out/main.lua") {
                            Err(_) => all.push(Violation { finding: None, summary: format!("no error and no output\n--- {}", describe()), replay: replay() }),
                            Ok(text) => {
                                let p1 = dl::parse(&text, false).err();
                                let p2 = parser::parse(text.as_bytes(), Mode::Luau).err().map(|e| e.to_string());
                                if p1.is_some() || p2.is_some() {
                                    all.push(Violation { finding: None, summary: format!("the bundle does not parse again ({})\n--- {}\n--- output\n{}", p1.or(p2).unwrap_or_default(), describe(), text), replay: replay() });
                                }
                            }
                        }
                    }
                }
            }
        }
    }
    (n, all)
}

pub const NEST_KINDS: &[&str] = &["parentheses", "tables", "unary", "functions", "do blocks", "calls", "if statements", "index"];
/// nesting depth the check asserts (deeper nesting exhausts the native stack of the parser dependency and is outside the claim)
pub const DOCUMENTED_DEPTH: usize = 64;

/// constructs that are flat in the text (no nesting) but build a left-deep tree: one link per repetition
pub const CHAIN_KINDS: &[&str] = &["call chain", "field chain", "index chain", "method chain", "binary chain", "concat chain", "statement list", "table entries", "elseif chain"];
/// short chains of constants: every rule must finish on them within seconds (the evaluator must not redo the work of a
/// sub-expression a number of times that doubles with every link)
pub const SHORT_CHAIN_KINDS: &[&str] = &[
    "constant sum", "constant concat", "constant and-or", "constant comparison", "constant unary", "constant if-expression", "constant parentheses", "and chain", "or chain", "not chain",
    "constant power", "mixed arithmetic", "left concat", "interpolated nest", "table index chain", "unknown sum", "length chain", "elseif expression chain",
];
pub const SHORT_CHAIN_LENGTHS: &[usize] = &[8, 24, 48, 96, 200];
pub const CHILD_TIME_LIMIT_S: u64 = 120;
/// chain length the check asserts; longer chains are probed and a native stack overflow there is the known finding
/// `long-flat-chain-overflows-the-native-stack`
pub const DOCUMENTED_CHAIN: usize = 1024;

pub fn nested_source(kind: &str, depth: usize) -> String {
    match kind {
        "constant sum" => format!("return 1{}", "+1".repeat(depth)),
        "and chain" => format!("return true{}", " and true".repeat(depth)),
        "or chain" => format!("return false{}", " or nil".repeat(depth)),
        "not chain" => format!("return {}true", "not ".repeat(depth)),
        "constant power" => format!("return 1{}", "^1".repeat(depth)),
        "mixed arithmetic" => format!("return 1{}", "*2-3/4%5".repeat(depth)),
        "left concat" => format!("return {}'a'{}", "(".repeat(depth), "..'b')".repeat(depth)),
        "interpolated nest" => format!("return {}1{}", "`{".repeat(depth), "}`".repeat(depth)),
        "table index chain" => format!("return ({{}}){}", "[1]".repeat(depth)),
        "unknown sum" => format!("return x{}", "+(1+1)".repeat(depth)),
        "length chain" => format!("return {}'a'", "# ".repeat(depth)),
        "elseif expression chain" => format!("return if a then 1 {}else 2", "elseif true then 1 ".repeat(depth)),
        "constant concat" => format!("return 'a'{}", "..'b'".repeat(depth)),
        "constant and-or" => format!("return 1{}", " and 2 or 3".repeat(depth)),
        "constant comparison" => format!("return 1{}", "==1".repeat(depth)),
        "constant unary" => format!("return {}1", "- ".repeat(depth)),
        "constant if-expression" => format!("return {}1{}", "if true then ".repeat(depth), " else 2".repeat(depth)),
        "constant parentheses" => format!("return {}1{}", "(1+".repeat(depth), ")".repeat(depth)),
        "call chain" => format!("return f{}", "()".repeat(depth)),
        "field chain" => format!("return a{}", ".b".repeat(depth)),
        "index chain" => format!("return a{}", "[1]".repeat(depth)),
        "method chain" => format!("return a{}", ":b()".repeat(depth)),
        "binary chain" => format!("return 1{}", "+x".repeat(depth)),
        "concat chain" => format!("return a{}", "..b".repeat(depth)),
        "statement list" => "f() ".repeat(depth),
        "table entries" => format!("return {{{}}}", "1,".repeat(depth)),
        "elseif chain" => format!("if a then {}end", "elseif b then ".repeat(depth)),
        "parentheses" => format!("return {}1{}", "(".repeat(depth), ")".repeat(depth)),
        "tables" => format!("return {}{}", "{".repeat(depth), "}".repeat(depth)),
        "unary" => format!("return {}1", "- ".repeat(depth)),
        "functions" => format!("{}return 1{}", "local function f() ".repeat(depth), " end".repeat(depth)),
        "do blocks" => format!("{}{}", "do ".repeat(depth), "end ".repeat(depth)),
        "calls" => format!("return f{}", "(f".repeat(depth) + &")".repeat(depth)),
        "if statements" => format!("{}{}", "if x then ".repeat(depth), "end ".repeat(depth)),
        "index" => format!("return t{}{}", "[t".repeat(depth), "]".repeat(depth)),
        _ => String::new(),
    }
}

/// runs in a subprocess (`dlverif nest <kind> <depth> [all]`): parse, apply the default rules in sequence (or, with `all`,
/// also every rule of ALL_RULES on its own from the parsed tree), generate with the three generators
pub fn nest_child(kind: &str, depth: usize, all_rules: bool) -> i32 {
    let src = nested_source(kind, depth);
    let handle = std::thread::Builder::new().stack_size(8 << 20).spawn(move || -> Result<(), String> {
        for tokens in [false, true] {
            let parser = if tokens { darklua_core::Parser::default().preserve_tokens() } else { darklua_core::Parser::default() };
            let parsed = match guarded(|| parser.parse(&src)) {
                Ok(Ok(b)) => b,
                Ok(Err(_)) => continue,
                Err(p) => return Err(format!("PANIC {}", p)),
            };
            let resources = darklua_core::Resources::from_memory();
            let mut block = parsed.clone();
            for name in crate::dl::DEFAULT_RULE_NAMES {
                let rule = dl::make_rule(&format!("'{}'", name));
                dl::apply(rule.as_ref(), &mut block, &src, &resources, "src/test.lua").map_err(|e| e)?;
            }
            for gen in [Gen::Dense(80), Gen::Readable(80), Gen::Retain] {
                dl::generate(&block, &src, gen)?;
            }
            if all_rules {
                for json in ALL_RULES {
                    let mut block = parsed.clone();
                    let rule = dl::make_rule(json);
                    // a rule may refuse the input with an error value; a panic is reported by `apply` as PANIC
                    if let Err(e) = dl::apply(rule.as_ref(), &mut block, &src, &resources, "src/test.lua") {
                        if e.contains("PANIC") {
                            return Err(format!("{} in rule {}", e, json));
                        }
                        continue;
                    }
                    for gen in [Gen::Dense(80), Gen::Retain] {
                        dl::generate(&block, &src, gen).map_err(|e| format!("{} after rule {}", e, json))?;
                    }
                }
            }
        }
        Ok(())
    });
    match handle.map(|h| h.join()) {
        Ok(Ok(Ok(()))) => 0,
        Ok(Ok(Err(e))) => {
            println!("{}", e);
            3
        }
        _ => 4,
    }
}

/// runs `dlverif nest <kind> <n>` with a time limit: (exit code, or None when it had to be killed; its standard output)
fn run_child(exe: &std::path::Path, kind: &str, n: usize, all_rules: bool) -> (Option<i32>, String) {
    use std::io::Read;
    let mut child = match std::process::Command::new(exe).args(["nest", kind, &n.to_string(), if all_rules { "all" } else { "default" }]).stdout(std::process::Stdio::piped()).stderr(std::process::Stdio::null()).spawn() {
        Ok(c) => c,
        Err(e) => return (Some(-1), format!("cannot start the child process: {}", e)),
    };
    let start = std::time::Instant::now();
    loop {
        match child.try_wait() {
            Ok(Some(status)) => {
                let mut out = String::new();
                if let Some(mut o) = child.stdout.take() {
                    let _ = o.read_to_string(&mut out);
                }
                // a signal (abort on stack overflow) has no code
                return (Some(status.code().unwrap_or(134)), out);
            }
            Ok(None) => {
                if start.elapsed().as_secs() >= CHILD_TIME_LIMIT_S {
                    let _ = child.kill();
                    let _ = child.wait();
                    return (None, String::new());
                }
                std::thread::sleep(std::time::Duration::from_millis(20));
            }
            Err(e) => return (Some(-1), e.to_string()),
        }
    }
}

fn check_nesting(tier: Tier) -> (u64, serde_json::Value, Vec<Violation>) {
    let exe = std::env::current_exe().unwrap();
    // (kind, lengths to try in order, asserted bound, every rule on its own too)
    let mut plans: Vec<(&str, Vec<usize>, usize, bool)> = Vec::new();
    for kind in NEST_KINDS {
        plans.push((kind, vec![16, 64, 128, 256, 512, 1024], DOCUMENTED_DEPTH, true));
    }
    for kind in SHORT_CHAIN_KINDS {
        plans.push((kind, SHORT_CHAIN_LENGTHS.to_vec(), *SHORT_CHAIN_LENGTHS.last().unwrap(), true));
    }
    for kind in CHAIN_KINDS {
        // compute_expression takes a time that grows with the cube of the length of an arithmetic chain (1024 terms: 2 s,
        // 2048: 30 s): it completes, but longer chains are not probed
        let lengths: Vec<usize> = if *kind == "binary chain" {
            vec![64, 1024]
        } else if tier == Tier::Quick {
            vec![64, 1024, 16384]
        } else {
            vec![64, 1024, 4096, 16384, 131072]
        };
        plans.push((kind, lengths, DOCUMENTED_CHAIN, false));
    }
    let results: Vec<(String, usize, u64, Vec<Violation>)> = plans
        .par_iter()
        .map(|(kind, lengths, asserted, all_rules)| {
            let mut v = Vec::new();
            let mut largest_ok = 0;
            let mut n = 0;
            for length in lengths {
                n += 1;
                let (code, stdout) = run_child(&exe, kind, *length, *all_rules && *length <= 256);
                if code == Some(0) {
                    largest_ok = *length;
                    continue;
                }
                let detail = if code.is_none() { format!("still running after {} s", CHILD_TIME_LIMIT_S) } else { format!("exit {:?} {}", code, stdout.trim()) };
                // an error value (exit 3 with a message that is not a panic) is an answer; a crash or a hang is not
                let failed = code != Some(3) || detail.contains("PANIC");
                if failed && length <= asserted {
                    v.push(Violation {
                        finding: None,
                        summary: format!("{} of size {} make darklua crash or hang ({}); sizes up to {} are asserted", kind, length, detail, asserted),
                        replay: json!({"kind": "nesting", "construct": kind, "depth": length}),
                    });
                } else if failed && CHAIN_KINDS.contains(kind) {
                    v.push(Violation {
                        finding: if code == Some(134) { Some("long-flat-chain-overflows-the-native-stack".to_owned()) } else { None },
                        summary: format!("a {} of {} links crashes darklua ({}); chains up to {} links are asserted", kind, length, detail, asserted),
                        replay: json!({"kind": "nesting", "construct": kind, "depth": length}),
                    });
                }
                break;
            }
            (kind.to_string(), largest_ok, n, v)
        })
        .collect();
    let mut observed = serde_json::Map::new();
    let mut v = Vec::new();
    let mut n = 0;
    for (kind, largest_ok, count, violations) in results {
        observed.insert(kind, json!(largest_ok));
        n += count;
        v.extend(violations);
    }
    (n, serde_json::Value::Object(observed), v)
}

pub fn run(tier: Tier) -> Report {
    let mut report = Report::new("C12", "exploration", tier);
    report.rule = "(i) ALL strings of length <= 3 (4 in thorough) over a 34-symbol alphabet of token-start characters (quotes, brackets, backslash, CR/LF, digits, `x`, `.`, `e`, backtick, \
        multi-byte characters, BOM, NUL, ...) through Parser::parse in both modes; (ii) every truncation of, and every insertion / replacement of each alphabet symbol at every character offset of, \
        109 templates covering every node kind, the literal-spelling programs and the repository's Lua test files (stepped offsets on large files); whatever parses is written by all generators at \
        column spans {0, 1, 80} and must parse again; (iii) BFS over 40 rule instances (all 32 rules, default and one non-default setting) from Luau-heavy seeds to depth 2 (3): no panic, every state \
        written by all generators x spans {0,1,80}, each output accepted by darklua's parser and by luaref; a 3-file batch with one bad file returns one error value naming it and writes the others; \
        (iv) 8 constructs nested 16..1024 deep in a subprocess with an 8 MB stack: no crash up to the documented depth (64). A watchdog turns any case running longer than 20 s into a violation. \
        non-trivial = inputs that parse"
        .to_owned();
    report.assumptions = vec![
        "the parser API takes &str: non-UTF-8 files are rejected before parsing (covered under C11)".to_owned(),
        format!("nesting deeper than {} is outside the claim; the largest passing depth per construct is recorded in the evidence", DOCUMENTED_DEPTH),
    ];
    let wd = Watchdog::start();
    // (i)
    let shorts = short_inputs(tier.pick(3, 4));
    let res: Vec<(u64, bool, Vec<Violation>)> = shorts.par_iter().map(|s| check_input(s, s.len() <= 3 || true, &wd)).collect();
    let mut parsed = 0u64;
    for (n, p, v) in res {
        report.evaluations += n;
        if p {
            parsed += 1;
        }
        report.violations.extend(v);
    }
    report.set("short_inputs", shorts.len() as u64);
    report.set("short_inputs_that_parse", parsed);
    report.distinct_nontrivial += parsed;
    // (ii)
    let devs = deviated_inputs(tier);
    let res: Vec<(u64, bool, Vec<Violation>)> = devs.par_iter().map(|s| check_input(s, true, &wd)).collect();
    let mut parsed = 0u64;
    for (n, p, v) in res {
        report.evaluations += n;
        if p {
            parsed += 1;
        }
        report.violations.extend(v);
    }
    report.set("deviated_inputs", devs.len() as u64);
    report.set("deviated_inputs_that_parse", parsed);
    report.distinct_nontrivial += parsed;
    // (iii)
    let (n, states, transitions, v) = check_chains(tier, &wd);
    report.evaluations += n;
    report.states = states;
    report.transitions = transitions;
    report.violations.extend(v);
    report.violations.extend(check_batch());
    let (n, v) = check_bundles(&wd);
    report.evaluations += n;
    report.distinct_nontrivial += n;
    report.violations.extend(v);
    report.set("bundle_cases", n);
    report.set("rule_chain_depth", tier.pick(2, 3) as u64);
    // (iv)
    let (n, observed, v) = check_nesting(tier);
    report.evaluations += n;
    report.violations.extend(v);
    report.set("largest_passing_nesting_depth", observed);
    report.set("documented_depth", DOCUMENTED_DEPTH as u64);
    report.sample(json!({"short_input": shorts[shorts.len() / 2]}));
    report.sample(json!({"deviated_input": devs[devs.len() / 2]}));
    report.sample(json!({"rule_chain_seed": CHAIN_SEEDS[2]}));
    report
}
