//! C15 — Requires resolve as documented and conversions keep the target (Engine C: every subset of the candidate
//! files x require strings x requiring files x require-mode configurations, against a reference resolver).
use crate::common::{guarded, Report, Tier, Violation};
use crate::luaref::interp::Interp;
use crate::luaref::value::Value;
use crate::luaref::{ast, parser, Mode};
use darklua_core::{Options, Resources};
use rayon::prelude::*;
use serde::{Deserialize, Serialize};
use serde_json::json;
use std::collections::{BTreeMap, BTreeSet};

// ------------------------------------------------------------------------------------------------ reference model

/// lexically normalised path
#[derive(Clone, Debug, PartialEq, Eq, Hash, PartialOrd, Ord)]
pub(crate) struct MPath {
    pub(crate) abs: bool,
    pub(crate) ups: usize,
    pub(crate) segs: Vec<String>,
}

impl MPath {
    pub(crate) fn cwd() -> MPath {
        MPath { abs: false, ups: 0, segs: vec![] }
    }
    pub(crate) fn parse(s: &str) -> MPath {
        let mut p = MPath { abs: s.starts_with('/'), ups: 0, segs: vec![] };
        p.push_str(s);
        p
    }
    fn push_str(&mut self, s: &str) {
        for c in s.split('/') {
            match c {
                "" | "." => {}
                ".." => {
                    if self.segs.pop().is_none() && !self.abs {
                        self.ups += 1;
                    }
                }
                name => self.segs.push(name.to_owned()),
            }
        }
    }
    pub(crate) fn join(&self, s: &str) -> MPath {
        if s.starts_with('/') {
            return MPath::parse(s);
        }
        let mut p = self.clone();
        p.push_str(s);
        p
    }
    pub(crate) fn parent(&self) -> MPath {
        self.join("..")
    }
    pub(crate) fn last(&self) -> Option<&str> {
        self.segs.last().map(|s| s.as_str())
    }
    fn with_last_suffix(&self, suffix: &str) -> MPath {
        let mut p = self.clone();
        let l = p.segs.pop().unwrap();
        p.segs.push(format!("{}{}", l, suffix));
        p
    }
    pub(crate) fn key(&self) -> String {
        let mut parts: Vec<String> = Vec::new();
        for _ in 0..self.ups {
            parts.push("..".to_owned());
        }
        parts.extend(self.segs.iter().cloned());
        let body = parts.join("/");
        if self.abs {
            format!("/{}", body)
        } else if body.is_empty() {
            ".".to_owned()
        } else {
            body
        }
    }
}

fn has_extension(name: &str) -> bool {
    match name.rfind('.') {
        Some(0) | None => false,
        Some(_) => true,
    }
}

pub(crate) fn extension(name: &str) -> Option<&str> {
    match name.rfind('.') {
        Some(0) | None => None,
        Some(i) => Some(&name[i + 1..]),
    }
}

#[derive(Clone, Debug, Serialize, Deserialize, PartialEq)]
pub enum ModeCfg {
    Path { mfn: String, sources: Vec<(String, String)> },
    Luau { aliases: Vec<(String, String)> },
}

impl ModeCfg {
    fn mfn(&self) -> &str {
        match self {
            ModeCfg::Path { mfn, .. } => mfn,
            ModeCfg::Luau { .. } => "init",
        }
    }
    pub(crate) fn to_json5(&self) -> String {
        match self {
            ModeCfg::Path { mfn, sources } => json!({"name": "path", "module_folder_name": mfn, "sources": sources.iter().cloned().collect::<BTreeMap<String, String>>()}).to_string(),
            ModeCfg::Luau { aliases } => json!({"name": "luau", "aliases": aliases.iter().cloned().collect::<BTreeMap<String, String>>()}).to_string(),
        }
    }
    pub(crate) fn label(&self) -> String {
        match self {
            ModeCfg::Path { mfn, .. } => format!("path({})", mfn),
            ModeCfg::Luau { .. } => "luau".to_owned(),
        }
    }
}

#[derive(Clone, Debug, Serialize, Deserialize)]
pub struct Env {
    pub(crate) mode: ModeCfg,
    /// directory of the darklua configuration file ("" or "cfg")
    pub(crate) config_dir: String,
    /// aliases of a `.luaurc` at the root
    pub(crate) luaurc: Vec<(String, String)>,
}

#[derive(Debug, Clone, PartialEq)]
pub(crate) enum Fail {
    UnknownSource(String),
    NotFound(Vec<String>),
    /// the documentation does not say what happens
    Unspecified(&'static str),
}

fn raw_components(req: &str) -> Vec<&str> {
    req.split('/').filter(|c| !c.is_empty()).collect()
}

fn is_module_folder_file(path: &str, mfn: &str) -> bool {
    let name = path.rsplit('/').next().unwrap_or("");
    let stem = match name.rfind('.') {
        Some(0) | None => name,
        Some(i) => &name[..i],
    };
    name == mfn || stem == mfn
}

/// where the search starts (documentation: "Path Resolution", first step)
fn head(env: &Env, req: &str, requiring: &str) -> Result<MPath, Fail> {
    let comps = raw_components(req);
    let first = match comps.first() {
        Some(f) => *f,
        None if req.starts_with('/') => return Ok(MPath::parse("/")),
        None => return Err(Fail::Unspecified("empty require")),
    };
    let requiring = MPath::parse(requiring);
    let dir = requiring.parent();
    if req.starts_with('/') {
        return Ok(MPath::parse(req));
    }
    if first == "." || first == ".." {
        let base = match &env.mode {
            ModeCfg::Luau { .. } if is_module_folder_file(&requiring.key(), "init") => dir.parent(),
            _ => dir,
        };
        return Ok(base.join(req));
    }
    let rest = comps[1..].join("/");
    let config_dir = MPath::parse(&env.config_dir);
    let luaurc = |name: &str| -> Option<MPath> {
        let n = name.strip_prefix('@')?;
        env.luaurc.iter().find(|(k, _)| k == n).map(|(_, v)| MPath::cwd().join(v))
    };
    match &env.mode {
        ModeCfg::Path { sources, .. } => {
            let base = sources.iter().find(|(k, _)| k == first).map(|(_, v)| config_dir.join(v)).or_else(|| luaurc(first));
            match base {
                Some(b) => Ok(b.join(&rest)),
                None => Err(Fail::UnknownSource(first.to_owned())),
            }
        }
        ModeCfg::Luau { aliases } => {
            if first == "@self" {
                if !is_module_folder_file(&requiring.key(), "init") {
                    return Err(Fail::Unspecified("@self from a file that is not a module-folder file"));
                }
                return Ok(dir.join(&rest));
            }
            let base = aliases.iter().find(|(k, _)| k == first).map(|(_, v)| config_dir.join(v)).or_else(|| luaurc(first));
            match base {
                Some(b) => Ok(b.join(&rest)),
                None if first.starts_with('@') => Err(Fail::UnknownSource(first.to_owned())),
                None => Err(Fail::Unspecified("a luau-mode require without prefix that names no alias")),
            }
        }
    }
}

/// the documented candidate order (documentation: "Path Resolution", second step)
fn candidates(p: &MPath, mfn: &str) -> Vec<MPath> {
    let mut v = vec![p.clone()];
    if let Some(name) = p.last() {
        if matches!(extension(name), Some("lua" | "luau")) {
            return v;
        }
        v.push(p.with_last_suffix(".luau"));
        v.push(p.with_last_suffix(".lua"));
    }
    let m = p.join(mfn);
    v.push(m.clone());
    if !has_extension(mfn) {
        v.push(m.with_last_suffix(".luau"));
        v.push(m.with_last_suffix(".lua"));
    }
    let mut seen = BTreeSet::new();
    v.retain(|c| seen.insert(c.clone()));
    v
}

pub(crate) fn resolve(env: &Env, req: &str, requiring: &str, files: &BTreeSet<String>) -> Result<String, Fail> {
    let h = head(env, req, requiring)?;
    let cands = candidates(&h, env.mode.mfn());
    for c in &cands {
        if files.contains(&c.key()) {
            return Ok(c.key());
        }
    }
    Err(Fail::NotFound(cands.iter().map(|c| c.key()).collect()))
}

#[derive(Clone, Copy, PartialEq, Debug)]
enum Loadable {
    Lua,
    Data,
    No,
}

fn loadable(path: &str) -> Loadable {
    let name = path.rsplit('/').next().unwrap_or("");
    match extension(name) {
        Some("lua" | "luau") => Loadable::Lua,
        Some("json" | "json5" | "yml" | "yaml" | "toml" | "txt") => Loadable::Data,
        _ => Loadable::No,
    }
}

fn marker_content(path: &str) -> String {
    let name = path.rsplit('/').next().unwrap_or("");
    match extension(name) {
        Some("json" | "json5") => format!("\"{}\"", path),
        Some("yml" | "yaml") => format!("\"{}\"\n", path),
        Some("toml") => format!("marker = \"{}\"\n", path),
        Some("txt") => path.to_owned(),
        _ => format!("return \"{}\"\n", path),
    }
}

// ------------------------------------------------------------------------------------------------ cases

#[derive(Clone, Debug, Serialize, Deserialize)]
pub struct Case {
    env: Env,
    /// how the requiring file is named on the command line (may start with `./`)
    requiring: String,
    require: String,
    files: Vec<String>,
    /// conversion targets to try when the require resolves
    targets: Vec<ModeCfg>,
}

#[derive(Debug, PartialEq)]
enum Outcome {
    Marker(String),
    Error(Vec<String>),
}

fn write_layout(case: &Case, env: &Env, requiring_text: &str, config: &str) -> Resources {
    let r = Resources::from_memory();
    for f in &case.files {
        let _ = r.write(f, &marker_content(f));
    }
    let _ = r.write(&case.requiring, requiring_text);
    let cfg_path = if env.config_dir.is_empty() { ".darklua.json".to_owned() } else { format!("{}/.darklua.json", env.config_dir) };
    let _ = r.write(&cfg_path, config);
    if !env.luaurc.is_empty() {
        let _ = r.write(".luaurc", &json!({"aliases": env.luaurc.iter().cloned().collect::<BTreeMap<String, String>>()}).to_string());
    }
    r
}

fn config_path(env: &Env) -> String {
    if env.config_dir.is_empty() {
        ".darklua.json".to_owned()
    } else {
        format!("{}/.darklua.json", env.config_dir)
    }
}

/// bundles the requiring file and runs the bundle
fn bundle_outcome(case: &Case, env: &Env, requiring_text: &str) -> Result<Outcome, String> {
    let config = format!("{{rules: [], bundle: {{require_mode: {}}}}}", env.mode.to_json5());
    let r = write_layout(case, env, requiring_text, &config);
    let options = Options::new(&case.requiring).with_output("out/bundle.lua").with_configuration_at(config_path(env));
    let res = r.clone();
    let tree = match guarded(move || darklua_core::process(&res, options)) {
        Err(p) => return Err(format!("PANIC while bundling: {}", p)),
        Ok(Err(e)) => return Ok(Outcome::Error(vec![e.to_string()])),
        Ok(Ok(t)) => t,
    };
    let errors: Vec<String> = tree.collect_errors().iter().map(|e| e.to_string()).collect();
    if !errors.is_empty() {
        return Ok(Outcome::Error(errors));
    }
    let text = r.get("out/bundle.lua").map_err(|e| format!("no bundle was written and no error reported: {:?}", e))?;
    let parsed = parser::parse(text.as_bytes(), Mode::Luau).map_err(|e| format!("the bundle does not parse: {}\n{}", e, text))?;
    let mut it = Interp::new(Mode::Luau);
    it.fuel = 100_000;
    match it.run_chunk(&parsed.block, "bundle") {
        Ok(vals) => match vals.first() {
            Some(Value::Str(s)) => Ok(Outcome::Marker(String::from_utf8_lossy(s).into_owned())),
            Some(Value::Table(t)) => match t.borrow().get_str("marker") {
                Value::Str(s) => Ok(Outcome::Marker(String::from_utf8_lossy(&s).into_owned())),
                _ => Err(format!("the bundle returns a table without marker\n{}", text)),
            },
            _ => Err(format!("the bundle does not return a marker (the require was left in place?)\n{}", text)),
        },
        Err(_) => Err(format!("the bundle raises an error\n{}", text)),
    }
}

/// runs convert_require on the requiring file and returns the new require argument
fn convert(case: &Case, target: &ModeCfg, requiring_text: &str) -> Result<(String, String), String> {
    let config = format!("{{rules: [{{rule: 'convert_require', current: {}, target: {}}}]}}", case.env.mode.to_json5(), target.to_json5());
    let r = write_layout(case, &case.env, requiring_text, &config);
    let options = Options::new(&case.requiring).with_output("out/converted.lua").with_configuration_at(config_path(&case.env));
    let res = r.clone();
    let tree = match guarded(move || darklua_core::process(&res, options)) {
        Err(p) => return Err(format!("PANIC in convert_require: {}", p)),
        Ok(Err(e)) => return Err(format!("convert_require failed: {}", e)),
        Ok(Ok(t)) => t,
    };
    let errors: Vec<String> = tree.collect_errors().iter().map(|e| e.to_string()).collect();
    if !errors.is_empty() {
        return Err(format!("convert_require reported errors: {:?}", errors));
    }
    let text = r.get("out/converted.lua").map_err(|e| format!("{:?}", e))?;
    let parsed = parser::parse(text.as_bytes(), Mode::Luau).map_err(|e| format!("the converted file does not parse: {}\n{}", e, text))?;
    // `return require("...")`
    if let Some(ast::Stat::Return(exprs)) = parsed.block.stats.first().map(|s| &s.stat) {
        if let Some(ast::Expr::Call(f, args, _)) = exprs.first() {
            if matches!(&**f, ast::Expr::Name(n, _) if n == "require") {
                if let Some(ast::Expr::Str(s)) = args.first() {
                    return Ok((String::from_utf8_lossy(s).into_owned(), text));
                }
            }
        }
    }
    Err(format!("the converted file is not `return require(<string>)`: {}", text))
}

fn describe(case: &Case) -> String {
    format!(
        "mode {} (config in {:?}, sources/aliases {:?}, .luaurc aliases {:?}); {} contains `return require({:?})`; files present: {:?}",
        case.env.mode.label(),
        case.env.config_dir,
        match &case.env.mode {
            ModeCfg::Path { sources, .. } => sources.clone(),
            ModeCfg::Luau { aliases } => aliases.clone(),
        },
        case.env.luaurc,
        case.requiring,
        case.require,
        case.files
    )
}

#[derive(Default)]
struct Tally {
    evaluations: u64,
    resolved: u64,
    not_found: u64,
    unknown_source: u64,
    unspecified: u64,
    not_first: u64,
    conversions: u64,
    conversions_changed: u64,
}

pub fn eval_case(case: &Case, tally: &mut Tally) -> Vec<Violation> {
    let mut out = Vec::new();
    let requiring_norm = MPath::parse(&case.requiring).key();
    // the requiring file exists too
    let mut files: BTreeSet<String> = case.files.iter().cloned().collect();
    files.insert(requiring_norm.clone());
    let text = format!("return require(\"{}\")\n", case.require);
    let expected = resolve(&case.env, &case.require, &requiring_norm, &files);
    let mut fail = |what: String, kind: &str| {
        out.push(Violation {
            finding: None,
            summary: format!("{}\n--- {}", what, describe(case)),
            replay: json!({"kind": kind, "case": serde_json::to_value(case).unwrap_or_default()}),
        });
    };
    tally.evaluations += 1;
    let got = bundle_outcome(case, &case.env, &text);
    match (&expected, &got) {
        (_, Err(e)) if e.starts_with("PANIC") => fail(e.clone(), "resolve"),
        (Err(Fail::Unspecified(_)), _) => tally.unspecified += 1,
        (Ok(f), Ok(Outcome::Marker(m))) => {
            tally.resolved += 1;
            if *f == requiring_norm {
                fail(format!("the require resolves to the requiring file itself, but the bundle returned the marker of {}", m), "resolve");
            } else if loadable(f) == Loadable::No {
                fail(format!("the documented resolution finds {} which is neither Lua nor a data file, but the bundle returned the marker of {}", f, m), "resolve");
            } else if f != m {
                fail(format!("the documented order resolves the require to {} but the bundle contains {}", f, m), "resolve");
            }
        }
        (Ok(f), Ok(Outcome::Error(errors))) => {
            tally.resolved += 1;
            if *f == requiring_norm {
                // a file requiring itself: a cycle, reported as an error
            } else if loadable(f) != Loadable::No {
                fail(format!("the documented order resolves the require to {} but bundling failed: {:?}", f, errors), "resolve");
            } else if !errors.iter().any(|e| e.contains(f.as_str()) || e.contains(&case.requiring) || e.contains(&requiring_norm)) {
                fail(format!("the error for the unloadable file {} names neither it nor the requiring file: {:?}", f, errors), "resolve");
            }
        }
        (Ok(f), Err(e)) => {
            tally.resolved += 1;
            fail(format!("the documented order resolves the require to {} but: {}", f, e), "resolve");
        }
        (Err(Fail::NotFound(tried)), Ok(Outcome::Marker(m))) => {
            tally.not_found += 1;
            fail(format!("none of the documented candidates {:?} exists, but the bundle contains {}", tried, m), "resolve");
        }
        (Err(Fail::UnknownSource(s)), Ok(Outcome::Marker(m))) => {
            tally.unknown_source += 1;
            fail(format!("`{}` is not a configured source/alias, but the bundle contains {}", s, m), "resolve");
        }
        (Err(Fail::NotFound(_)), Ok(Outcome::Error(_))) => tally.not_found += 1,
        (Err(Fail::UnknownSource(_)), Ok(Outcome::Error(_))) => tally.unknown_source += 1,
        (Err(_), Err(e)) => fail(format!("the require cannot be resolved and no error was reported: {}", e), "resolve"),
    }
    if let Ok(f) = &expected {
        if files.iter().next() != Some(f) {
            tally.not_first += 1;
        }
    }
    // conversions keep the target
    if let (Ok(f), Ok(Outcome::Marker(_))) = (&expected, &got) {
        if loadable(f) == Loadable::Lua && *f != requiring_norm {
            for target in &case.targets {
                tally.conversions += 1;
                let target_env = Env { mode: target.clone(), config_dir: case.env.config_dir.clone(), luaurc: case.env.luaurc.clone() };
                match convert(case, target, &text) {
                    Err(e) => fail(format!("{} (target mode {})", e, target.label()), "convert"),
                    Ok((new_require, converted_text)) => {
                        // a file outside the working directory (or named absolutely): the relative path from it back into the
                        // working directory needs the directory's own name, which lexical paths do not have. Leaving the
                        // require as it was (darklua warns) is the refusal; a rewritten require is judged like any other
                        let outside = case.requiring.starts_with("..") || case.requiring.starts_with('/');
                        if outside && new_require == case.require {
                            continue;
                        }
                        if new_require != case.require {
                            tally.conversions_changed += 1;
                        }
                        let model = resolve(&target_env, &new_require, &requiring_norm, &files);
                        let dl = bundle_outcome(case, &target_env, &converted_text);
                        let model_ok = matches!(&model, Ok(g) if g == f) || matches!(&model, Err(Fail::Unspecified(_)));
                        let dl_ok = matches!(&dl, Ok(Outcome::Marker(m)) if m == f);
                        if !model_ok || !dl_ok {
                            fail(
                                format!(
                                    "convert_require to {} (sources/aliases {:?}) rewrote require({:?}) which resolves to {} into require({:?}) which resolves under the target mode to {:?} by the documented order and to {:?} when bundled",
                                    target.label(),
                                    match target {
                                        ModeCfg::Path { sources, .. } => sources.clone(),
                                        ModeCfg::Luau { aliases } => aliases.clone(),
                                    },
                                    case.require,
                                    f,
                                    new_require,
                                    model,
                                    dl
                                ),
                                "convert",
                            );
                        }
                    }
                }
            }
        }
    }
    out
}


// ------------------------------------------------------------------------------------------------ nested .luaurc files

/// Several requiring files of one run, each below a different set of `.luaurc` files: "darklua will attempt to find the
/// nearest `.luaurc` configuration file to each file it processes" (documentation of both require modes). The answer for
/// one file must not depend on which other files were processed before it in the same run.
#[derive(Clone, Debug, Serialize, Deserialize)]
pub struct NestedCase {
    /// "path" or "luau"
    mode: String,
    /// per directory of NESTED_DIRS: 0 = no `.luaurc`, 1 = one defining `lib`, 2 = one defining only `other`
    rc: Vec<u8>,
    /// the sources in the order they are given to the run
    order: Vec<String>,
    /// bundle in place, or convert_require to the path mode without sources
    convert: bool,
}

const NESTED_DIRS: &[(&str, &str)] = &[("", "rootlib"), ("src", "srclib"), ("src/sub", "sublib")];
const NESTED_FILES: &[&str] = &["src/a.luau", "src/sub/b.luau", "src/sub/deep/c.luau"];

fn join_dir(dir: &str, name: &str) -> String {
    if dir.is_empty() {
        name.to_owned()
    } else {
        format!("{}/{}", dir, name)
    }
}

fn nested_expected(case: &NestedCase, file: &str) -> Result<String, ()> {
    // nearest: the deepest directory of NESTED_DIRS that is an ancestor of the file and holds a `.luaurc`
    let mut nearest: Option<usize> = None;
    for (i, (dir, _)) in NESTED_DIRS.iter().enumerate() {
        let is_ancestor = dir.is_empty() || file.starts_with(&format!("{}/", dir));
        if is_ancestor && case.rc[i] != 0 {
            nearest = Some(i);
        }
    }
    match nearest {
        Some(i) if case.rc[i] == 1 => Ok(format!("{}/x.luau", join_dir(NESTED_DIRS[i].0, NESTED_DIRS[i].1))),
        _ => Err(()),
    }
}

pub fn eval_nested(case: &NestedCase) -> Vec<Violation> {
    let mut out = Vec::new();
    let mut fail = |what: String| {
        out.push(Violation {
            finding: None,
            summary: format!(
                "{}\n--- nested .luaurc files: {} mode, {}; .luaurc files {:?} (each aliases `lib` to a folder next to it, or only `other`); sources given in the order {:?}; every file is `return require(\"@lib/x\")`",
                what,
                case.mode,
                if case.convert { "convert_require to the path mode" } else { "bundled in place" },
                NESTED_DIRS.iter().zip(&case.rc).filter(|(_, rc)| **rc != 0).map(|((d, l), rc)| format!("{} -> {}", join_dir(d, ".luaurc"), if *rc == 1 { format!("lib: {}", l) } else { "other only".to_owned() })).collect::<Vec<_>>(),
                case.order
            ),
            replay: json!({"kind": "nested", "case": serde_json::to_value(case).unwrap_or_default()}),
        });
    };
    let r = Resources::from_memory();
    let mut files: BTreeSet<String> = BTreeSet::new();
    for (i, (dir, lib)) in NESTED_DIRS.iter().enumerate() {
        let x = format!("{}/x.luau", join_dir(dir, lib));
        let _ = r.write(&x, &marker_content(&x));
        files.insert(x);
        let o = format!("{}/x.luau", join_dir(dir, "otherlib"));
        let _ = r.write(&o, &marker_content(&o));
        files.insert(o);
        match case.rc[i] {
            1 => {
                let _ = r.write(&join_dir(dir, ".luaurc"), &json!({"aliases": {"lib": lib, "other": "otherlib"}}).to_string());
            }
            2 => {
                let _ = r.write(&join_dir(dir, ".luaurc"), &json!({"aliases": {"other": "otherlib"}}).to_string());
            }
            _ => {}
        }
    }
    for f in NESTED_FILES {
        let _ = r.write(f, "return require(\"@lib/x\")\n");
        files.insert((*f).to_owned());
    }
    let config = if case.convert {
        format!("{{rules: [{{rule: 'convert_require', current: {{name: '{}'}}, target: {{name: 'path'}}}}]}}", case.mode)
    } else {
        format!("{{rules: [], bundle: {{require_mode: {{name: '{}'}}}}}}", case.mode)
    };
    let _ = r.write(".darklua.json", &config);
    let res = r.clone();
    let order = case.order.clone();
    let run = guarded(move || {
        let mut tree = darklua_core::WorkerTree::default();
        for f in &order {
            tree.add_source(f, None);
        }
        let result = tree.process(&res, Options::new("src"));
        let errors: Vec<String> = tree.collect_errors().iter().map(|e| e.to_string()).collect();
        (result.map_err(|e| e.to_string()), errors)
    });
    let errors = match run {
        Err(p) => {
            fail(format!("PANIC: {}", p));
            return out;
        }
        Ok((Err(e), _)) => vec![e],
        Ok((Ok(()), errors)) => errors,
    };
    for f in NESTED_FILES {
        let expected = nested_expected(case, f);
        let text = r.get(f).unwrap_or_default();
        let untouched = text == "return require(\"@lib/x\")\n";
        let named_in_error = errors.iter().any(|e| e.contains(f));
        match expected {
            Err(()) => {
                // no `lib` alias for this file: an error naming it (convert_require may instead leave the require and warn)
                if !(named_in_error || (case.convert && untouched)) {
                    fail(format!("the nearest .luaurc of {} defines no alias `lib`, but the file was processed without an error naming it; it now reads:\n{}", f, text));
                }
            }
            Ok(target) => {
                if named_in_error {
                    fail(format!("the nearest .luaurc of {} aliases `lib` so that the require names {}, but the run reported {:?}", f, target, errors));
                    continue;
                }
                if case.convert {
                    let parsed = match parser::parse(text.as_bytes(), Mode::Luau) {
                        Ok(p) => p,
                        Err(e) => {
                            fail(format!("the converted {} does not parse: {}\n{}", f, e, text));
                            continue;
                        }
                    };
                    let mut new_require = None;
                    if let Some(ast::Stat::Return(exprs)) = parsed.block.stats.first().map(|s| &s.stat) {
                        if let Some(ast::Expr::Call(_, args, _)) = exprs.first() {
                            if let Some(ast::Expr::Str(s)) = args.first() {
                                new_require = Some(String::from_utf8_lossy(s).into_owned());
                            }
                        }
                    }
                    let env = Env { mode: ModeCfg::Path { mfn: "init".to_owned(), sources: vec![] }, config_dir: String::new(), luaurc: vec![] };
                    match new_require {
                        None => fail(format!("the converted {} is not `return require(<string>)`:\n{}", f, text)),
                        Some(req) => {
                            let got = resolve(&env, &req, f, &files);
                            if got.as_deref().ok() != Some(target.as_str()) {
                                fail(format!("the nearest .luaurc of {} makes the require name {}, but convert_require wrote require({:?}) which names {:?}", f, target, req, got));
                            }
                        }
                    }
                } else {
                    let marker = parser::parse(text.as_bytes(), Mode::Luau).ok().and_then(|parsed| {
                        let mut it = Interp::new(Mode::Luau);
                        it.fuel = 100_000;
                        match it.run_chunk(&parsed.block, "bundle").ok()?.first() {
                            Some(Value::Str(s)) => Some(String::from_utf8_lossy(s).into_owned()),
                            _ => None,
                        }
                    });
                    if marker.as_deref() != Some(target.as_str()) {
                        fail(format!("the nearest .luaurc of {} makes the require name {}, but the bundled file returns {:?}:\n{}", f, target, marker, text));
                    }
                }
            }
        }
    }
    out
}

fn nested_cases() -> Vec<NestedCase> {
    let mut out = Vec::new();
    let perms: [[usize; 3]; 6] = [[0, 1, 2], [0, 2, 1], [1, 0, 2], [1, 2, 0], [2, 0, 1], [2, 1, 0]];
    for mode in ["path", "luau"] {
        for convert in [false, true] {
            for code in 0..27u32 {
                let rc = vec![(code % 3) as u8, (code / 3 % 3) as u8, (code / 9) as u8];
                for p in &perms {
                    out.push(NestedCase { mode: mode.to_owned(), rc: rc.clone(), order: p.iter().map(|i| NESTED_FILES[*i].to_owned()).collect(), convert });
                }
            }
        }
    }
    out
}

// ------------------------------------------------------------------------------------------------ enumeration

fn envs(tier: Tier) -> Vec<Env> {
    let mut v = Vec::new();
    for config_dir in ["", "cfg"] {
        let up = if config_dir.is_empty() { "." } else { ".." };
        let path_sources = vec![
            ("pkg".to_owned(), format!("{}/src", up)),
            ("@at".to_owned(), format!("{}/src/", up)),
            ("file".to_owned(), format!("{}/src/example.lua", up)),
            ("stem".to_owned(), format!("{}/src/sub/../example", up)),
        ];
        let luau_aliases = vec![
            ("@pkg".to_owned(), format!("{}/src", up)),
            ("plain".to_owned(), format!("{}/src", up)),
            ("@file".to_owned(), format!("{}/src/example.lua", up)),
            ("@stem".to_owned(), format!("{}/src/example", up)),
        ];
        let mut mfns = vec!["init", "index", "init.lua"];
        if tier == Tier::Thorough {
            mfns.push("mod.luau");
            mfns.push("_");
        }
        for mfn in mfns {
            v.push(Env { mode: ModeCfg::Path { mfn: mfn.to_owned(), sources: path_sources.clone() }, config_dir: config_dir.to_owned(), luaurc: vec![("rc".to_owned(), "src".to_owned())] });
        }
        v.push(Env { mode: ModeCfg::Luau { aliases: luau_aliases.clone() }, config_dir: config_dir.to_owned(), luaurc: vec![("rc".to_owned(), "src".to_owned())] });
    }
    v
}

const RELATIVE_REQUIRES: &[&str] = &[
    "./example",
    "./example.lua",
    "./example.luau",
    "./example.data",
    "./example.json",
    "./example/init",
    "./example/init.lua",
    "./example/index",
    "../example",
    "../src/example",
    "./sub/../example",
    "././example",
    "./example/",
    ".//example",
    ".",
    "..",
    "./",
    "./sub",
    "../..",
    "./example/..",
    // a folder below the requiring file named like the folder a source/alias points to
    "./src/example",
    // a sibling folder whose name starts with the name of the folder a source/alias points to
    "../src2/example",
    "./src2/example",
];

fn source_requires(mode: &ModeCfg) -> Vec<&'static str> {
    match mode {
        ModeCfg::Path { .. } => vec!["pkg/example", "@at/example", "file", "stem", "pkg", "pkg/sub/../example", "pkg/./example", "@rc/example", "unknown/example", "example", "/abs/example", "/abs/example.lua"],
        ModeCfg::Luau { .. } => vec!["@pkg/example", "plain/example", "@file", "@stem", "@pkg", "@pkg/sub/../example", "@rc/example", "@unknown/example", "@self/example", "@self", "@self/sub/../example", "/abs/example"],
    }
}

const REQUIRING_FILES: &[&str] = &["src/main.lua", "src/init.lua", "src/sub/init.luau", "src/index.lua", "./src/main.lua", "main.luau", "init.luau", "../init.luau", "../up.luau", "/abs/src/main.lua"];

fn conversion_targets(env: &Env) -> Vec<ModeCfg> {
    let luau_plain = ModeCfg::Luau { aliases: vec![] };
    let luau_alias = ModeCfg::Luau { aliases: vec![("@s".to_owned(), if env.config_dir.is_empty() { "src".to_owned() } else { "../src".to_owned() })] };
    let path = |mfn: &str, with_source: bool| ModeCfg::Path {
        mfn: mfn.to_owned(),
        sources: if with_source { vec![("s".to_owned(), if env.config_dir.is_empty() { "./src".to_owned() } else { "../src".to_owned() })] } else { vec![] },
    };
    match &env.mode {
        ModeCfg::Path { mfn, .. } => {
            let other = if mfn == "init" { "index" } else { "init" };
            vec![luau_plain, luau_alias, path(other, false), path(mfn, true)]
        }
        ModeCfg::Luau { .. } => vec![path("init", false), path("index", false), path("init", true), luau_alias],
    }
}

fn cases(tier: Tier) -> Vec<Case> {
    let mut out = Vec::new();
    for env in envs(tier) {
        let mut requires: Vec<&str> = RELATIVE_REQUIRES.to_vec();
        requires.extend(source_requires(&env.mode));
        let targets = conversion_targets(&env);
        for requiring in REQUIRING_FILES {
            let requiring_norm = MPath::parse(requiring).key();
            for req in &requires {
                // source-independent requires do not need the second configuration location
                let uses_sources = !(req.starts_with('.') || req.starts_with('/'));
                if !env.config_dir.is_empty() && !uses_sources && tier == Tier::Quick {
                    continue;
                }
                // a `.luaurc` is looked up in the ancestors of the requiring file as it is spelled: the one of the working directory
                // is not an ancestor of a file named by an absolute path (not specified, not judged)
                if requiring.starts_with('/') && (req.starts_with("@rc") || req.starts_with("rc/")) {
                    continue;
                }
                let h = match head(&env, req, &requiring_norm) {
                    Ok(h) => h,
                    Err(Fail::Unspecified(_)) => continue,
                    Err(_) => {
                        out.push(Case { env: env.clone(), requiring: requiring.to_string(), require: req.to_string(), files: vec!["src/example.lua".to_owned()], targets: vec![] });
                        continue;
                    }
                };
                // the candidate files of the require, and of the same require spelled without extension / module-folder file
                let mut universe: Vec<String> = candidates(&h, env.mode.mfn()).iter().map(|c| c.key()).collect();
                if let Some(name) = h.last() {
                    let stem = match extension(name) {
                        Some("lua" | "luau") => name[..name.rfind('.').unwrap()].to_owned(),
                        _ => name.to_owned(),
                    };
                    let mfn_stem = env.mode.mfn().split('.').next().unwrap_or("");
                    let base = if stem == mfn_stem || name == env.mode.mfn() { h.parent() } else { h.parent().join(&stem) };
                    if base != h {
                        for c in candidates(&base, env.mode.mfn()) {
                            if !universe.contains(&c.key()) {
                                universe.push(c.key());
                            }
                        }
                    }
                }
                universe.retain(|k| k != "." && k != &requiring_norm && !k.ends_with("/.darklua.json"));
                // decoys: what other readings of the rules would look for
                let mut decoys: BTreeSet<String> = BTreeSet::new();
                let mut alt_heads = vec![MPath::parse(&requiring_norm).parent().join(req), MPath::parse(&requiring_norm).parent().parent().join(req), MPath::cwd().join(req)];
                if uses_sources {
                    let comps = raw_components(req);
                    let rest = comps[1..].join("/");
                    alt_heads.push(MPath::cwd().join("src").join(&rest));
                    alt_heads.push(MPath::parse(&env.config_dir).join("src").join(&rest));
                    alt_heads.push(MPath::parse(&requiring_norm).parent().join(&rest));
                }
                for alt in alt_heads.iter().chain(std::iter::once(&h)) {
                    for mfn in ["init", "index", env.mode.mfn()] {
                        for c in candidates(alt, mfn) {
                            let k = c.key();
                            if !universe.contains(&k) && k != "." && k != requiring_norm && !k.starts_with("out/") {
                                decoys.insert(k);
                            }
                        }
                    }
                }
                let dir_decoys: Vec<String> = universe.iter().map(|u| format!("{}/zz.lua", u)).filter(|d| !universe.contains(d)).collect();
                let n = universe.len();
                let variants: &[(bool, bool)] = if tier == Tier::Quick { &[(false, false), (true, true)] } else { &[(false, false), (true, false), (false, true), (true, true)] };
                for mask in 0u32..(1 << n) {
                    for (with_decoys, with_dirs) in variants {
                        let mut files: Vec<String> = (0..n).filter(|i| mask & (1 << i) != 0).map(|i| universe[i].clone()).collect();
                        if *with_decoys {
                            files.extend(decoys.iter().cloned());
                        }
                        if *with_dirs {
                            files.extend(dir_decoys.iter().cloned());
                        }
                        files.sort();
                        files.dedup();
                        // a file outside the working directory: the relative path back into it needs the name of the directory,
                        // which lexical paths do not have, so only the resolution is judged there
                        let targets = targets.clone();
                        out.push(Case { env: env.clone(), requiring: requiring.to_string(), require: req.to_string(), files, targets });
                    }
                }
            }
        }
    }
    out
}

pub fn run(tier: Tier) -> Report {
    let mut report = Report::new("C15", "exploration", tier);
    report.rule = "for every require-mode configuration (path with module_folder_name init / index / init.lua [thorough: mod.luau, _], luau; configuration file at the root or in cfg/; \
        sources/aliases to a directory, to a file, to a stem; a root .luaurc alias) x requiring file {src/main.lua, src/init.lua, src/sub/init.luau, src/index.lua, ./src/main.lua, main.luau, init.luau, ../init.luau, ../up.luau} x \
        require string (20 relative spellings with redundant ./.. segments, extensions, trailing slashes; source/alias-prefixed, unknown, @self, absolute): EVERY subset of the documented candidate \
        files is created (each file returns its own path), with and without decoy files at the places other readings of the rules would look and with and without directories named like the \
        candidates; the requiring file is bundled and the bundle executed by the reference interpreter: it must return the marker of the first existing candidate in the documented order, or \
        bundling must report an error when none exists / the source is unknown / the file found is neither Lua nor data. For every resolved case convert_require to 4 target modes is run and the \
        rewritten require must resolve (by the reference resolver and by bundling under the target mode) to the same file. Nested .luaurc files: 3 requiring files at 3 depths x every assignment of \
        {none, aliases `lib`, aliases only `other`} to the .luaurc of the 3 directories x the 6 orders in which the sources are given to ONE run x {path, luau} x {bundled in place, convert_require}: each \
        file must get the `lib` of its nearest .luaurc (or an error naming it when that one has no `lib`), whatever was processed before it. non-trivial = cases where the resolved file is not the first file in sorted order"
        .to_owned();
    report.assumptions = vec![
        "files are in-memory resources (a path may be a file and a directory prefix at once, which a real file system cannot hold); path handling is lexical".to_owned(),
        "a require whose string already ends in .lua/.luau is only looked up as given (documentation lists the candidates for an extensionless example only)".to_owned(),
        "a requiring file outside the working directory (../init.luau, ../up.luau) or named by an absolute path (/abs/src/main.lua): the relative path from it back into the working directory needs the directory's name, which lexical in-memory paths do not have, so convert_require may leave such a require unchanged (it warns); a require it does rewrite is judged like any other".to_owned(),
        "a `..` segment directly after a source/alias name (leaving the aliased directory) is not a redundant segment and is not judged".to_owned(),
        "precedence between darklua sources/aliases and .luaurc aliases of the same name, and `@self` from a file that is not a module-folder file are not specified and not judged".to_owned(),
        "the roblox require mode needs a Rojo sourcemap and is outside this property's statement".to_owned(),
    ];
    let all = cases(tier);
    report.set("cases", all.len() as u64);
    let results: Vec<(Tally, Vec<Violation>)> = all
        .par_iter()
        .map(|c| {
            let mut t = Tally::default();
            let v = eval_case(c, &mut t);
            (t, v)
        })
        .collect();
    let mut total = Tally::default();
    for (t, v) in results {
        total.evaluations += t.evaluations + t.conversions * 2;
        total.resolved += t.resolved;
        total.not_found += t.not_found;
        total.unknown_source += t.unknown_source;
        total.unspecified += t.unspecified;
        total.not_first += t.not_first;
        total.conversions += t.conversions;
        total.conversions_changed += t.conversions_changed;
        report.violations.extend(v);
    }
    let nested = nested_cases();
    let nested_violations: Vec<Vec<Violation>> = nested.par_iter().map(eval_nested).collect();
    report.set("nested_luaurc_runs", nested.len() as u64);
    total.evaluations += (nested.len() * NESTED_FILES.len()) as u64;
    total.not_first += nested.iter().filter(|c| c.rc.iter().filter(|x| **x != 0).count() > 1).count() as u64;
    for v in nested_violations {
        report.violations.extend(v);
    }
    report.evaluations = total.evaluations;
    report.distinct_nontrivial = total.not_first;
    report.set("resolved", total.resolved);
    report.set("not_found", total.not_found);
    report.set("unknown_source", total.unknown_source);
    report.set("unspecified_skipped", total.unspecified);
    report.set("conversions", total.conversions);
    report.set("conversions_that_changed_the_string", total.conversions_changed);
    report.sample(json!({"mode": "path(init)", "requiring": "src/main.lua", "require": "./example", "files": ["src/example.lua", "src/example/init.luau"], "expected": "src/example.lua"}));
    report
}

pub fn replay(v: &serde_json::Value) -> i32 {
    if v["kind"] == "nested" {
        let case: NestedCase = match serde_json::from_value(v["case"].clone()) {
            Ok(c) => c,
            Err(e) => {
                println!("cannot read the case: {}", e);
                return 2;
            }
        };
        let violations = eval_nested(&case);
        for v in &violations {
            println!("{}", v.summary);
        }
        return if violations.is_empty() {
            println!("the case passes");
            0
        } else {
            1
        };
    }
    let case: Case = match serde_json::from_value(v["case"].clone()) {
        Ok(c) => c,
        Err(e) => {
            println!("cannot read the case: {}", e);
            return 2;
        }
    };
    let mut t = Tally::default();
    let violations = eval_case(&case, &mut t);
    for v in &violations {
        println!("{}", v.summary);
    }
    if violations.is_empty() {
        println!("the case passes");
        0
    } else {
        1
    }
}
