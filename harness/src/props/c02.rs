//! C02 — Dense and readable generators emit code that means the same tree (Engine C, twin-built trees).
use crate::common::{Report, Tier, Violation};
use crate::dl::{self, Gen};
use crate::gen::trees::*;
use crate::luaref::ast::{BinOp, UnOp};
use crate::luaref::{parser, Mode};
use rayon::prelude::*;
use serde_json::json;

const BINOPS: &[BinOp] = &[
    BinOp::Add, BinOp::Sub, BinOp::Mul, BinOp::Div, BinOp::IDiv, BinOp::Mod, BinOp::Pow, BinOp::Concat, BinOp::Eq, BinOp::Ne, BinOp::Lt, BinOp::Le,
    BinOp::Gt, BinOp::Ge, BinOp::And, BinOp::Or,
];
const UNOPS: &[UnOp] = &[UnOp::Not, UnOp::Neg, UnOp::Len];

fn id(n: &'static str) -> E {
    E::Id(n)
}
fn b(op: BinOp, x: E, y: E) -> E {
    E::Bin(op, Box::new(x), Box::new(y))
}
fn u(op: UnOp, x: E) -> E {
    E::Un(op, Box::new(x))
}
fn call(f: E, args: Vec<E>) -> E {
    E::Call(Box::new(f), Args::Tuple(args))
}
fn ret(e: E) -> Vec<S> {
    vec![S::Return(vec![e])]
}

fn long_string() -> Vec<u8> {
    // long enough and with enough line breaks for the long-bracket form
    b"line one\nline two\nline three\nline four\nline five\nline six\nline seven and some more text to be long".to_vec()
}

fn fusion_leaves(thorough: bool) -> Vec<E> {
    let mut v = vec![
        E::Num(1.0),
        E::Num(1.5),
        E::Num(0.5),
        E::Num(1e5),
        E::Num(1e100),
        E::Num(0.0),
        E::Num(f64::NAN),
        E::Num(f64::INFINITY),
        E::Num(f64::NEG_INFINITY),
        id("a"),
        id("_"),
        id("e1"),
        E::Vararg,
        E::Str(b"s".to_vec()),
        E::Str(b"".to_vec()),
        E::Str(long_string()),
        E::Str(b"a long text with a carriage return in it,\r\nlong enough to be written in brackets, and then some more".to_vec()),
        E::Table(vec![]),
        E::Table(vec![Item::Pos(E::Num(1.0))]),
        E::Func(vec![], false, vec![]),
        E::Paren(Box::new(id("a"))),
        E::Paren(Box::new(call(id("f"), vec![]))),
        call(id("f"), vec![]),
        E::Call(Box::new(id("f")), Args::Str(b"s".to_vec())),
        E::Call(Box::new(id("f")), Args::Str(long_string())),
        E::Call(Box::new(id("f")), Args::Table(vec![])),
        E::Method(Box::new(id("o")), "m", Args::Tuple(vec![])),
        E::MethodInst(Box::new(id("o")), "m", vec![Ty::Name("T")], Args::Tuple(vec![id("a")])),
        E::MethodInst(Box::new(id("o")), "m", vec![Ty::Name("T"), Ty::Array(Box::new(Ty::Name("U")))], Args::Str(b"s".to_vec())),
        E::MethodInst(Box::new(call(id("f"), vec![])), "m", vec![], Args::Table(vec![])),
        E::Call(Box::new(E::Inst(Box::new(id("f")), vec![Ty::Name("number")])), Args::Tuple(vec![])),
        E::Call(Box::new(E::Inst(Box::new(E::Field(Box::new(id("a")), "b")), vec![Ty::Name("T"), Ty::Name("U")])), Args::Tuple(vec![id("a")])),
        E::Field(Box::new(id("a")), "b"),
        E::Index(Box::new(id("a")), Box::new(E::Num(1.0))),
        E::Index(Box::new(id("a")), Box::new(E::Str(long_string()))),
        E::Nil,
        E::True,
        E::Interp(vec![IPart::Str(b"x".to_vec()), IPart::Val(id("a"))]),
        E::If(Box::new(id("c")), Box::new(E::Num(1.0)), vec![], Box::new(E::Num(2.0))),
        E::Cast(Box::new(id("a")), Box::new(Ty::Name("T"))),
        u(UnOp::Neg, id("a")),
        u(UnOp::Neg, E::Num(1.0)),
        u(UnOp::Not, id("a")),
        u(UnOp::Len, id("a")),
    ];
    if thorough {
        v.push(E::Num(-1.0));
        v.push(E::Num(-0.0));
        v.push(E::Num(1e-7));
        v.push(E::Num(123456789012345680.0));
    }
    v
}

pub fn expression_trees(tier: Tier) -> Vec<(String, Vec<S>)> {
    // the whole space costs about a second: both tiers enumerate triples and the full fusion set
    let th = true;
    let _ = tier;
    let mut out: Vec<(String, Vec<S>)> = Vec::new();
    let (a, bb, c, d) = (id("a"), id("b"), id("c"), id("d"));
    // (a) operator pairs in both nestings
    for o1 in BINOPS {
        for o2 in BINOPS {
            out.push(("pair-left".into(), ret(b(*o1, b(*o2, a.clone(), bb.clone()), c.clone()))));
            out.push(("pair-right".into(), ret(b(*o1, a.clone(), b(*o2, bb.clone(), c.clone())))));
            if th {
                for o3 in BINOPS {
                    out.push(("triple".into(), ret(b(*o1, b(*o2, b(*o3, a.clone(), bb.clone()), c.clone()), d.clone()))));
                    out.push(("triple".into(), ret(b(*o1, b(*o2, a.clone(), b(*o3, bb.clone(), c.clone())), d.clone()))));
                    out.push(("triple".into(), ret(b(*o1, b(*o2, a.clone(), bb.clone()), b(*o3, c.clone(), d.clone())))));
                    out.push(("triple".into(), ret(b(*o1, a.clone(), b(*o2, b(*o3, bb.clone(), c.clone()), d.clone())))));
                    out.push(("triple".into(), ret(b(*o1, a.clone(), b(*o2, bb.clone(), b(*o3, c.clone(), d.clone()))))));
                }
            }
        }
    }
    // unary chains above and below every binary operator
    for op in BINOPS {
        for u1 in UNOPS {
            out.push(("unary-over-binary".into(), ret(u(*u1, b(*op, a.clone(), bb.clone())))));
            out.push(("unary-left".into(), ret(b(*op, u(*u1, a.clone()), bb.clone()))));
            out.push(("unary-right".into(), ret(b(*op, a.clone(), u(*u1, bb.clone())))));
            for u2 in UNOPS {
                out.push(("unary2-left".into(), ret(b(*op, u(*u1, u(*u2, a.clone())), bb.clone()))));
                out.push(("unary2-right".into(), ret(b(*op, a.clone(), u(*u1, u(*u2, bb.clone()))))));
                out.push(("unary2-over".into(), ret(u(*u1, u(*u2, b(*op, a.clone(), bb.clone()))))));
                for u3 in UNOPS {
                    out.push(("unary3".into(), ret(u(*u1, u(*u2, u(*u3, a.clone()))))));
                    out.push(("unary3-num".into(), ret(u(*u1, u(*u2, u(*u3, E::Num(1.0)))))));
                }
            }
        }
        // if-expressions and casts as operands
        let ife = E::If(Box::new(c.clone()), Box::new(a.clone()), vec![(d.clone(), bb.clone())], Box::new(E::Num(1.0)));
        let cast = E::Cast(Box::new(a.clone()), Box::new(Ty::Name("T")));
        out.push(("if-left".into(), ret(b(*op, ife.clone(), bb.clone()))));
        out.push(("if-right".into(), ret(b(*op, a.clone(), ife.clone()))));
        out.push(("cast-left".into(), ret(b(*op, cast.clone(), bb.clone()))));
        out.push(("cast-right".into(), ret(b(*op, a.clone(), cast.clone()))));
        out.push(("cast-of-binary".into(), ret(E::Cast(Box::new(b(*op, a.clone(), bb.clone())), Box::new(Ty::Name("T"))))));
        out.push(("if-branches".into(), ret(E::If(Box::new(b(*op, a.clone(), bb.clone())), Box::new(b(*op, a.clone(), bb.clone())), vec![], Box::new(b(*op, a.clone(), bb.clone()))))));
    }
    for u1 in UNOPS {
        out.push(("unary-cast".into(), ret(u(*u1, E::Cast(Box::new(a.clone()), Box::new(Ty::Name("T")))))));
        out.push(("cast-unary".into(), ret(E::Cast(Box::new(u(*u1, a.clone())), Box::new(Ty::Name("T"))))));
        out.push(("unary-if".into(), ret(u(*u1, E::If(Box::new(c.clone()), Box::new(a.clone()), vec![], Box::new(bb.clone()))))));
    }
    // (b) fusion set: every leaf on both sides of every operator, after unary operators, as prefixes and arguments
    let leaves = fusion_leaves(th);
    let fusion_ops: &[BinOp] = if th { BINOPS } else { &[BinOp::Concat, BinOp::Sub, BinOp::IDiv, BinOp::Lt, BinOp::Gt, BinOp::Eq, BinOp::Le, BinOp::Div, BinOp::And, BinOp::Pow] };
    for x in &leaves {
        for y in &leaves {
            for op in fusion_ops {
                out.push(("fusion-binary".into(), ret(b(*op, x.clone(), y.clone()))));
            }
        }
        for u1 in UNOPS {
            out.push(("fusion-unary".into(), ret(u(*u1, x.clone()))));
        }
        out.push(("fusion-field".into(), ret(E::Field(Box::new(x.clone()), "k"))));
        out.push(("fusion-index".into(), ret(E::Index(Box::new(x.clone()), Box::new(x.clone())))));
        out.push(("fusion-call".into(), ret(E::Call(Box::new(x.clone()), Args::Tuple(vec![x.clone()])))));
        out.push(("fusion-call-str".into(), ret(E::Call(Box::new(x.clone()), Args::Str(b"s".to_vec())))));
        out.push(("fusion-call-long".into(), ret(E::Call(Box::new(x.clone()), Args::Str(long_string())))));
        out.push(("fusion-call-table".into(), ret(E::Call(Box::new(x.clone()), Args::Table(vec![Item::Pos(x.clone())])))));
        out.push(("fusion-method".into(), ret(E::Method(Box::new(x.clone()), "m", Args::Tuple(vec![x.clone()])))));
        out.push(("fusion-table".into(), ret(E::Table(vec![Item::Pos(x.clone()), Item::Keyed(x.clone(), x.clone()), Item::Named("k", x.clone())]))));
        out.push(("fusion-paren".into(), ret(E::Paren(Box::new(x.clone())))));
        out.push(("fusion-interp".into(), ret(E::Interp(vec![IPart::Val(x.clone()), IPart::Str(b"{`\\".to_vec()), IPart::Val(x.clone())]))));
        out.push(("fusion-if".into(), ret(E::If(Box::new(x.clone()), Box::new(x.clone()), vec![(x.clone(), x.clone())], Box::new(x.clone())))));
        out.push(("fusion-cast".into(), ret(E::Cast(Box::new(x.clone()), Box::new(Ty::Name("T"))))));
        out.push(("fusion-return-pair".into(), vec![S::Return(vec![x.clone(), x.clone()])]));
    }
    out
}

fn minimal_statements() -> Vec<(&'static str, S)> {
    let a = id("a");
    let f_call = call(id("f"), vec![]);
    vec![
        ("local", S::Local(vec![("x", None)], vec![])),
        ("local-value", S::Local(vec![("x", None), ("y", None)], vec![a.clone(), f_call.clone()])),
        ("local-paren-end", S::Local(vec![("x", None)], vec![E::Paren(Box::new(a.clone()))])),
        ("local-prefix-end", S::Local(vec![("x", None)], vec![E::Field(Box::new(a.clone()), "b")])),
        ("local-vararg-end", S::Local(vec![("x", None)], vec![E::Vararg])),
        ("local-func-end", S::Local(vec![("x", None)], vec![E::Func(vec![], false, vec![])])),
        ("local-typed", S::Local(vec![("x", Some(Ty::Name("T")))], vec![a.clone()])),
        ("assign", S::Assign(vec![id("x")], vec![a.clone()])),
        ("assign-multi", S::Assign(vec![id("x"), E::Field(Box::new(a.clone()), "k"), E::Index(Box::new(a.clone()), Box::new(E::Num(1.0)))], vec![a.clone(), f_call.clone()])),
        ("assign-call-end", S::Assign(vec![id("x")], vec![f_call.clone()])),
        ("compound", S::Compound(BinOp::Add, id("x"), a.clone())),
        ("compound-concat", S::Compound(BinOp::Concat, E::Field(Box::new(a.clone()), "k"), E::Num(1.0))),
        ("compound-idiv", S::Compound(BinOp::IDiv, id("x"), f_call.clone())),
        ("call", S::Call(f_call.clone())),
        ("call-paren-prefix", S::Call(E::Call(Box::new(E::Paren(Box::new(a.clone()))), Args::Tuple(vec![])))),
        ("call-method", S::Call(E::Method(Box::new(a.clone()), "m", Args::Tuple(vec![a.clone()])))),
        ("call-string", S::Call(E::Call(Box::new(id("f")), Args::Str(b"s".to_vec())))),
        ("call-table", S::Call(E::Call(Box::new(id("f")), Args::Table(vec![])))),
        ("call-chain", S::Call(E::Call(Box::new(f_call.clone()), Args::Tuple(vec![])))),
        ("do", S::Do(vec![])),
        ("do-body", S::Do(vec![S::Call(f_call.clone())])),
        ("while", S::While(a.clone(), vec![S::Break])),
        ("repeat", S::Repeat(vec![], a.clone())),
        ("repeat-paren-end", S::Repeat(vec![S::Call(f_call.clone())], E::Paren(Box::new(a.clone())))),
        ("repeat-call-end", S::Repeat(vec![], f_call.clone())),
        ("if", S::If(vec![(a.clone(), vec![])], None)),
        ("if-else", S::If(vec![(a.clone(), vec![S::Call(f_call.clone())]), (id("b"), vec![])], Some(vec![S::Return(vec![])]))),
        ("numfor", S::NumFor("i", E::Num(1.0), E::Num(2.0), None, vec![])),
        ("numfor-step", S::NumFor("i", E::Num(1.0), a.clone(), Some(E::Num(2.0)), vec![S::Continue])),
        ("genfor", S::GenFor(vec!["k", "v"], vec![call(id("pairs"), vec![a.clone()])], vec![])),
        ("function", S::Function("f", vec![], None, vec![], false, vec![])),
        ("function-fields", S::Function("a", vec!["b", "c"], Some("m"), vec!["x"], true, vec![S::Return(vec![E::Vararg])])),
        ("local-function", S::LocalFunction("f", vec!["x", "y"], false, vec![S::Return(vec![id("x")])])),
        ("type", S::TypeDecl(false, "T", vec![], Ty::Name("number"))),
        ("export-type", S::TypeDecl(true, "T", vec!["A", "B"], Ty::Array(Box::new(Ty::Name("A"))))),
    ]
}

pub fn statement_trees() -> Vec<(String, Vec<S>)> {
    let stats = minimal_statements();
    let mut out = Vec::new();
    for (n, s) in &stats {
        out.push((format!("stat {}", n), vec![s.clone()]));
    }
    for (n1, s1) in &stats {
        for (n2, s2) in &stats {
            out.push((format!("pair {} ; {}", n1, n2), vec![s1.clone(), s2.clone()]));
        }
        for last in [S::Return(vec![]), S::Return(vec![id("a")]), S::Return(vec![E::Paren(Box::new(id("a")))]), S::Break, S::Continue] {
            // break/continue outside a loop are still syntactically valid for the writers; wrap in a loop to stay valid Lua
            let body = vec![s1.clone(), last.clone()];
            let wrapped = match last {
                S::Break | S::Continue => vec![S::While(E::True, body)],
                _ => body,
            };
            out.push((format!("last after {}", n1), wrapped));
        }
    }
    // token adjacency across a statement boundary: every leaf that can end a statement x every first token of the next one
    let starts: Vec<S> = vec![
        S::Assign(vec![id("_")], vec![E::Num(1.0)]),
        S::Assign(vec![E::Field(Box::new(id("_G")), "t")], vec![E::Num(1.0)]),
        S::Assign(vec![id("e1")], vec![E::Num(1.0)]),
        S::Assign(vec![id("E")], vec![E::Num(1.0)]),
        S::Assign(vec![id("x1")], vec![E::Num(1.0)]),
        S::Assign(vec![id("p2")], vec![E::Num(1.0)]),
        S::Call(call(id("_f"), vec![])),
        S::Call(call(id("f"), vec![])),
        S::Call(E::Call(Box::new(E::Paren(Box::new(id("a")))), Args::Tuple(vec![]))),
        S::Call(E::Method(Box::new(id("_o")), "m", Args::Tuple(vec![]))),
        S::Do(vec![]),
        S::If(vec![(id("a"), vec![])], None),
        S::While(id("a"), vec![]),
        S::NumFor("_i", E::Num(1.0), E::Num(2.0), None, vec![]),
        S::Function("_f", vec![], None, vec![], false, vec![]),
        S::Local(vec![("_x", None)], vec![]),
        S::LocalFunction("_f", vec![], false, vec![]),
        S::Repeat(vec![], id("a")),
        S::TypeDecl(false, "T", vec![], Ty::Name("number")),
        S::TypeDecl(true, "T", vec![], Ty::Name("number")),
        S::Return(vec![id("_")]),
        S::Return(vec![E::Num(1.0)]),
    ];
    for leaf in fusion_leaves(true) {
        for next in &starts {
            out.push(("boundary local".into(), vec![S::Local(vec![("x", None)], vec![leaf.clone()]), next.clone()]));
            out.push(("boundary assign".into(), vec![S::Assign(vec![id("x")], vec![id("a"), leaf.clone()]), next.clone()]));
            out.push(("boundary compound".into(), vec![S::Compound(BinOp::Add, id("x"), leaf.clone()), next.clone()]));
            out.push(("boundary until".into(), vec![S::Repeat(vec![], leaf.clone()), next.clone()]));
        }
    }
    // nested blocks
    for (n, s) in &stats {
        out.push((format!("nested {}", n), vec![S::Do(vec![S::If(vec![(id("a"), vec![s.clone()])], Some(vec![s.clone()]))]), S::LocalFunction("g", vec![], true, vec![s.clone(), S::Return(vec![])])]));
    }
    out
}

fn base_types() -> Vec<Ty> {
    vec![
        Ty::Name("number"),
        Ty::Generic("Array", vec![Ty::Name("T")]),
        Ty::Generic("Map", vec![Ty::Name("K"), Ty::Name("V")]),
        Ty::Field("M", "T"),
        Ty::True,
        Ty::False,
        Ty::Nil,
        Ty::Str("lit"),
        Ty::Array(Box::new(Ty::Name("T"))),
        Ty::Table(vec![("a", Ty::Name("A")), ("b", Ty::Name("B"))], None),
        Ty::Table(vec![("a", Ty::Name("A"))], Some((Box::new(Ty::Name("string")), Box::new(Ty::Name("V"))))),
        Ty::Table(vec![], None),
        Ty::TypeOf(Box::new(E::Id("x"))),
        Ty::Func(vec![], None, Box::new(Ret::Pack(vec![]))),
        Ty::Func(vec![(None, Ty::Name("A")), (Some("b"), Ty::Name("B"))], None, Box::new(Ret::Type(Ty::Name("R")))),
        Ty::Func(vec![(None, Ty::Name("A"))], Some(Box::new(Ty::Name("V"))), Box::new(Ret::Pack(vec![Ty::Name("R"), Ty::Name("S")]))),
        Ty::Func(vec![], None, Box::new(Ret::Variadic(Ty::Name("R")))),
        Ty::Optional(Box::new(Ty::Name("T"))),
        Ty::Union(vec![Ty::Name("A"), Ty::Name("B")]),
        Ty::Inter(vec![Ty::Name("A"), Ty::Name("B")]),
    ]
}

fn wrap_types(inner: &Ty) -> Vec<Ty> {
    let i = || inner.clone();
    vec![
        Ty::Generic("Array", vec![i()]),
        Ty::Array(Box::new(i())),
        Ty::Table(vec![("k", i())], Some((Box::new(Ty::Name("string")), Box::new(i())))),
        Ty::Paren(Box::new(i())),
        Ty::Func(vec![(None, i()), (Some("n"), i())], Some(Box::new(i())), Box::new(Ret::Type(i()))),
        Ty::Func(vec![], None, Box::new(Ret::Pack(vec![i(), i()]))),
        Ty::Func(vec![], None, Box::new(Ret::Variadic(i()))),
        Ty::Optional(Box::new(i())),
        Ty::Union(vec![i(), Ty::Name("Z")]),
        Ty::Union(vec![Ty::Name("Z"), i()]),
        Ty::Inter(vec![i(), Ty::Name("Z")]),
        Ty::Inter(vec![Ty::Name("Z"), i()]),
    ]
}

pub fn type_trees(tier: Tier) -> Vec<(String, Vec<S>)> {
    let mut types = base_types();
    let depth1: Vec<Ty> = base_types().iter().flat_map(|t| wrap_types(t)).collect();
    types.extend(depth1.clone());
    if tier == Tier::Thorough {
        types.extend(depth1.iter().flat_map(|t| wrap_types(t)));
    }
    let mut out = Vec::new();
    for t in types {
        out.push(("type in local".to_owned(), vec![S::Local(vec![("x", Some(t.clone()))], vec![id("v")])]));
        out.push(("type in cast".to_owned(), vec![S::Return(vec![b(BinOp::Add, E::Cast(Box::new(id("v")), Box::new(t.clone())), E::Num(1.0))])]));
        out.push(("type in declaration".to_owned(), vec![S::TypeDecl(false, "T", vec!["A"], t.clone()), S::Call(call(id("f"), vec![]))]));
    }
    out
}

struct Out {
    n: u64,
    violations: Vec<Violation>,
}

fn check_tree(name: &str, recipe: &[S], spans: &[usize]) -> Out {
    let mut out = Out { n: 0, violations: vec![] };
    let block = d_block(recipe);
    let mut expected = r_block(recipe);
    normalize_block(&mut expected);
    let mut seen_texts = std::collections::HashSet::new();
    for span in spans {
        for gen in [Gen::Dense(*span), Gen::Readable(*span)] {
            let text = match dl::generate(&block, "", gen) {
                Ok(t) => t,
                Err(e) => {
                    out.violations.push(Violation { finding: None, summary: format!("{} ({}) on tree {}: {:?}", e, gen.name(), name, recipe), replay: json!({"tree": format!("{:?}", recipe)}) });
                    continue;
                }
            };
            if !seen_texts.insert(text.clone()) {
                continue;
            }
            out.n += 1;
            let problem = match parser::parse(text.as_bytes(), Mode::Luau) {
                Err(e) => Some(format!("text is not valid Luau: {}", e)),
                Ok(p) => {
                    let mut got = p.block;
                    normalize_block(&mut got);
                    if got != expected {
                        Some("text denotes another tree".to_owned())
                    } else if p.census == Default::default() {
                        match parser::parse(text.as_bytes(), Mode::Lua51) {
                            Ok(_) => None,
                            Err(e) => Some(format!("tree without Luau syntax is not valid Lua 5.1: {}", e)),
                        }
                    } else {
                        None
                    }
                }
            };
            if let Some(pb) = problem {
                out.violations.push(Violation {
                    finding: None,
                    summary: format!("{} [{} / {}]\n--- tree {:?}\n--- text\n{}", pb, name, gen.name(), recipe, text),
                    replay: json!({"kind": "generator", "family": name, "generator": gen.name(), "tree": format!("{:?}", recipe), "text": text, "problem": pb}),
                });
            }
        }
    }
    out
}


/// (e) number literals as darklua reads them from their source spelling (no tokens kept): whatever notation the generator
/// picks, the text must read back as the very same double
fn literal_spellings(tier: Tier) -> Vec<String> {
    let mut out = Vec::new();
    let digits = tier.pick(4, 6);
    let (lo, hi) = (10u32.pow(digits - 1), 10u32.pow(digits));
    for m in lo..hi {
        let ms = m.to_string();
        let mantissa = format!("{}.{}", &ms[..1], &ms[1..]);
        for e in -9..=25 {
            out.push(format!("{}e{}", mantissa, e));
        }
        out.push(mantissa.clone());
        out.push(format!("{}{}", &ms[..1], &ms[1..]));
        out.push(format!("0.{}", ms));
        out.push(format!("0.000{}", ms));
        out.push(format!("{}000000000000000000000", ms));
    }
    for s in ["6.97e1", "7.03e1", "9.88e1", "8.1899e20", "6.84e22", "9.99e22", "3.17695444e1", "4.97859528154627e12", "8.778394545839784e16", "1.1561552053477371e19", "1e22", "1e23", "9007199254740993", "0.1e-6", "123456789012345678e3", "5e-324", "1.7976931348623157e308", "2.2250738585072014e-308", "1E5", "2.5E-3", "0.30000000000000004"] {
        out.push(s.to_owned());
    }
    out
}

fn check_literal(spelling: &str) -> Out {
    let mut out = Out { n: 0, violations: vec![] };
    let expected: f64 = match spelling.parse() {
        Ok(v) => v,
        Err(_) => return out,
    };
    let block = match dl::parse(&format!("return {}", spelling), false) {
        Ok(b) => b,
        Err(_) => return out,
    };
    for gen in [Gen::Dense(80), Gen::Readable(80)] {
        out.n += 1;
        let text = match dl::generate(&block, "", gen) {
            Ok(t) => t,
            Err(e) => {
                out.violations.push(Violation { finding: None, summary: format!("{} ({}) on the number {}", e, gen.name(), spelling), replay: json!({"kind": "literal", "spelling": spelling}) });
                continue;
            }
        };
        let got = parser::parse(text.as_bytes(), Mode::Luau).ok().and_then(|p| match p.block.stats.first().map(|s| &s.stat) {
            Some(crate::luaref::ast::Stat::Return(exprs)) => match exprs.first() {
                Some(crate::luaref::ast::Expr::Number(v)) => Some(*v),
                _ => None,
            },
            _ => None,
        });
        if got.map(f64::to_bits) != Some(expected.to_bits()) {
            out.violations.push(Violation {
                finding: None,
                summary: format!("the number written `{}` in the source (value {:e}, bits {:#x}) is written `{}` by {}, which reads as {:?}", spelling, expected, expected.to_bits(), text.trim(), gen.name(), got),
                replay: json!({"kind": "literal", "spelling": spelling, "generator": gen.name(), "text": text}),
            });
        }
    }
    out
}

pub fn run(tier: Tier) -> Report {
    let mut report = Report::new("C02", "exploration", tier);
    report.rule = "trees are built directly with the public `nodes` constructors from recipes that also build the luaref AST they must denote: (a) every ordered \
        pair of the 16 binary operators in both nestings (all triples in five bracketings in thorough), unary chains up to length 3 above and below every \
        binary operator, if-expressions and casts as operands; (b) the fusion set: 35 leaves by first/last character (numbers, identifiers, `...`, short and \
        long-bracket strings, tables, functions, parenthesised, calls with string/table sugar, fields, indexes with long-string keys, interpolated strings) on \
        both sides of the operators, after unary operators, as prefixes, arguments and table entries; (c) 35 minimal statements, every ordered pair of them, every \
        last statement after each, nested blocks; (d) 20 base types nested to depth 1 (2 in thorough) in local annotations, casts and type declarations; x \
        {dense, readable} x column spans {0,1,2,3,5,8,13,21,40,80,120} (all 0..=120 in thorough), identical texts counted once; (e) every decimal number with a 4-digit \
        (6-digit in thorough) mantissa x exponents -9..=25 and five exponent-less placements, read by darklua from its source spelling without tokens: the text of either generator must read \
        back as the same double, bit for bit. The text is parsed by luaref \
        and its normal form (redundant parentheses dropped, multi-value parentheses kept, call sugar desugared) must equal the twin; trees without Luau syntax \
        must also pass the strict Lua 5.1 grammar (incl. the newline-before-call rule)"
        .to_owned();
    report.assumptions = vec!["the luaref parser is the independent reader (own precedence table and lexer, no code shared with darklua or full_moon)".to_owned()];
    let spans: Vec<usize> = match tier {
        Tier::Quick => vec![0, 1, 2, 3, 5, 8, 13, 21, 40, 80, 120],
        Tier::Thorough => (0..=120).collect(),
    };
    let mut trees = expression_trees(tier);
    trees.extend(statement_trees());
    trees.extend(type_trees(tier));
    let results: Vec<Out> = trees.par_iter().map(|(n, r)| check_tree(n, r, &spans)).collect();
    for o in results {
        report.evaluations += o.n;
        report.violations.extend(o.violations);
    }
    let spellings = literal_spellings(tier);
    let results: Vec<Out> = spellings.par_iter().map(|sp| check_literal(sp)).collect();
    for o in results {
        report.evaluations += o.n;
        report.violations.extend(o.violations);
    }
    report.set("number_spellings", spellings.len() as u64);
    report.distinct_nontrivial = (trees.len() + spellings.len()) as u64;
    report.set("trees", trees.len() as u64);
    report.set("column_spans", json!(spans));
    for i in [0, trees.len() / 3, trees.len() / 2, trees.len() - 1] {
        let (n, r) = &trees[i];
        let text = dl::generate(&d_block(r), "", Gen::Dense(80)).unwrap_or_default();
        report.sample(json!({"family": n, "dense": text}));
    }
    report
}
