//! C01 — Default rules preserve program behaviour (Engine A, model checking).
use super::behave::{self, FailCtx, Seed, Spec};
use crate::common::{Report, Tier};
use crate::dl::DEFAULT_RULE_NAMES;
use crate::gen::programs as g;

pub fn seeds(tier: Tier) -> Vec<Seed> {
    let mut seeds = Vec::new();
    let frags = g::exprs_depth1(g::LEAVES, false);
    for c in g::CONTEXTS {
        for f in &frags {
            seeds.push(Seed { code: g::fill(c, f), family: "K x X(1)" });
        }
    }
    for c in g::TWO_HOLE_CONTEXTS {
        for a in g::LEAVES {
            for b in g::LEAVES {
                seeds.push(Seed { code: g::fill2(c, a, b), family: "two-hole" });
            }
        }
    }
    for c in g::CONTEXTS {
        for f in g::EFFECTFUL_CONSTANTS {
            seeds.push(Seed { code: g::fill(c, f), family: "effectful constants" });
            seeds.push(Seed { code: g::fill(c, &format!("{} or 0", f)), family: "effectful constants" });
            seeds.push(Seed { code: g::fill(c, &format!("x and {}", f)), family: "effectful constants" });
            seeds.push(Seed { code: g::fill(c, &format!("not {}", f)), family: "effectful constants" });
        }
    }
    for p in g::statement_programs() {
        seeds.push(Seed { code: p, family: "statement" });
    }
    for p in g::scope_programs(tier.pick(2, 2)) {
        seeds.push(Seed { code: p, family: "S(2)" });
    }
    for p in g::family_programs() {
        seeds.push(Seed { code: p, family: "families" });
    }
    for p in g::if_chain_programs(tier.pick(2, 3)) {
        seeds.push(Seed { code: p, family: "if chains" });
    }
    for p in g::loop_chain_programs() {
        seeds.push(Seed { code: p, family: "loop conditions" });
    }
    for p in g::if_expression_chain_programs(1) {
        seeds.push(Seed { code: p, family: "if-expression chains" });
    }
    // Luau programs are in the property's domain too ("Lua 5.1/Luau program")
    for s in super::c06::seeds(tier) {
        seeds.push(Seed { code: s.code, family: "Luau fragments" });
    }
    if tier == Tier::Thorough {
        let frags2 = g::exprs_depth2(false);
        for c in ["return @", "local a, b = @\nreturn a, b", "if @ then E1\"t\" else E1\"f\" end", "local a = @", "E1(@)"] {
            for f in &frags2 {
                seeds.push(Seed { code: g::fill(c, f), family: "K x X(2)" });
            }
        }
        for p in g::scope_programs(3) {
            seeds.push(Seed { code: p, family: "S(3)" });
        }
    }
    seeds
}

fn classify(ctx: &FailCtx) -> Option<String> {
    super::findings::classify_behaviour("C01", ctx)
}

pub fn run(tier: Tier) -> Report {
    let mut report = Report::new("C01", "model_checking", tier);
    report.rule = "seeds = contexts x expression fragments, two-hole contexts, scope programs S(n), metatable/loop/closure families, every if statement of up to 2 (3 thorough) branches over 9 conditions (constant, unknown truthy and falsy, effectful, constant-but-effectful) x empty/effectful blocks x absent/empty/effectful else, while/repeat loops over the same conditions, if-expressions over the same conditions and 4 values; \
        BFS over the 13 default rules from parse(seed) in both parser modes until closure or the depth bound; every reachable state is \
        generated (retain_lines on the token graph; dense/readable on the token-less graph) and executed by luaref; a state is \
        non-trivial when it differs from the seed's AST (distinct_nontrivial counts distinct reached ASTs other than the seed)"
        .to_owned();
    report.assumptions = vec![
        "luaref (independent interpreter, validated by conformance vectors at start) defines Lua behaviour".to_owned(),
        "seeds whose original run errors, diverges or reaches dialect-dependent behaviour are skipped and counted".to_owned(),
        "equal Debug renderings of two ASTs imply equal futures under every rule".to_owned(),
    ];
    let rule_jsons: Vec<String> = DEFAULT_RULE_NAMES.iter().map(|n| format!("'{}'", n)).collect();
    let spec = Spec {
        property: "C01",
        seeds: seeds(tier),
        bind_default_config: Some(format!("[{}]", rule_jsons.join(","))),
        rule_jsons,
        max_depth: tier.pick(8, 26),
        max_states: tier.pick(400, 5000),
        env_seed: behave::env_none(),
        env_out: behave::env_none(),
        classify: std::sync::Arc::new(classify),
        extra_gens: vec![],
        judge_root: true,
    };
    behave::run(spec, tier, report)
}
