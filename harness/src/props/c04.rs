//! C04 — retain_lines keeps surviving code on its original line (Engine A over marker layouts).
use crate::common::{Report, Tier, Violation};
use crate::dl::{self, Gen, DEFAULT_RULE_NAMES};
use crate::explore::pipeline::{explore, explore_from, Graph};
use crate::luaref::lexer::{lex, Mode, Tok};
use darklua_core::Resources;
use rayon::prelude::*;
use serde_json::json;

/// layouts: `@L@` is replaced by the string literal "@<line>@" of the line it stands on
pub const LAYOUTS: &[&str] = &[
    "E1(@L@)\nE1(@L@)\n\n\nE1(@L@)\n",
    "local a = E1(@L@)\nlocal b = E1(\n  @L@,\n  @L@\n)\nreturn a, b, @L@\n",
    "local t = {\n  @L@,\n  k = @L@,\n  [@L@] = @L@,\n}\nreturn t, @L@\n",
    "-- comment\n\n-- another\nE1(@L@) -- trailing\n--[[ long\ncomment ]] E1(@L@)\nE1(@L@)\n",
    "if E1(@L@) then\n  E1(@L@)\nelseif E1(@L@) then\n  E1(@L@)\nelse\n  E1(@L@)\nend\nE1(@L@)\n",
    "if true then\n  E1(@L@)\nelse\n  E1(@L@)\nend\nE1(@L@)\n",
    "if false then\n  E1(@L@)\nelseif nil then\n  E1(@L@)\nelse\n  E1(@L@)\nend\nE1(@L@)\n",
    "while false do\n  E1(@L@)\nend\nE1(@L@)\nwhile E1(@L@) do\n  E1(@L@)\n  break\nend\n",
    "do\n  E1(@L@)\nend\ndo\nend\ndo\n  do\n  end\nend\nE1(@L@)\n",
    "local unused = 1\nlocal unused2 = E1(@L@)\nlocal u3,\n  u4 = E1(@L@),\n  E1(@L@)\nE1(@L@)\n",
    "local function f(\n  a,\n  b\n)\n  return a,\n    b,\n    @L@\nend\nE1(f(@L@,\n  @L@))\n",
    "local function f()\n  do return @L@ end\n  E1(@L@)\nend\nE1(f(), @L@)\n",
    "local t = {}\nfunction t:m(\n  a\n)\n  return self, a, @L@\nend\nfunction t.f()\n  return @L@\nend\nE1(t:m(@L@), t.f())\n",
    "local t = {}\nt[\"k\"] = @L@\nt[\"a b\"] = @L@\nE1(t[\"k\"],\n  t[\"a b\"], @L@)\n",
    "local a, b = nil,\n  nil\nlocal c = nil\nE1(a, b, c, @L@)\n",
    "E1(1 +\n  2, @L@)\nE1(\"a\" ..\n  \"b\", @L@)\nE1(not\n  nil, @L@)\nE1(@L@)\n",
    "E1(@L@ ..\n  @L@)\nE1(@L@)\n",
    "E1((\"x\"):rep(2), @L@)\nE1(E1(\"lit\"), @L@)\nE1(E1({\n  @L@\n}), @L@)\n",
    "local s = [[\nlong\nstring]]\nE1(s, @L@)\nlocal u = [==[\n]==]\nE1(u, @L@)\n",
    "for i = 1,\n  2 do\n  E1(i, @L@)\nend\nfor k, v in pairs({\n  @L@\n}) do\n  E1(k, v, @L@)\nend\nE1(@L@)\n",
    "repeat\n  E1(@L@)\nuntil E1(@L@)\nE1(@L@)\n",
    "return E1(@L@),\n  E1(@L@),\n  @L@\n",
    "local a = 1 local b = 2 E1(a, b, @L@)\nlocal c = 3; local d = 4; E1(c, d, @L@)\n",
    "E1(@L@)\n\n\n\n\n\nE1(@L@)\n-- end\n",
    "\n\n\nE1(@L@)\n",
    "local veryLongVariableName = E1(@L@)\nlocal anotherVeryLongVariableName = veryLongVariableName\nE1(anotherVeryLongVariableName,\n  @L@)\n",
    "E1 @L@\nE1 {\n  @L@,\n  @L@\n}\nE1(\n  @L@\n)\nE1({\n  @L@\n})\nE1(@L@)\n",
    "local o = {m = function(self, a) return a end}\no:m @L@\no:m {\n  @L@\n}\nE1 [[\nlong]]\nE1(@L@)\n",
    "-- c1\n-- c2\n-- c3\n-- c4\n-- c5\ndo end\nE1(@L@)\nE1(@L@)\n",
    "E1(@L@)\ndo\n  -- a\n  -- b\n  -- c\n  -- d\nend\nE1(@L@)\n-- x\n-- y\n-- z\n-- w\nlocal unused = 1\nE1(@L@)\n",
    "E1(@L@)\n-- p\n-- q\n\n-- r\n-- s\nwhile false do\n  -- t\n  E1(@L@)\n  -- u\nend -- v\n-- w\nE1(@L@)\n",
    "--[[ a\nb ]]\n-- c\n--[[ d ]]\n-- e\nlocal function unused()\n  -- f\n  -- g\nend\n-- h\n-- i\n-- j\n-- k\ntype T = number\nE1(@L@)\n",
    "if false then\n  -- a\n  -- b\n  -- c\n  -- d\n  E1(@L@)\nend\n-- e\n-- f\n-- g\n-- h\nE1(@L@)\n",
    // Luau constructs for the line-neutral rules
    "local a = 1\na += E1(@L@)\na -= \n  E1(@L@)\nlocal t = {k = 1}\nt.k ..= @L@\nE1(t)[\"k\"] //= E1(@L@)\nE1(a, @L@)\n",
    "for i = 1, 3 do\n  if i == 1 then\n    continue\n  end\n  E1(i, @L@)\nend\nE1(@L@)\n",
    "local i = 0\nrepeat\n  i += 1\n  if i == 1 then continue end\n  E1(i, @L@)\nuntil i > 2\nE1(@L@)\n",
    "local v = if E1(@L@) then\n  @L@\nelseif E1(@L@) then\n  @L@\nelse\n  @L@\nE1(v, @L@)\n",
    "local x = 5\nlocal s = `a{x}b{\n  E1(@L@)\n}`\nE1(s, `{x}`, @L@)\n",
    "E1(7 // 2, @L@)\nE1(7 //\n  2, @L@)\nlocal n = 0b11 + 1_000\nE1(n, @L@)\n",
    "const c = E1(@L@)\nconst function cf()\n  return @L@\nend\nE1(c, cf(), @L@)\n",
    "type T = {\n  a: number,\n}\nlocal v: T = {\n  a = E1(@L@) :: number,\n}\nlocal function f<U>(a: U,\n  b: number): U\n  return a\nend\nE1(v, f(@L@, 1))\n",
    "assert(E1(@L@), @L@)\nlocal r = assert(E1(@L@),\n  @L@)\nE1(r, @L@)\n",
    "debug.profilebegin(@L@)\nE1(@L@)\ndebug.profileend()\nE1(@L@)\n",
    "E1(G, @L@)\nE1(_G.G,\n  @L@)\n",
    "local o = {m = function(self, a) return a end}\nE1(o:m(@L@))\nE1(o:m(\n  @L@))\n",
    "local function lf()\n  return @L@\nend\nfunction gf()\n  return @L@\nend\nE1(lf(), gf(), @L@)\n",
    "E1(math.sqrt(4), @L@)\nlocal q = math.sqrt(\n  E1(@L@))\nE1(q, @L@)\n",
    "@native\nlocal function nf()\n  return @L@\nend\nE1(nf(), @L@)\n",
    // values computed by a rule have no token: a folded string with line feeds must not add lines
    "local s = 'a\\nb\\nc\\nd\\ne\\nf\\ng\\nhhhhhhhhhhhh' .. 'x' E1(s, @L@)\nE1(@L@)\n",
    "E1('1\\n2\\n3\\n4\\n5\\n6\\n7' .. '', @L@)\nE1('a long line of text that is longer than sixty characters in total\\n' .. 'x', @L@)\nE1(@L@)\n",
    // a branch that is always taken replaces the else branch
    "if E1(@L@) then\n  E1(@L@)\nelseif true then\n  E1(@L@)\nelse\n  E1(@L@)\nend\nE1(@L@)\n",
    "if E1(@L@) then\n  E1(@L@)\nelseif E1(@L@) then\n  E1(@L@)\nelseif 1 then\n\n  E1(@L@)\nelseif E1(@L@) then\n  E1(@L@)\nelse\n\n\n  E1(@L@)\nend\nE1(@L@)\n",
    "local v = if E1(@L@) then\n  @L@\nelseif true then\n  E1(@L@)\nelse\n  E1(@L@)\nE1(v, @L@)\n",
    // nil declarations are reordered
    "local a --[[ multi\nline\ncomment ]], b = nil, E1(@L@)\nE1(a, b, @L@)\n",
    "local a,\n  b,\n  c = nil,\n  E1(@L@),\n  nil\nE1(a, b, c, @L@)\n",
    "local a, -- one\n  b, -- two\n  c = E1(@L@), -- three\n  nil, nil\nE1(a, b, c, @L@)\n",
    // a removed statement between a multi-line comment and its own trailing comment
    "--[[ header\n  spanning\n  lines ]]\nwhile false do end -- trailing\nE1(@L@)\nE1(@L@)\n",
    "E1(@L@) --[[ a\nb\nc ]] local unused = 1 -- trailing\n--[[ d\ne ]] do end --[[ f\n]] E1(@L@)\nE1(@L@)\n",
    // string keys that become field names
    "local t = {}\nE1(t\n[\n@I@], @L@)\nt[@I@] = t\nt\n  [@I@]\n  [@I@] = @L@\nE1(t[@I@][\n  @I@\n], @L@)\n",
    "local t = {\n  [@I@] = @L@,\n  [\n    @I@\n  ] = @L@,\n  [@I@] = {\n    [@I@] = @L@ },\n}\nE1(t, @L@)\n",
    "local t = {}\nt[@I@](@L@)\nt\n[@I@]\n(@L@)\nt[@I@]:m(\n  @L@)\nE1(@L@)\n",
    // string keys of table types
    "local x: { [@L@]: number } = E1(@L@)\nE1(@L@)\ntype T = {\n  [@L@]: { [@L@]: string },\n}\nE1(x, @L@)\n",
];

pub fn instantiate(layout: &str) -> String {
    let mut out = String::new();
    for (i, line) in layout.split('\n').enumerate() {
        if i > 0 {
            out.push('\n');
        }
        out.push_str(&line.replace("@L@", &format!("\"@{}@\"", i + 1)).replace("@I@", &format!("\"L{}_\"", i + 1)));
    }
    out
}

/// (marker line claimed, actual line) for every string token that is exactly a marker
fn markers(text: &str) -> Result<Vec<(u32, u32)>, String> {
    let lexed = lex(text.as_bytes(), Mode::Luau).map_err(|e| e.to_string())?;
    let mut out = Vec::new();
    for t in &lexed.tokens {
        if let Tok::Str(s) = &t.tok {
            if s.len() >= 3 && s[0] == b'@' && s[s.len() - 1] == b'@' {
                if let Ok(n) = std::str::from_utf8(&s[1..s.len() - 1]).unwrap_or("").parse::<u32>() {
                    out.push((n, t.line));
                }
            }
        }
        // markers that can become field names: the string "L<n>_" or the name L<n>_
        let word: Option<&[u8]> = match &t.tok {
            Tok::Str(s) => Some(s.as_slice()),
            Tok::Name(n) => Some(n.as_bytes()),
            _ => None,
        };
        if let Some(w) = word {
            if w.len() >= 3 && w[0] == b'L' && w[w.len() - 1] == b'_' {
                if let Ok(n) = std::str::from_utf8(&w[1..w.len() - 1]).unwrap_or("").parse::<u32>() {
                    out.push((n, t.line));
                }
            }
        }
    }
    Ok(out)
}

const LINE_NEUTRAL: &[&str] = &[
    "'remove_compound_assignment'",
    "'remove_continue'",
    "'remove_if_expression'",
    "'remove_interpolated_string'",
    "'remove_floor_division'",
    "'convert_luau_number'",
    "'make_assignment_local'",
    "'remove_types'",
    "'remove_assertions'",
    "'remove_debug_profiling'",
    "{rule:'inject_global_value',identifier:'G',value:true}",
    "'remove_comments'",
    "'convert_local_function_to_assign'",
    "'convert_function_to_assignment'",
    "'remove_method_call'",
    "'convert_square_root_call'",
    "'remove_attribute'",
];

struct Out {
    states: u64,
    transitions: u64,
    evaluations: u64,
    nontrivial: u64,
    closed: bool,
    violations: Vec<Violation>,
}

fn judge_graph(graph: &Graph, code: &str, rule_names: &[String], prefix: &[&str], expected_shift: i64, out: &mut Out) {
    out.states += graph.nodes.len() as u64;
    out.transitions += graph.edges.len() as u64;
    if prefix.is_empty() {
        // pipeline (a) is claimed to closure; pipeline (b) is depth-bounded by design
        out.closed &= graph.closed;
    }
    let mut bad: Vec<Option<String>> = Vec::with_capacity(graph.nodes.len());
    for node in &graph.nodes {
        out.evaluations += 1;
        let verdict = match dl::generate(&node.block, code, Gen::Retain) {
            Err(e) => Some(e),
            Ok(text) => match markers(&text) {
                Err(e) => Some(format!("output does not lex: {}\n{}", e, text)),
                Ok(ms) => {
                    let wrong: Vec<(u32, u32)> = ms.iter().filter(|(n, l)| *l as i64 != *n as i64 + expected_shift).cloned().collect();
                    if wrong.is_empty() {
                        None
                    } else {
                        let deltas: Vec<i64> = wrong.iter().map(|(n, l)| *l as i64 - *n as i64 - expected_shift).collect();
                        Some(format!("markers off their line (marker, actual line): {:?} deltas={:?}\n--- output\n{}", wrong, deltas, text))
                    }
                }
            },
        };
        bad.push(verdict);
    }
    out.nontrivial += (graph.nodes.len() - 1) as u64;
    for idx in 0..graph.nodes.len() {
        if let Some(why) = &bad[idx] {
            let first = match graph.nodes[idx].parent {
                Some((p, _)) => bad[p as usize].is_none(),
                None => true,
            };
            if !first {
                continue;
            }
            let mut names: Vec<String> = prefix.iter().map(|s| s.to_string()).collect();
            names.extend(graph.path(idx).iter().map(|i| rule_names[*i].clone()));
            let first_is_attribute = lex(code.as_bytes(), Mode::Luau).ok().and_then(|l| l.tokens.first().map(|t| matches!(t.tok, Tok::Sym("@")))).unwrap_or(false);
            let rehoming_rules = ["remove_unused_while", "remove_empty_do", "remove_unused_variable", "remove_unused_if_branch", "filter_after_early_return", "remove_types", "remove_nil_declaration"];
            let last_rule = names.last().cloned().unwrap_or_default();
            let multiline_comment_newlines: i64 = lex(code.as_bytes(), Mode::Luau)
                .map(|l| l.comments.iter().filter(|c| c.long).map(|c| c.text.matches('\n').count() as i64).sum())
                .unwrap_or(0);
            let deltas: Vec<i64> = why
                .split("deltas=[")
                .nth(1)
                .and_then(|r| r.split(']').next())
                .map(|r| r.split(", ").filter_map(|x| x.trim().parse().ok()).collect())
                .unwrap_or_default();
            let uniform_small_push_down = !deltas.is_empty() && deltas.iter().all(|d| *d == deltas[0]) && deltas[0] > 0 && deltas[0] <= multiline_comment_newlines;
            let finding = if multiline_comment_newlines > 0 && uniform_small_push_down && rehoming_rules.iter().any(|r| last_rule.contains(r)) {
                Some("rehomed-multiline-comment-pushes-code-down".to_owned())
            } else if first_is_attribute && names.iter().any(|n| n.contains("append_text_comment") && !n.contains("location:'end'")) {
                Some("start-comment-inserted-after-leading-attribute".to_owned())
            } else {
                None
            };
            out.violations.push(Violation {
                finding,
                summary: format!("{}\n--- rules {:?}\n--- seed\n{}", why, names, code),
                replay: json!({"kind": "lines", "seed": code, "rules": names, "expected_shift": expected_shift}),
            });
        }
    }
}

fn run_seed(code: &str, tier: Tier) -> Out {
    let mut out = Out { states: 0, transitions: 0, evaluations: 0, nontrivial: 0, closed: true, violations: vec![] };
    // (a) all subsets/orders of the default rules
    let names: Vec<String> = DEFAULT_RULE_NAMES.iter().map(|n| format!("'{}'", n)).collect();
    let rules: Vec<_> = names.iter().map(|j| dl::make_rule(j)).collect();
    match explore(code, true, &rules, tier.pick(8, 26), tier.pick(600, 5000)) {
        Ok(g) => judge_graph(&g, code, &names, &[], 0, &mut out),
        Err(e) => {
            // every layout must be parsable: a rejected layout is a machinery problem
            out.violations.push(Violation { finding: None, summary: format!("MACHINERY: layout rejected by darklua: {}\n{}", e, code), replay: json!({"seed": code}) });
            return out;
        }
    }
    // (b) remove_spaces followed by any sequence of line-neutral rules
    let names: Vec<String> = LINE_NEUTRAL.iter().map(|s| s.to_string()).collect();
    let rules: Vec<_> = names.iter().map(|j| dl::make_rule(j)).collect();
    if let Ok(mut block) = dl::parse(code, true) {
        let resources = Resources::from_memory();
        let rs = dl::make_rule("'remove_spaces'");
        if dl::apply(rs.as_ref(), &mut block, code, &resources, "src/test.lua").is_ok() {
            if let Ok(g) = explore_from(block, code, &rules, tier.pick(4, 8), tier.pick(3000, 40000)) {
                judge_graph(&g, code, &names, &["'remove_spaces'"], 0, &mut out);
            }
        }
    }
    // shifted cases: append_text_comment at the start
    for (text, shift) in [("one line", 1i64), ("a\nb\nc", 5), ("x\n", 4)] {
        let rule_json = format!("{{rule:'append_text_comment',text:{}}}", serde_json::to_string(text).unwrap());
        let prefixes: Vec<Vec<String>> = vec![
            vec![],
            vec!["'remove_spaces'".to_owned()],
            vec!["'remove_function_call_parens'".to_owned()],
            vec!["'remove_spaces'".to_owned(), "'remove_function_call_parens'".to_owned()],
            DEFAULT_RULE_NAMES.iter().map(|n| format!("'{}'", n)).collect(),
        ];
        for prefix in prefixes {
            let prefix_spaces = prefix.len() == 1 && prefix[0] == "'remove_spaces'";
            let mut names = prefix.clone();
            names.push(rule_json.clone());
            if let Ok(mut block) = dl::parse(code, true) {
                let resources = Resources::from_memory();
                let mut ok = true;
                for n in &names {
                    let r = dl::make_rule(n);
                    ok &= dl::apply(r.as_ref(), &mut block, code, &resources, "src/test.lua").is_ok();
                }
                if ok {
                    let g = Graph { nodes: vec![crate::explore::pipeline::Node { block, parent: None, depth: 0 }], edges: vec![], closed: true, max_depth: 0, rule_errors: 0, panics: vec![] };
                    let pre: Vec<&str> = names.iter().map(|s| s.as_str()).collect();
                    judge_graph(&g, code, &[], &pre, shift, &mut out);
                }
            }
            if !(prefix.is_empty() || prefix_spaces) {
                continue;
            }
            // location end never shifts
            let end_json = format!("{{rule:'append_text_comment',text:{},location:'end'}}", serde_json::to_string(text).unwrap());
            if let Ok(mut block) = dl::parse(code, true) {
                let resources = Resources::from_memory();
                let r = dl::make_rule(&end_json);
                if dl::apply(r.as_ref(), &mut block, code, &resources, "src/test.lua").is_ok() {
                    let g = Graph { nodes: vec![crate::explore::pipeline::Node { block, parent: None, depth: 0 }], edges: vec![], closed: true, max_depth: 0, rule_errors: 0, panics: vec![] };
                    judge_graph(&g, code, &[], &[&end_json], 0, &mut out);
                }
            }
        }
    }
    out
}

/// bundling: the entry's markers all move by the same amount
fn bundle_case(code: &str) -> Option<Violation> {
    let entry = format!("local m = require(\"./mod\")\n{}", code);
    let module = "local v = 1\n\n\nreturn {v = v}\n";
    let cfg = "{rules:[],bundle:{require_mode:'path'}}";
    let (resources, errors) = dl::process_memory(&[("src/main.lua", &entry), ("src/mod.lua", module)], cfg, "src/main.lua", Some("out/main.lua")).ok()?;
    if !errors.is_empty() {
        return None;
    }
    let text = resources.get("out/main.lua").ok()?;
    let ms = markers(&text).ok()?;
    if ms.is_empty() {
        return None;
    }
    // the entry gained one line at the top: marker n was written for line n of `code`, i.e. line n + 1 of the entry
    let shift = ms[0].1 as i64 - ms[0].0 as i64;
    if ms.iter().any(|(n, l)| *l as i64 - *n as i64 != shift) {
        return Some(Violation {
            finding: None,
            summary: format!("bundling moved the entry's markers by different amounts: {:?}\n--- output\n{}", ms, text),
            replay: json!({"kind": "bundle lines", "entry": entry, "module": module}),
        });
    }
    None
}

const MODULE_ENDINGS: &[&str] = &[
    "return a",
    "return a\n",
    "return a\n\n",
    "return a\n\n\n",
    "return a -- c",
    "return a -- c\n",
    "return a\n-- c",
    "return a\n-- c\n",
    "return a --[[ c\n c ]]",
    "return a --[[ c\n c ]]\n",
    "return a;",
    "return a;\n",
    "return a :: any",
    "return a :: any\n",
    "return a :: {\n    x: number }",
    "return (a)",
    "return { a,\n    b }",
    "return {\n    a }\n",
    "return function()\n    return a\nend",
    "return function()\n    return a\nend\n",
    "return [[x\ny]]",
    "return [[x\ny]]\n",
    "return a .. [[\n]]",
    "return `x{a}`",
    "return `x{\na}`\n",
    "return f(a,\n    b)",
    "return f\n{ a }",
    "return a.b\n    .c",
    "return -\n    a",
    "return if a then b else\n    c",
    "return nil",
    "return ...",
    "return \"s\"",
    "return 'multi\\\nline'",
    "return 1",
    "return a == b",
    "return not\n    a\n",
];

/// darklua's convention: a file occupies one line more than it has line breaks (a final line break opens a last, empty line)
fn source_lines(text: &str) -> i64 {
    text.matches('\n').count() as i64 + 1
}

/// bundling with modules that end in every kind of expression / trivia: each file keeps its lines relative to its
/// first line, and each file starts exactly after the lines of the previous one
fn bundle_ending_cases() -> (u64, Vec<Violation>) {
    let mut out = Vec::new();
    let mut n = 0;
    for e1 in MODULE_ENDINGS {
        for e2 in [MODULE_ENDINGS[0], MODULE_ENDINGS[1], e1] {
            for rules in ["[]", "['remove_spaces']", "['remove_spaces','remove_comments']"] {
                n += 1;
                let m1 = format!("local a = \"@1001@\"\nlocal b = \"@1002@\"\n{}", e1);
                let m2 = format!("local a, b = \"@2001@\",\n    \"@2002@\"\n\n{}", e2);
                let entry = "local e1 = \"@1@\" local m1 = require(\"./m1\")\nlocal m2 = require(\"./m2\")\n\nlocal e4 = \"@4@\"\nreturn \"@5@\"\n";
                let cfg = format!("{{rules:{},bundle:{{require_mode:'path'}}}}", rules);
                let files = [("src/main.lua", entry), ("src/m1.lua", m1.as_str()), ("src/m2.lua", m2.as_str())];
                let (resources, errors) = match dl::process_memory(&files, &cfg, "src/main.lua", Some("out/main.lua")) {
                    Ok(r) => r,
                    Err(_) => continue,
                };
                if !errors.is_empty() {
                    continue;
                }
                let text = match resources.get("out/main.lua") {
                    Ok(t) => t,
                    Err(_) => continue,
                };
                let ms = match markers(&text) {
                    Ok(m) => m,
                    Err(_) => continue,
                };
                let mut problems = Vec::new();
                let mut offsets: [Option<i64>; 3] = [None, None, None];
                for (claimed, actual) in &ms {
                    let (file, line) = ((claimed / 1000) as usize, (claimed % 1000) as i64);
                    // file 1, 2 = modules, 0 = entry
                    let off = *actual as i64 - line;
                    match offsets[file] {
                        None => offsets[file] = Some(off),
                        Some(o) if o != off => problems.push(format!("marker {} of {} is on line {}: the file's lines moved by different amounts ({} and {})", claimed, ["the entry", "m1", "m2"][file], actual, o, off)),
                        _ => {}
                    }
                }
                if let (Some(o1), Some(o2), Some(oe)) = (offsets[1], offsets[2], offsets[0]) {
                    if o2 - o1 != source_lines(&m1) {
                        problems.push(format!("m2 starts {} lines after m1, which has {} lines", o2 - o1, source_lines(&m1)));
                    }
                    if oe - o2 != source_lines(&m2) {
                        problems.push(format!("the entry starts {} lines after m2, which has {} lines", oe - o2, source_lines(&m2)));
                    }
                } else {
                    problems.push(format!("markers are missing from the bundle: {:?}", ms));
                }
                if !problems.is_empty() {
                    out.push(Violation {
                        finding: None,
                        summary: format!("{}\n--- rules {} m1 = {:?} m2 = {:?}\n--- output\n{}", problems.join("\n"), rules, m1, m2, text),
                        replay: json!({"kind": "bundle endings", "m1": m1, "m2": m2, "rules": rules}),
                    });
                }
            }
        }
    }
    (n, out)
}

/// module bodies whose statements are hoisted, rewritten or generated by the bundler; `@M@` is the marker of the line
const MODULE_BODIES: &[(&str, &str)] = &[
    ("m1.luau", "E1(@M@)\n-- documentation of the type\n-- on several lines\n\ntype A = number\nE1(@M@)\nreturn nil"),
    ("m1.luau", "E1(@M@)\n--[[ documentation\nof the type ]]\nexport type A = number\n\n\ntype B = {\n  x: A,\n}\nE1(@M@)\nreturn { @M@ }\n"),
    ("m1.luau", "type A = number type B = A\nE1(@M@) type C = {\n  B }\nE1(@M@)\nreturn nil\n"),
    ("m1.luau", "local x: { [@M@]: number } = E1(@M@)\nE1(@M@)\nE1(@M@)\nreturn x\n"),
    ("m1.luau", "local x: { [@M@]: {\n  [@M@]: number } } = E1(@M@)\ntype T = { [\"key\"]: T }\nE1(@M@)\nreturn x\n"),
    ("m1.txt", "line one of the text\nline two of the text\nline three of the text file\n"),
    ("m1.txt", "1\n2\n3\n4\n5\n6\n7\n8"),
    ("m1.json", "{\n  \"text\": \"a\\nb\\nc\\nd\\ne\\nf\\ng\\nh and some more characters to make it a long string\",\n  \"k\": [1,\n 2]\n}\n"),
    ("m1.lua", "E1(@M@)\ndo\n  return E1(@M@),\n    @M@\nend\n"),
    ("m1.lua", "local function f(...)\n  return ...,\n    @M@\nend\nE1(@M@)\nreturn f(@M@,\n  @M@)\n"),
];

/// bundling modules with hoisted types, table type keys and data files: every file keeps its lines relative to its
/// first line, and the Lua files follow each other by the number of lines of the previous one
fn bundle_body_cases() -> (u64, Vec<Violation>) {
    let mut out = Vec::new();
    let mut n = 0;
    let number = |text: &str, file: usize| -> String {
        text.split('\n').enumerate().map(|(i, l)| l.replace("@M@", &format!("\"@{}@\"", file * 1000 + i + 1))).collect::<Vec<_>>().join("\n")
    };
    for (name, body) in MODULE_BODIES {
        for (name2, body2) in [MODULE_BODIES[0], MODULE_BODIES[3], ("m2.lua", "E1(@M@)\n\nE1(@M@)\nreturn @M@\n")] {
            for rules in ["[]", "['remove_spaces']", "['remove_spaces','remove_comments']", "['remove_types']"] {
                n += 1;
                let name2 = name2.replace("m1", "m2");
                let m1 = number(body, 1);
                let m2 = number(body2, 2);
                let entry = format!("local e1 = \"@1@\" local m1 = require(\"./{}\")\nlocal m2 = require(\"./{}\")\n\nlocal e4 = \"@4@\"\nreturn \"@5@\"\n", name, name2);
                let cfg = format!("{{rules:{},bundle:{{require_mode:'path'}}}}", rules);
                let (p1, p2) = (format!("src/{}", name), format!("src/{}", name2));
                let files = [("src/main.luau", entry.as_str()), (p1.as_str(), m1.as_str()), (p2.as_str(), m2.as_str())];
                let (resources, errors) = match dl::process_memory(&files, &cfg, "src/main.luau", Some("out/main.luau")) {
                    Ok(r) => r,
                    Err(_) => continue,
                };
                if !errors.is_empty() {
                    continue;
                }
                let text = match resources.get("out/main.luau") {
                    Ok(t) => t,
                    Err(_) => continue,
                };
                let ms = match markers(&text) {
                    Ok(m) => m,
                    Err(e) => {
                        out.push(Violation { finding: None, summary: format!("the bundle does not lex: {}\n{}", e, text), replay: json!({"kind": "bundle bodies", "m1": m1, "m2": m2, "rules": rules}) });
                        continue;
                    }
                };
                let mut problems = Vec::new();
                let mut offsets: [Option<i64>; 3] = [None, None, None];
                for (claimed, actual) in &ms {
                    let (file, line) = ((claimed / 1000) as usize, (claimed % 1000) as i64);
                    let off = *actual as i64 - line;
                    match offsets[file] {
                        None => offsets[file] = Some(off),
                        Some(o) if o != off => problems.push(format!("marker {} of {} is on line {}: the file's lines moved by different amounts ({} and {})", claimed, ["the entry", "m1", "m2"][file], actual, o, off)),
                        _ => {}
                    }
                }
                if let (Some(o2), Some(oe)) = (offsets[2], offsets[0]) {
                    // lines of a data file are not lines of code: only Lua modules are followed at a known distance
                    let m1_is_lua = name.ends_with(".lua") || name.ends_with(".luau");
                    if let (Some(o1), true) = (offsets[1], m1_is_lua) {
                        if o2 - o1 != source_lines(&m1) {
                            problems.push(format!("m2 starts {} lines after m1, which has {} lines", o2 - o1, source_lines(&m1)));
                        }
                    }
                    if oe - o2 != source_lines(&m2) {
                        problems.push(format!("the entry starts {} lines after m2, which has {} lines", oe - o2, source_lines(&m2)));
                    }
                } else {
                    problems.push(format!("markers are missing from the bundle: {:?}", ms));
                }
                if !problems.is_empty() {
                    out.push(Violation {
                        finding: None,
                        summary: format!("{}\n--- rules {} {} = {:?} {} = {:?}\n--- output\n{}", problems.join("\n"), rules, name, m1, name2, m2, text),
                        replay: json!({"kind": "bundle bodies", "m1": m1, "m2": m2, "rules": rules}),
                    });
                }
            }
        }
    }
    (n, out)
}

pub fn run(tier: Tier) -> Report {
    let mut report = Report::new("C04", "model_checking", tier);
    report.rule = "41 multi-line layouts (calls, tables, function definitions, if-chains with constant and dynamic conditions, loops, declarations spread \
        over 2-4 lines, comments and blank lines between and inside, long strings, Luau constructs for every lowering rule, assert/profiling/injected \
        global/method call/sqrt/attribute forms) in which every line n carries the string literal \"@n@\" in code position; (a) BFS over the 13 default rules \
        to closure from parse(seed); (b) from the state after remove_spaces, BFS over 17 line-neutral rules to the depth bound; append_text_comment \
        (1-, 3- and trailing-newline texts; start: uniform known shift, end: no shift) alone and after remove_spaces; a bundling case with uniform shift; one long comment of level 0-3 directly before or after every marker; two bundled modules ending in each of 37 expression / trivia shapes (every file keeps its lines and starts exactly after the previous one). \
        In every reachable state the retain_lines output is re-lexed by luaref and every whole-token marker @n@ must sit on line n + shift"
        .to_owned();
    report.assumptions = vec![
        "lines are counted by LF only (no lone CR in this alphabet); markers created by folding (concatenations) are not whole-token markers and are ignored".to_owned(),
        "pipeline (b) is explored to a depth bound (reported), pipeline (a) to closure".to_owned(),
    ];
    let mut raw: Vec<String> = LAYOUTS.iter().map(|l| l.to_string()).collect();
    // pairs of layouts (statements of different shapes above and below each other)
    let partners: Vec<usize> = match tier {
        Tier::Quick => (0..LAYOUTS.len()).step_by(5).collect(),
        Tier::Thorough => (0..LAYOUTS.len()).collect(),
    };
    for a in LAYOUTS.iter() {
        if a.contains("return ") && !a.contains("function") {
            continue;
        }
        for j in &partners {
            raw.push(format!("{}{}", a, LAYOUTS[*j]));
        }
    }
    // one deviation: a blank line, a line comment or a long comment inserted at every line boundary
    for a in LAYOUTS.iter() {
        let lines: Vec<&str> = a.split('\n').collect();
        for i in 0..lines.len() {
            if lines[..i].join("\n").matches("[[").count() != lines[..i].join("\n").matches("]]").count() || lines[..i].join("\n").matches("[==[").count() != lines[..i].join("\n").matches("]==]").count() {
                continue; // inside a long string or comment
            }
            for ins in ["", "-- inserted", "--[[ inserted\nlong ]]", "  ", "--[[c]] --[[d]]"] {
                let mut l2: Vec<String> = lines.iter().map(|s| s.to_string()).collect();
                l2.insert(i, ins.to_owned());
                raw.push(l2.join("\n"));
            }
        }
    }
    // one deviation inside a line: a long comment of level 0, 1, 2 (one line or two) directly before or after every marker
    for a in LAYOUTS.iter() {
        let positions: Vec<usize> = a.match_indices("@L@").map(|(i, _)| i).collect();
        for p in positions {
            for c in ["--[[ c ]]", "--[=[ c ]=]", "--[==[ c ]==]", "--[===[ ]] ]===]", "--[==[ c\nd ]==]"] {
                raw.push(format!("{}{} {}", &a[..p], c, &a[p..]));
                raw.push(format!("{} {}{}", &a[..p + 3], c, &a[p + 3..]));
            }
        }
    }
    let seeds: Vec<String> = raw.iter().map(|l| instantiate(l)).collect();
    let results: Vec<Out> = seeds.par_iter().map(|s| run_seed(s, tier)).collect();
    let mut closed = true;
    for o in results {
        report.states += o.states;
        report.transitions += o.transitions;
        report.evaluations += o.evaluations;
        report.distinct_nontrivial += o.nontrivial;
        closed &= o.closed;
        report.violations.extend(o.violations);
    }
    for s in &seeds {
        report.evaluations += 1;
        if let Some(v) = bundle_case(s) {
            report.violations.push(v);
        }
    }
    let (n, v) = bundle_ending_cases();
    report.evaluations += n;
    report.violations.extend(v);
    report.set("bundle_ending_cases", n);
    let (n, v) = bundle_body_cases();
    report.evaluations += n;
    report.violations.extend(v);
    report.set("bundle_body_cases", n);
    report.traces_validated = report.evaluations;
    report.exhaustive = closed;
    report.set("layouts", seeds.len() as u64);
    report.set("depth_bound_line_neutral", tier.pick(4, 8) as u64);
    report.set("cap_hit", !closed);
    report.sample(json!(seeds[1]));
    report.sample(json!(seeds[seeds.len() - 10]));
    report
}
