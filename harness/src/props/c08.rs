//! C08 — Static evaluation never disagrees with real execution (Engine C, bounded-exhaustive expressions).
use crate::common::{Report, Tier, Violation};
use crate::luaref::interp::{ext, Interp, NumFmt};
use crate::luaref::value::{ExtRet, Value};
use crate::luaref::{self, Mode, Outcome};
use darklua_core::nodes::{Expression, LastStatement};
use darklua_core::process::{Evaluator, LuaValue};
use rayon::prelude::*;
use serde_json::json;

const NUMBERS: &[&str] = &[
    "0", "-0.0", "1", "2", "3", "0.1", "0.2", "0.3", "0.5", "1e15", "1e16", "1e21", "1e100", "1e308", "5e-324", "9007199254740992",
    "9007199254740994", "0.3333333333333333", "1/0", "-1/0", "0/0", "-1", "10", "255", "1e14", "123456789012345", "1e-5", "0.0001",
    // more than 14 significant digits, few of them non-zero (%.14g rounds them away)
    "0.30000000000000004", "1.0000000000000002", "100.00000000000001", "123456789.00000001", "99999999999999.99",
];
const STRINGS: &[&str] = &["\"\"", "\"a\"", "\"b\"", "\"1\"", "\"10\"", "\"9\"", "\" 1 \"", "\"0x10\"", "\"1e2\"", "\"1_0\"", "\"0b1\"", "\"abc\"", "\"\\xff\"", "\"-1\"", "\"- 1\"", "\"1 2\"", "\"0x1p4\"", "\"0x1p64\"", "\"0xffp60\"",
    // escapes directly followed by a digit / hex digit
    "\"\\0101\"", "\"\\0971\"", "\"\\x411\"", "\"\\u{41}1\"", "\"a\\z  1\"", "\"\\1\\02\\0033\"", "'\\65\\066'"];
const OPAQUE: &[&str] = &["id", "id.f", "id[1]", "id()", "...", "{}", "function() end", "id:m()", "(id())", "(...)", "eff()", "id2"];
const SMALL: &[&str] = &["nil", "true", "false", "0", "1", "0.1", "\"a\"", "\"1\"", "1/0", "id", "id()", "...", "{}", "eff()"];
const BINOPS: &[&str] = &["+", "-", "*", "/", "//", "%", "^", "..", "==", "~=", "<", "<=", ">", ">=", "and", "or"];
const UNOPS: &[&str] = &["not ", "-", "#"];

fn leaves() -> Vec<String> {
    let mut v: Vec<String> = vec!["nil".into(), "true".into(), "false".into()];
    v.extend(NUMBERS.iter().map(|s| s.to_string()));
    v.extend(STRINGS.iter().map(|s| s.to_string()));
    v.extend(OPAQUE.iter().map(|s| s.to_string()));
    v
}

fn wrap(s: &str) -> String {
    // operands that are themselves operator expressions are parenthesised to keep the intended nesting
    if s.contains(' ') || s.starts_with('-') || s.contains('/') {
        format!("({})", s)
    } else {
        s.to_owned()
    }
}

fn depth1(leaves: &[String]) -> Vec<String> {
    let mut out = Vec::new();
    for u in UNOPS {
        for l in leaves {
            out.push(format!("{}{}", u, wrap(l)));
        }
    }
    for op in BINOPS {
        for a in leaves {
            for b in leaves {
                out.push(format!("{} {} {}", wrap(a), op, wrap(b)));
            }
        }
    }
    for l in leaves {
        out.push(format!("({})", l));
        out.push(format!("{} :: any", wrap(l)));
        out.push(format!("`a{{{}}}b`", l));
        out.push(format!("`{{{}}}`", l));
    }
    for c1 in ["true", "false", "nil", "id"] {
        for c2 in ["true", "false", "id", "id()"] {
            for c3 in ["true", "nil", "id"] {
                out.push(format!("if {} then 1 elseif {} then 2 else 3", c1, c2));
                out.push(format!("if {} then \"a\" elseif {} then nil elseif {} then false else id", c1, c2, c3));
                out.push(format!("if {} then id() elseif {} then ... elseif {} then 3 else 4", c1, c2, c3));
            }
        }
    }
    for c in ["true", "false", "nil", "id", "0", "id()"] {
        for a in ["1", "nil", "id()", "\"s\"", "..."] {
            for b in ["2", "false", "id()", "..."] {
                out.push(format!("if {} then {} else {}", c, a, b));
            }
        }
    }
    out
}

/// if-expressions: every choice of {constant, call} for each result, with known and unknown conditions
fn if_products() -> Vec<String> {
    let mut out = Vec::new();
    // every choice of {constant, call} for each result, with known and unknown conditions: which results may run
    // (`eff` is a function in every environment, so that a result can run whatever `id` is)
    for c1 in ["true", "false", "nil", "id"] {
        for r1 in ["1", "eff()"] {
            for c2 in ["true", "false", "id", "id()"] {
                for r2 in ["2", "eff()"] {
                    for e in ["3", "eff()", "..."] {
                        out.push(format!("if {} then {} elseif {} then {} else {}", c1, r1, c2, r2, e));
                        for c3 in ["true", "nil", "id"] {
                            for r3 in ["4", "eff()"] {
                                out.push(format!("if {} then {} elseif {} then {} elseif {} then {} else {}", c1, r1, c2, r2, c3, r3, e));
                            }
                        }
                    }
                }
            }
        }
    }
    out
}

pub fn expressions(tier: Tier) -> Vec<String> {
    let l = leaves();
    let mut out = l.clone();
    out.extend(depth1(&l));
    out.extend(if_products());
    let small: Vec<String> = SMALL.iter().map(|s| s.to_string()).collect();
    let inner = depth1(&small);
    // depth 2 over the small alphabet
    let outer_ops: &[&str] = match tier {
        Tier::Quick => &["+", "..", "==", "<", "and", "or", "%", "//"],
        Tier::Thorough => BINOPS,
    };
    for e in &inner {
        for u in UNOPS {
            out.push(format!("{}({})", u, e));
        }
        for op in outer_ops {
            for s in &small {
                out.push(format!("({}) {} {}", e, op, wrap(s)));
                out.push(format!("{} {} ({})", wrap(s), op, e));
            }
        }
    }
    out
}

struct Env {
    name: &'static str,
    setup: fn(&mut Interp),
}

const ENVS: &[Env] = &[
    Env { name: "nil", setup: |_| {} },
    // `id2` is a second value of the same kind as `id` (another table with the same metamethods, ...)
    Env {
        name: "false",
        setup: |it| {
            it.set_global("id", Value::Bool(false));
            it.set_global("id2", Value::Bool(true));
        },
    },
    Env {
        name: "0",
        setup: |it| {
            it.set_global("id", Value::Num(0.0));
            it.set_global("id2", Value::Num(1.0));
        },
    },
    Env {
        name: "string",
        setup: |it| {
            it.set_global("id", Value::str("s"));
            it.set_global("id2", Value::str("t"));
        },
    },
    Env {
        name: "logging table",
        setup: |it| {
            // an ET table: every metamethod logs
            let block = luaref::parser::parse(b"id = ET'e' id2 = ET'e2'", Mode::Luau).unwrap().block;
            let _ = it.run_chunk(&block, "setup");
            it.log.clear();
        },
    },
    Env {
        name: "function returning 1, 2",
        setup: |it| {
            it.set_global("id", ext("id", ExtRet::OneTwo));
            it.set_global("id2", ext("id2", ExtRet::OneTwo));
        },
    },
];

fn lua_value_matches(v: &LuaValue, serialized_first: &str) -> bool {
    match v {
        LuaValue::Nil => serialized_first == "nil",
        LuaValue::True => serialized_first == "true",
        LuaValue::False => serialized_first == "false",
        LuaValue::Number(n) => {
            if n.is_nan() {
                serialized_first == "NaN"
            } else {
                serialized_first == format!("{:?}", n)
            }
        }
        LuaValue::String(s) => serialized_first == luaref::interp::quote_bytes(s),
        LuaValue::Function => serialized_first == "<fn>" || serialized_first.starts_with("<ext") || serialized_first.starts_with("<builtin"),
        LuaValue::Table => serialized_first.starts_with('#') || serialized_first.starts_with("<ET"),
        LuaValue::Unknown => true,
    }
}

struct Case {
    evaluations: u64,
    nontrivial: bool,
    skipped_unspecified: u64,
    errors_excused: u64,
    violations: Vec<Violation>,
}

fn first_value(ret: &str) -> String {
    // split the canonical serialisation at top-level ", "
    let mut depth = 0i32;
    let mut in_str = false;
    let b = ret.as_bytes();
    let mut i = 0;
    while i < b.len() {
        let c = b[i];
        if in_str {
            if c == b'\\' {
                i += 1;
            } else if c == b'"' {
                in_str = false;
            }
        } else {
            match c {
                b'"' => in_str = true,
                b'{' => depth += 1,
                b'}' => depth -= 1,
                b',' if depth == 0 && b.get(i + 1) == Some(&b' ') => return ret[..i].to_owned(),
                _ => {}
            }
        }
        i += 1;
    }
    if ret.is_empty() {
        "nil".to_owned()
    } else {
        ret.to_owned()
    }
}

fn run_case(expr_text: &str) -> Option<Case> {
    let src = format!("return {}", expr_text);
    let block = crate::dl::parse(&src, false).ok()?;
    let expr: Expression = match block.get_last_statement()? {
        LastStatement::Return(r) => r.iter_expressions().next()?.clone(),
        _ => return None,
    };
    let evaluator = Evaluator::default();
    let value = evaluator.evaluate(&expr);
    let side_effects = evaluator.has_side_effects(&expr);
    let multiple = evaluator.can_return_multiple_values(&expr);
    let definite = !matches!(value, LuaValue::Unknown);
    let mut case = Case {
        evaluations: 0,
        nontrivial: definite || !side_effects || !multiple,
        skipped_unspecified: 0,
        errors_excused: 0,
        violations: vec![],
    };
    // only `id` differs between the environments
    let uses_opaque = expr_text.contains("id");
    let envs: &[Env] = if uses_opaque { ENVS } else { &ENVS[..1] };
    let program = format!("local function __f(...) return {} end\nreturn __f(7, 8)", expr_text);
    let count_program = format!("local function __f(...) return select('#', {}) end\nreturn __f(7, 8)", expr_text);
    for env in envs {
        // value claim: it must hold on both runtimes - Lua 5.1 (when the text is plain Lua) and Luau (whose number
        // formatting is modelled by two candidate formats, either of which is accepted); an error excuses the claim
        let mut accepted = !definite;
        let mut accepted_lua51 = !definite;
        let mut judged_lua51 = false;
        let mut judged_luau = false;
        let mut any_judged = false;
        let mut renders = Vec::new();
        let mut effect_log: Option<Vec<String>> = None;
        for (mode, fmt) in [(Mode::Luau, NumFmt::ShortestSci), (Mode::Luau, NumFmt::ShortestFixed), (Mode::Lua51, NumFmt::G14)] {
            if mode == Mode::Lua51 && (expr_text.contains("//") || expr_text.contains('`') || expr_text.contains("::") || expr_text.contains("if ")) {
                continue;
            }
            let obs = luaref::observe(&program, mode, 5000, &|it| {
                (env.setup)(it);
                it.set_global("eff", ext("eff", ExtRet::OneTwo));
                it.numfmt = fmt;
            });
            case.evaluations += 1;
            match &obs.outcome {
                Outcome::Returned(r) => {
                    any_judged = true;
                    let first = first_value(r);
                    if mode == Mode::Lua51 {
                        judged_lua51 = true;
                        if lua_value_matches(&value, &first) {
                            accepted_lua51 = true;
                        }
                    } else {
                        judged_luau = true;
                        if lua_value_matches(&value, &first) {
                            accepted = true;
                        }
                    }
                    renders.push(format!("{:?}/{:?}: {}", mode, fmt, first));
                    if effect_log.is_none() {
                        effect_log = Some(obs.log.clone());
                    }
                }
                Outcome::Error(_) => {
                    any_judged = true;
                    if mode == Mode::Lua51 {
                        judged_lua51 = true;
                        accepted_lua51 = true;
                    } else {
                        judged_luau = true;
                        accepted = true;
                    }
                    case.errors_excused += 1;
                    if effect_log.is_none() {
                        effect_log = Some(obs.log.clone());
                    }
                }
                Outcome::Poison(_) => case.skipped_unspecified += 1,
                _ => {}
            }
        }
        if any_judged && ((judged_luau && !accepted) || (judged_lua51 && !accepted_lua51)) {
            case.violations.push(Violation {
                finding: classify_value(expr_text, &value, &renders),
                summary: format!(
                    "evaluate(`{}`) = {:?} but execution (environment id = {}) yields {:?}",
                    expr_text, value, env.name, renders
                ),
                replay: json!({"kind": "evaluator", "expression": expr_text, "claim": format!("{:?}", value), "environment": env.name, "execution": renders}),
            });
        }
        if !side_effects {
            if let Some(log) = &effect_log {
                if !log.is_empty() {
                    case.violations.push(Violation {
                        finding: None,
                        summary: format!("has_side_effects(`{}`) = false but execution (id = {}) performs {:?}", expr_text, env.name, log),
                        replay: json!({"kind": "evaluator", "expression": expr_text, "claim": "no side effects", "environment": env.name, "log": log}),
                    });
                }
            }
        }
        if !multiple {
            let obs = luaref::observe(&count_program, Mode::Luau, 5000, &|it| {
                (env.setup)(it);
                it.set_global("eff", ext("eff", ExtRet::OneTwo));
            });
            case.evaluations += 1;
            if let Outcome::Returned(r) = &obs.outcome {
                if r != "1.0" {
                    case.violations.push(Violation {
                        finding: None,
                        summary: format!("can_return_multiple_values(`{}`) = false but it yields {} values (id = {})", expr_text, r, env.name),
                        replay: json!({"kind": "evaluator", "expression": expr_text, "claim": "single value", "environment": env.name, "count": r}),
                    });
                }
            }
        }
    }
    Some(case)
}

fn classify_value(_expr: &str, _value: &LuaValue, _renders: &[String]) -> Option<String> {
    None
}

pub fn run(tier: Tier) -> Report {
    let mut report = Report::new("C08", "exploration", tier);
    report.rule = "every expression text of the grammar (3 constants, 28 numbers incl. -0, inf, nan, 2^53 neighbours, tiny/huge, 16 strings incl. \
        numeric-looking and non-UTF-8, 12 opaque leaves (`id` and `id2` in 6 environments: nil, false, 0, a string, a table whose metamethods log, a function; `eff()`, a logging function in all of them); all unary and 16 binary operators over all leaf pairs, parentheses, casts, interpolations, \
        if-expressions; depth 2 over a 14-leaf alphabet; if-expressions with 2-4 branches x {constant, call} results x known/unknown conditions) is parsed by darklua and given to Evaluator::{evaluate, has_side_effects, \
        can_return_multiple_values}; each claim is compared with luaref executing the expression for every assignment of the opaque leaves from \
        {nil, false, 0, string, logging-metatable table, function returning two values}, in Luau and (when the text is plain Lua) Lua 5.1 mode; a \
        case is non-trivial when the evaluator makes at least one claim (definite value, no side effects, single value)"
        .to_owned();
    report.assumptions = vec![
        "a definite value is wrong only if neither dialect (Lua 5.1 %.14g / Luau shortest digits in fixed or scientific form) produces it; an execution error always excuses".to_owned(),
        "runs reaching behaviour the reference does not define are skipped and counted".to_owned(),
    ];
    let exprs = expressions(tier);
    let results: Vec<(usize, Option<Case>)> = exprs.par_iter().enumerate().map(|(i, e)| (i, run_case(e))).collect();
    let mut distinct = std::collections::HashSet::new();
    for (i, c) in results {
        match c {
            None => report.add("not_parsed_by_darklua", 1),
            Some(c) => {
                report.evaluations += c.evaluations;
                if c.nontrivial && distinct.insert(crate::common::hash128(&exprs[i])) {
                    report.distinct_nontrivial += 1;
                }
                report.add("skipped_unspecified_runs", c.skipped_unspecified);
                report.add("runs_excused_by_error", c.errors_excused);
                report.violations.extend(c.violations);
            }
        }
    }
    report.set("expressions", exprs.len() as u64);
    let n = exprs.len();
    for i in [0, n / 7, n / 3, n / 2, 2 * n / 3, n - 1] {
        report.sample(json!(exprs[i]));
    }
    report
}
