//! C20 — File and rule filters select exactly the matching files (Engine C, differential against filter-free runs).
use crate::common::{Report, Tier, Violation};
use crate::dl;
use rayon::prelude::*;
use serde_json::json;
use std::collections::HashMap;

const FILES: &[(&str, &str)] = &[
    ("src/a.lua", "-- c1\nlocal value1 = 1\ndo end\nreturn value1\n"),
    ("src/b.luau", "-- c2\nlocal value2 = 2\ndo end\nreturn value2\n"),
    ("src/lib/a.lua", "-- c3\nlocal value3 = 3\ndo end\nreturn value3\n"),
    ("src/lib/x/c.lua", "-- c4\nlocal value4 = 4\ndo end\nreturn value4\n"),
    ("src/lib/src/a.lua", "-- c5\nlocal value5 = 5\ndo end\nreturn value5\n"),
];

const PATTERNS: &[&str] = &["**", "*", "**/*.lua", "src/*.lua", "src/**", "src/lib/a.lua", "**/a.lua", "*.luau", "src/lib/**/*.lua", "**/lib/*", "src/*/a.lua", "nothing", "src/a.lua", "a.lua", "lib/a.lua", "**/src/a.lua", "src/lib", "src", "src/lib/"];
const RULES: &[&str] = &["remove_comments", "rename_variables", "remove_empty_do"];

/// independent matcher for the pattern alphabet: `**` = any number of directories, `*` = any run of non-separator characters
pub fn glob_match(pattern: &str, path: &str) -> bool {
    fn seg_match(p: &[u8], s: &[u8]) -> bool {
        if p.is_empty() {
            return s.is_empty();
        }
        if p[0] == b'*' {
            (0..=s.len()).any(|i| seg_match(&p[1..], &s[i..]))
        } else {
            !s.is_empty() && p[0] == s[0] && seg_match(&p[1..], &s[1..])
        }
    }
    fn go(p: &[&str], s: &[&str]) -> bool {
        if p.is_empty() {
            return s.is_empty();
        }
        if p[0] == "**" {
            (0..=s.len()).any(|i| go(&p[1..], &s[i..]))
        } else {
            !s.is_empty() && seg_match(p[0].as_bytes(), s[0].as_bytes()) && go(&p[1..], &s[1..])
        }
    }
    let p: Vec<&str> = pattern.split('/').collect();
    let s: Vec<&str> = path.split('/').collect();
    go(&p, &s)
}

fn selected(apply: &[&str], skip: &[&str], path: &str) -> bool {
    if !apply.is_empty() && !apply.iter().any(|p| glob_match(p, path)) {
        return false;
    }
    !skip.iter().any(|p| glob_match(p, path))
}

fn filter_json(apply: &[&str], skip: &[&str], list_form: bool) -> String {
    let mut parts = Vec::new();
    // an empty list written out (`apply_to_files: []`) means the same as leaving the key out
    if apply.is_empty() && list_form {
        parts.push("apply_to_files: []".to_owned());
    }
    if skip.is_empty() && list_form && apply.len() % 2 == 1 {
        parts.push("skip_files: []".to_owned());
    }
    let fmt = |v: &[&str]| {
        if v.len() == 1 && !list_form {
            format!("'{}'", v[0])
        } else {
            format!("[{}]", v.iter().map(|s| format!("'{}'", s)).collect::<Vec<_>>().join(", "))
        }
    };
    if !apply.is_empty() {
        parts.push(format!("apply_to_files: {}", fmt(apply)));
    }
    if !skip.is_empty() {
        parts.push(format!("skip_files: {}", fmt(skip)));
    }
    parts.join(", ")
}

/// output of one file under a filter-free pipeline made of the given rules (memoised by the caller)
fn reference(content: &str, path: &str, rules: &[&str]) -> Result<String, String> {
    let cfg = format!("{{rules: [{}]}}", rules.iter().map(|r| format!("'{}'", r)).collect::<Vec<_>>().join(", "));
    let (res, errors) = dl::process_memory(&[(path, content)], &cfg, path, None)?;
    if !errors.is_empty() {
        return Err(format!("reference run failed: {:?}", errors));
    }
    res.get(path).map_err(|e| format!("{:?}", e))
}

struct Case {
    files: Vec<usize>,
    apply: Vec<&'static str>,
    skip: Vec<&'static str>,
    /// None = top level, Some(i) = on rule i
    placement: Option<usize>,
    in_place: bool,
    list_form: bool,
}

fn run_case(c: &Case, refs: &HashMap<(usize, Vec<&'static str>), String>) -> (u64, Option<Violation>) {
    let filter = filter_json(&c.apply, &c.skip, c.list_form);
    let rules_json: Vec<String> = RULES
        .iter()
        .enumerate()
        .map(|(i, r)| if c.placement == Some(i) && !filter.is_empty() { format!("{{rule: '{}', {}}}", r, filter) } else { format!("'{}'", r) })
        .collect();
    let cfg = if c.placement.is_none() && !filter.is_empty() {
        format!("{{rules: [{}], {}}}", rules_json.join(", "), filter)
    } else {
        format!("{{rules: [{}]}}", rules_json.join(", "))
    };
    let files: Vec<(&str, &str)> = c.files.iter().map(|i| FILES[*i]).collect();
    let output = if c.in_place { None } else { Some("out") };
    let (res, errors) = match dl::process_memory(&files, &cfg, "src", output) {
        Ok(x) => x,
        Err(e) => return (0, Some(Violation { finding: None, summary: format!("{} with configuration {}", e, cfg), replay: json!({"config": cfg}) })),
    };
    let mut problems = Vec::new();
    if !errors.is_empty() {
        problems.push(format!("errors reported: {:?}", errors));
    }
    let mut judged = 0;
    for i in &c.files {
        let (path, content) = FILES[*i];
        judged += 1;
        let out_path = if c.in_place { path.to_owned() } else { format!("out/{}", &path[4..]) };
        let got = res.get(&out_path).ok();
        let expected_rules: Vec<&'static str> = match c.placement {
            None => {
                if selected(&c.apply, &c.skip, path) {
                    RULES.to_vec()
                } else {
                    // excluded at the top level: no rule runs; with an output directory nothing is written (observation, not judged)
                    if c.in_place {
                        if got.as_deref() != Some(content) {
                            problems.push(format!("{} is excluded but was modified in place", path));
                        }
                    } else if let Some(g) = &got {
                        if g != content {
                            problems.push(format!("{} is excluded but its output differs from the source", path));
                        }
                    }
                    continue;
                }
            }
            Some(ri) => RULES.iter().enumerate().filter(|(i, _)| *i != ri || selected(&c.apply, &c.skip, path)).map(|(_, r)| *r).collect(),
        };
        let want = &refs[&(*i, expected_rules.clone())];
        match got {
            Some(g) if &g == want => {}
            other => problems.push(format!("{}: expected the output of rules {:?}\n    expected {:?}\n    got      {:?}", path, expected_rules, want, other)),
        }
    }
    // nothing else may be written
    for (path, _) in FILES {
        if !c.files.iter().any(|i| FILES[*i].0 == *path) {
            let out_path = if c.in_place { path.to_string() } else { format!("out/{}", &path[4..]) };
            if res.get(&out_path).is_ok() {
                problems.push(format!("unexpected output {}", out_path));
            }
        }
    }
    if problems.is_empty() {
        (judged, None)
    } else {
        (
            judged,
            Some(Violation {
                finding: None,
                summary: format!("{}\n--- configuration {}\n--- files {:?} in_place={}", problems.join("\n"), cfg, files.iter().map(|f| f.0).collect::<Vec<_>>(), c.in_place),
                replay: json!({"kind": "filters", "config": cfg, "files": files.iter().map(|f| f.0).collect::<Vec<_>>(), "in_place": c.in_place, "problems": problems}),
            }),
        )
    }
}

/// a file excluded by the top-level filters is not read as Lua at all: whatever it contains, the run has no error and the other
/// files are written exactly as without it; patterns written with a leading `./` select what they select without it
fn excluded_file_cases() -> (u64, Vec<Violation>) {
    let mut n = 0;
    let mut violations = Vec::new();
    let healthy: &[(&str, &str)] = &[("src/a.lua", "-- c1\nlocal value1 = 1\ndo end\nreturn value1\n"), ("src/lib/b.lua", "-- c2\ndo end\nreturn 2\n")];
    let broken_contents: &[(&str, &str)] = &[
        ("syntax of another dialect", "local x <close> = f()\ngoto done\n::done::\nreturn x // 2 | 1\n"),
        ("not Lua at all", "{{ template }}\n"),
        ("a require that cannot be found", "return require('./missing')\n"),
    ];
    for (what, broken) in broken_contents {
        for (filters, bundle) in [
            ("skip_files: ['**/vendor/**']", false),
            ("skip_files: 'src/vendor/old.lua'", false),
            ("apply_to_files: ['src/*.lua', 'src/lib/**']", false),
            ("skip_files: ['**/vendor/**']", true),
        ] {
            for (fail_fast, in_place) in [(false, false), (true, false), (false, true)] {
                n += 1;
                let config = format!("{{rules: ['remove_comments', 'remove_empty_do'], {}{}}}", filters, if bundle { ", bundle: {require_mode: 'path'}" } else { "" });
                let mut files: Vec<(&str, &str)> = healthy.to_vec();
                files.push(("src/vendor/old.lua", broken));
                let run = |files: &[(&str, &str)]| -> Result<(std::collections::BTreeMap<String, String>, Vec<String>), String> {
                    let resources = darklua_core::Resources::from_memory();
                    for (p, c) in files {
                        let _ = resources.write(p, c);
                    }
                    let _ = resources.write(".darklua.json", &config);
                    let mut options = darklua_core::Options::new("src").with_configuration_at(".darklua.json");
                    if !in_place {
                        options = options.with_output("out");
                    }
                    if fail_fast {
                        options = options.fail_fast();
                    }
                    let res = resources.clone();
                    let outcome = crate::common::guarded(move || darklua_core::process(&res, options)).map_err(|p| format!("PANIC: {}", p))?;
                    let errors = match outcome {
                        Ok(tree) => tree.collect_errors().iter().map(|e| e.to_string()).collect(),
                        Err(e) => vec![format!("FATAL {}", e)],
                    };
                    let mut got = std::collections::BTreeMap::new();
                    for path in resources.walk("") {
                        got.insert(path.to_string_lossy().replace('\\', "/"), resources.get(&path).unwrap_or_default());
                    }
                    Ok((got, errors))
                };
                let with = run(&files);
                let without = run(healthy);
                let problem = match (with, without) {
                    (Ok((got, errors)), Ok((mut want, _))) => {
                        // the excluded file itself stays where it is, untouched
                        want.insert("src/vendor/old.lua".to_owned(), broken.to_string());
                        if !errors.is_empty() {
                            Some(format!("errors although the only faulty file is excluded: {:?}", errors))
                        } else if got != want {
                            let diff: Vec<&String> = want.keys().chain(got.keys()).filter(|k| got.get(*k) != want.get(*k)).collect();
                            Some(format!("files differ from the run without the excluded file: {:?}", diff))
                        } else {
                            None
                        }
                    }
                    (Err(e), _) | (_, Err(e)) => Some(e),
                };
                if let Some(problem) = problem {
                    violations.push(Violation {
                        finding: None,
                        summary: format!("{}\n--- src/vendor/old.lua ({}) excluded by `{}`; config {} fail_fast={} in_place={}", problem, what, filters, config, fail_fast, in_place),
                        replay: json!({"kind": "excluded file", "config": config, "content": broken, "fail_fast": fail_fast, "in_place": in_place}),
                    });
                }
            }
        }
    }
    // `./` in front of a pattern
    for (plain, dotted) in [("src/**", "./src/**"), ("src/*.lua", "./src/*.lua"), ("**/b.lua", "./**/b.lua"), ("src/lib/b.lua", "./src/lib/b.lua"), ("src/lib/b.lua", "src/./lib/b.lua")] {
        for key in ["apply_to_files", "skip_files"] {
            for on_rule in [false, true] {
                n += 1;
                let config = |pattern: &str| {
                    if on_rule {
                        format!("{{rules: [{{rule: 'remove_comments', {}: '{}'}}, 'remove_empty_do']}}", key, pattern)
                    } else {
                        format!("{{rules: ['remove_comments', 'remove_empty_do'], {}: ['{}']}}", key, pattern)
                    }
                };
                let run = |config: &str| dl::process_memory(healthy, config, "src", Some("out")).map(|(r, e)| (healthy.iter().map(|(p, _)| r.get(p.replacen("src/", "out/", 1)).ok()).collect::<Vec<_>>(), e));
                let (a, b) = (run(&config(plain)), run(&config(dotted)));
                if a != b {
                    violations.push(Violation {
                        finding: None,
                        summary: format!("`{}: {}` gives {:?} but the same pattern written `{}` gives {:?} (rule filter: {})", key, plain, a, dotted, b, on_rule),
                        replay: json!({"kind": "dotted pattern", "key": key, "plain": plain, "dotted": dotted, "on_rule": on_rule}),
                    });
                }
            }
        }
    }
    // directory names with dots, patterns that leave the working directory: the rule runs exactly on the files the pattern names
    let dotted_tree: &[(&str, &str)] = &[("src/v1./c.lua", "-- c\nreturn 1\n"), ("src/v1x.lua", "-- c\nreturn 2\n"), ("src/.hidden/d.lua", "-- c\nreturn 3\n"), ("src/a..b/e.lua", "-- c\nreturn 4\n")];
    for pattern in ["src/v1./*.lua", "src/v1*.lua", "src/.hidden/*.lua", "src/a..b/**", "../src/*.lua", "src/*/../v1x.lua", "./src/v1./c.lua", "src/v1./c.lua"] {
        for key in ["apply_to_files", "skip_files"] {
            n += 1;
            let config = format!("{{rules: [{{rule: 'remove_comments', {}: '{}'}}]}}", key, pattern);
            if let Ok((r, errors)) = dl::process_memory(dotted_tree, &config, "src", Some("out")) {
                if !errors.is_empty() {
                    continue; // a refused pattern is an answer
                }
                let normalized = pattern.trim_start_matches("./");
                for (path, _) in dotted_tree {
                    let matches = glob_match(normalized, path);
                    let rule_runs = if key == "apply_to_files" { matches } else { !matches };
                    let out = r.get(path.replacen("src/", "out/", 1)).unwrap_or_default();
                    if out.contains("-- c") == rule_runs {
                        violations.push(Violation {
                            finding: None,
                            summary: format!("`{}: {}`: remove_comments {} run on {} (output {:?})", key, pattern, if rule_runs { "must" } else { "must not" }, path, out),
                            replay: json!({"kind": "dotted names", "key": key, "pattern": pattern, "path": path}),
                        });
                    }
                }
            }
        }
    }
    (n, violations)
}

pub fn run(tier: Tier) -> Report {
    let mut report = Report::new("C20", "exploration", tier);
    report.rule = "trees = all 31 non-empty subsets of {src/a.lua, src/b.luau, src/lib/a.lua, src/lib/x/c.lua, src/lib/src/a.lua}; apply and skip lists each from {none} + the 16 patterns \
        (`**`, `*`, `**/*.lua`, `src/*.lua`, `src/**`, a literal path, `**/a.lua`, `*.luau`, `src/lib/**/*.lua`, `**/lib/*`, `src/*/a.lua`, a non-matching literal) \
        (+ all pairs in thorough), in string and list form; placed at the top level or on rule 1, 2 or 3 of [remove_comments, rename_variables, remove_empty_do]; in place \
        and with an output directory. Oracle: an independent glob matcher decides which rules run on each file; the file's output must equal what darklua writes for that \
        file alone under the filter-free configuration made of exactly those rules; a file excluded at the top level must be byte-identical where an output exists; no other \
        file is written. non-trivial = (case, file) pairs judged"
        .to_owned();
    report.assumptions = vec!["pattern alphabet restricted to literals, `*` and `**`, where the wax dialect and the reference matcher coincide".to_owned()];
    // reference outputs per (file, rule subset)
    let mut refs: HashMap<(usize, Vec<&'static str>), String> = HashMap::new();
    for (i, (path, content)) in FILES.iter().enumerate() {
        for mask in 0..8u32 {
            let rules: Vec<&'static str> = RULES.iter().enumerate().filter(|(k, _)| mask & (1 << k) != 0).map(|(_, r)| *r).collect();
            match reference(content, path, &rules) {
                Ok(t) => {
                    refs.insert((i, rules), t);
                }
                Err(e) => crate::common::machinery_error(&e),
            }
        }
    }
    let mut lists: Vec<Vec<&'static str>> = vec![vec![]];
    for p in PATTERNS {
        lists.push(vec![*p]);
    }
    // a few lists of two patterns in the quick tier too (any of them selects)
    if tier == Tier::Quick {
        for pair in [["src/*.lua", "src/lib/**"], ["**/a.lua", "*.luau"], ["src/lib/a.lua", "src/b.luau"], ["nothing", "**/c.lua"]] {
            lists.push(pair.to_vec());
        }
    }
    if tier == Tier::Thorough {
        for (i, a) in PATTERNS.iter().enumerate() {
            for b in &PATTERNS[i + 1..] {
                lists.push(vec![*a, *b]);
            }
        }
    }
    let mut cases = Vec::new();
    for mask in 1..32u32 {
        let files: Vec<usize> = (0..5).filter(|k| mask & (1 << k) != 0).collect();
        for apply in &lists {
            for skip in &lists {
                if tier == Tier::Thorough && apply.len() == 2 && skip.len() == 2 && mask != 31 {
                    continue; // pairs x pairs only on the full tree
                }
                for placement in [None, Some(0), Some(1), Some(2)] {
                    for in_place in [true, false] {
                        cases.push(Case { files: files.clone(), apply: apply.clone(), skip: skip.clone(), placement, in_place, list_form: (apply.len() + skip.len() + mask as usize) % 2 == 0 });
                    }
                }
            }
        }
    }
    let results: Vec<(u64, Option<Violation>)> = cases.par_iter().map(|c| run_case(c, &refs)).collect();
    for (n, v) in results {
        report.evaluations += 1;
        report.distinct_nontrivial += n;
        if let Some(v) = v {
            report.violations.push(v);
        }
    }
    let (n, v) = excluded_file_cases();
    report.evaluations += n;
    report.distinct_nontrivial += n;
    report.violations.extend(v);
    report.set("excluded_file_and_dotted_pattern_cases", n);
    report.set("cases", cases.len() as u64);
    report.set("patterns", json!(PATTERNS));
    report.sample(json!({"files": ["src/a.lua", "src/lib/a.lua"], "apply": ["**/a.lua"], "skip": ["src/*.lua"], "placement": "rule 2"}));
    report
}
