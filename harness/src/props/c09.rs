//! C09 — Renaming variables never changes which binding a name refers to (Engine C, resolver oracle).
use crate::common::{Report, Tier, Violation};
use crate::dl::{self, Gen};
use crate::gen::programs as g;
use crate::luaref::lexer::{self, is_keyword, Tok};
use crate::luaref::resolve::{resolve, Binding};
use crate::luaref::{parser, Mode};
use darklua_core::Resources;
use rayon::prelude::*;
use serde_json::json;
use std::collections::{HashMap, HashSet};

const DEFAULT_GLOBALS: &[&str] = &[
    "arg", "assert", "collectgarbage", "coroutine", "debug", "dofile", "error", "gcinfo", "getfenv", "getmetatable", "io", "ipairs", "load",
    "loadfile", "loadstring", "math", "module", "newproxy", "next", "os", "package", "pairs", "pcall", "print", "rawequal", "rawget", "rawset",
    "require", "select", "setfenv", "setmetatable", "string", "table", "tonumber", "tostring", "type", "unpack", "xpcall", "_G", "_VERSION",
];

struct Config {
    json: String,
    forbidden: Vec<String>,
}

fn configs() -> Vec<Config> {
    let mut out = Vec::new();
    for include in [false, true] {
        for (globals, forbidden) in [
            (None, DEFAULT_GLOBALS.iter().map(|s| s.to_string()).collect::<Vec<_>>()),
            (Some("[]"), vec![]),
            (Some("['a']"), vec!["a".to_owned()]),
            (Some("['$default','b']"), {
                let mut v: Vec<String> = DEFAULT_GLOBALS.iter().map(|s| s.to_string()).collect();
                v.push("b".to_owned());
                v
            }),
        ] {
            let mut json = String::from("{rule:'rename_variables'");
            if include {
                json.push_str(",include_functions:true");
            }
            if let Some(g) = globals {
                json.push_str(&format!(",globals:{}", g));
            }
            json.push('}');
            out.push(Config { json, forbidden });
        }
    }
    out
}

fn many_locals(n: usize, nested: usize) -> String {
    // `nested` functions, each declaring n live locals and reading all of them (and the enclosing ones) at the end
    let mut s = String::new();
    let mut all: Vec<String> = Vec::new();
    for d in 0..nested {
        if d > 0 {
            s.push_str(&format!("local function f{}()\n", d));
        }
        for i in 0..n {
            let name = format!("v{}_{}", d, i);
            s.push_str(&format!("local {} = {}\n", name, i));
            all.push(name);
        }
    }
    s.push_str("local sum = 0\n");
    // read every live local once
    for chunk in all.chunks(20) {
        s.push_str(&format!("sum = sum + {}\n", chunk.join(" + ")));
    }
    s.push_str("E1(sum, a, b, c, d, e, do_, if_, in_, or_)\n");
    for d in (1..nested).rev() {
        s.push_str(&format!("return sum\nend\nE1(f{}())\n", d));
    }
    s.push_str("return sum\n");
    s
}

pub fn seeds(tier: Tier) -> Vec<String> {
    let mut out: Vec<String> = g::scope_programs(tier.pick(2, 3));
    out.extend(g::family_programs());
    for n in [1, 26, 52, 53, 54, 55, 56, 115, 190] {
        out.push(many_locals(n, 1));
    }
    for nested in [2, 3] {
        out.push(many_locals(190, nested));
        out.push(many_locals(60, nested));
    }
    for p in [
        // names reused after scope exit, locals named like globals used later in the file
        "do local a = 1 E1(a) end\ndo local b = 2 E1(b) end\nE1(a, b)\n",
        "local print = E1\nprint(1)\ndo local print = EI print(2) end\nprint(3)\n",
        "local function f(a, b, ...) local c = a + b return c, ... end\nE1(f(1, 2, 3))\nE1(a, b, c)\n",
        "local a = 1\nlocal function g() return a, b end\nb = 2\nE1(g())\n",
        "local t = {}\nfunction t:m(a) return self, a end\nfunction t.f(self, a) return self, a end\nlocal self = 1\nE1(t:m(self), t.f(self, 2))\n",
        "local t = {a = 1, b = 2}\nlocal a = t.a\nlocal b = t[\"b\"]\nE1(a, b, t.a, t.b)\nt.a = a\nt[b] = a\n",
        "local o = {}\nfunction o.a.b.c:d(e) return self, e, o end\n",
        "for i = 1, 3 do local j = i for i = j, 2 do E1(i, j) end end\nfor k, v in pairs({}) do local k = v E1(k) end\n",
        "repeat local x = E1() local y = x until x and y\nwhile a do local a = a E1(a) break end\n",
        "local function rec(n) if n == 0 then return rec end return rec(n - 1) end\nlocal rec2 = function(n) return rec2 end\nE1(rec(1), rec2)\n",
        "local a <const> = 1\n",
        "local x: number = 1\nlocal y: typeof(x) = x\nlocal function f<T>(v: T, w: typeof(x)): typeof(x) local z: typeof(v) = v return z end\ntype A = typeof(y)\nE1(x, y, f)\n",
        "local M = require(\"m\")\nlocal v: M.Type = M.new()\nlocal w = v :: M.Other\nE1(M, v, w)\n",
        // annotations of loop variables are read before the loop variables exist; a type function only sees its own names
        "local k = 1\nfor k: typeof(k) in pairs({}) do E1(k) end\nfor k: typeof(k), v: typeof(k) in pairs({}) do E1(k, v) end\nfor k: typeof(k) = 1, 2 do E1(k) end\nE1(k)\n",
        "local f, p = 1, 2\nlocal function f(p: typeof(f), q: typeof(p), ...: typeof(q)): typeof(f)\n\treturn p, q, f\nend\nE1(f, p)\n",
        "local a, self = 1, 2\nlocal t = {}\nfunction t:m(a: typeof(self), b: typeof(a)): typeof(b)\n\treturn self, a, b\nend\nlocal g = function(a: typeof(a)): typeof(a) return a end\nE1(a, self, t, g)\n",
        "local x = 1\ntype function tf(x) return x end\ntype function tg(y) local x = y return x end\nE1(x)\n",
        "local x, y = 1, 2\ntype function th(a, b) local function x(y) return y end return x(a) end\nE1(x, y)\n",
        "local a, b, c = 1, 2, 3\nlocal f = function(a) return function(b) return function(c) return a, b, c end end end\nE1(f(a)(b)(c))\n",
        "if a then local a = 1 E1(a) elseif b then local b = 2 E1(b) else local c = 3 E1(c) end\nE1(a, b, c)\n",
        "local a = a\nlocal a = a\nlocal a, a = a, a\nE1(a)\n",
        "local s = `{a}{b}`\nlocal a = 1\nlocal u = `{a}{s}`\nE1(if a then s else u)\n",
        "local a = 1\na += 1\nlocal t = {}\nt[a] += a\nE1(a)\n",
        "for _ = 1, 2 do local _ = _ E1(_) end\nlocal _, _ = 1, 2\nE1(_)\n",
        "local function outer()\n  local up = 1\n  local function mid()\n    local function inner() up = up + 1 return up end\n    return inner\n  end\n  return mid\nend\nE1(outer()()())\n",
        "goto_ = 1\nlocal continue = 2\nlocal type = 3\nlocal export = 4\nE1(continue, type, export)\n",
    ] {
        out.push(p.to_owned());
    }
    out
}

struct Out {
    evaluations: u64,
    nontrivial: u64,
    skipped: u64,
    violations: Vec<Violation>,
}

fn check_one(code: &str, cfg: &Config, tokens: bool) -> Result<(bool, Option<String>), String> {
    // returns (changed, violation)
    let rule = dl::make_rule(&cfg.json);
    let mut block = dl::parse(code, tokens)?;
    let resources = Resources::from_memory();
    dl::apply(rule.as_ref(), &mut block, code, &resources, "src/test.lua")?;
    let gen = if tokens { Gen::Retain } else { Gen::Dense(80) };
    let out = dl::generate(&block, code, gen)?;
    if tokens {
        // retain_lines on the same tree: layout must be identical outside renamed identifiers; checked through tokens below
    }
    let pin = parser::parse(code.as_bytes(), Mode::Luau).map_err(|e| format!("SKIP reference cannot parse input: {}", e))?;
    let pout = match parser::parse(out.as_bytes(), Mode::Luau) {
        Ok(p) => p,
        Err(e) => return Ok((true, Some(format!("output does not parse: {}\n--- output\n{}", e, out)))),
    };
    let oin = resolve(&pin.block);
    let oout = resolve(&pout.block);
    if oin.len() != oout.len() {
        return Ok((true, Some(format!("identifier occurrence count changed: {} -> {}\n--- output\n{}", oin.len(), oout.len(), out))));
    }
    let file_globals: HashSet<&str> = oin.iter().filter_map(|o| if let Binding::Global(n) = &o.binding { Some(n.as_str()) } else { None }).collect();
    let mut decl_map: HashMap<usize, usize> = HashMap::new();
    let mut rev_map: HashMap<usize, usize> = HashMap::new();
    let mut changed = false;
    for (a, b) in oin.iter().zip(oout.iter()) {
        if a.name != b.name {
            changed = true;
        }
        if a.is_decl != b.is_decl {
            return Ok((true, Some(format!("occurrence `{}` -> `{}` changed between declaration and use\n--- output\n{}", a.name, b.name, out))));
        }
        match (&a.binding, &b.binding) {
            (Binding::Global(x), Binding::Global(y)) => {
                if x != y {
                    return Ok((true, Some(format!("global `{}` renamed to `{}`\n--- output\n{}", x, y, out))));
                }
            }
            (Binding::Local(x), Binding::Local(y)) => {
                let m = decl_map.entry(*x).or_insert(*y);
                let r = rev_map.entry(*y).or_insert(*x);
                if *m != *y || *r != *x {
                    return Ok((true, Some(format!(
                        "occurrence of `{}` (declaration #{}) now refers to another declaration (`{}`, #{})\n--- output\n{}",
                        a.name, x, b.name, y, out
                    ))));
                }
                if b.name != a.name {
                    if is_keyword(&b.name) {
                        return Ok((true, Some(format!("new name `{}` is a reserved word\n--- output\n{}", b.name, out))));
                    }
                    if cfg.forbidden.iter().any(|f| f == &b.name) {
                        return Ok((true, Some(format!("new name `{}` is a configured global\n--- output\n{}", b.name, out))));
                    }
                    if file_globals.contains(b.name.as_str()) {
                        return Ok((true, Some(format!("new name `{}` is a global used by the file\n--- output\n{}", b.name, out))));
                    }
                }
                if a.name == "self" && !a.is_decl && b.name != "self" {
                    // a reference to the implicit self must stay `self`; an explicit local named self may be renamed
                    let implicit = !oin.iter().any(|o| o.is_decl && matches!(&o.binding, Binding::Local(d) if d == x));
                    if implicit {
                        return Ok((true, Some(format!("implicit `self` renamed to `{}`\n--- output\n{}", b.name, out))));
                    }
                }
            }
            (x, y) => {
                return Ok((true, Some(format!(
                    "occurrence `{}` was bound to {:?} and `{}` is now bound to {:?}\n--- output\n{}",
                    a.name, x, b.name, y, out
                ))));
            }
        }
    }
    // alpha-equivalence of the token streams: everything except resolved local identifiers is identical
    let local_in: HashSet<usize> = oin.iter().filter(|o| matches!(o.binding, Binding::Local(_))).map(|o| o.pos).collect();
    let tin = lexer::lex(code.as_bytes(), Mode::Luau).map_err(|e| e.to_string())?;
    let tout = lexer::lex(out.as_bytes(), Mode::Luau).map_err(|e| e.to_string())?;
    if tokens {
        if tin.tokens.len() != tout.tokens.len() {
            return Ok((true, Some(format!("token count changed {} -> {}\n--- output\n{}", tin.tokens.len(), tout.tokens.len(), out))));
        }
        for (a, b) in tin.tokens.iter().zip(tout.tokens.iter()) {
            let same = match (&a.tok, &b.tok) {
                (Tok::Name(_), Tok::Name(_)) if local_in.contains(&a.start) => true,
                (Tok::Number(x), Tok::Number(y)) => x.to_bits() == y.to_bits(),
                (x, y) => x == y,
            };
            if !same {
                return Ok((true, Some(format!("token {:?} became {:?} (not a local identifier)\n--- output\n{}", a.tok, b.tok, out))));
            }
        }
        if tin.comments.iter().map(|c| &c.text).collect::<Vec<_>>() != tout.comments.iter().map(|c| &c.text).collect::<Vec<_>>() {
            return Ok((true, Some(format!("comments changed\n--- output\n{}", out))));
        }
    }
    Ok((changed, None))
}

pub fn run(tier: Tier) -> Report {
    let mut report = Report::new("C09", "exploration", tier);
    report.rule = "programs = all sequences of n scope statements over a 46-statement alphabet (declarations/uses of a, b, _ at every scope \
        kind, same-named loop variables read by their own header, parameters shadowing function names, repeat-until conditions), the C01 \
        families, parametrised programs with N live locals (N up to 190 x 3 nested functions = 570 simultaneously live names, forcing two-letter \
        names past `do if in or`), methods with implicit and explicit self, type annotations with typeof(local) and Module.Type; x include_functions \
        in {false,true} x globals in {default, [], ['a'], ['$default','b']} x both parser modes; oracle: luaref resolver on input and output \
        (occurrence i -> same declaration or same global; declaration maps form a bijection), forbidden-name check, token-stream equality outside \
        local identifiers; a case is non-trivial when at least one identifier was renamed"
        .to_owned();
    report.assumptions = vec!["the luaref resolver implements Lua's lexical scoping (validated by the interpreter's conformance vectors that depend on scoping)".to_owned()];
    let seeds = seeds(tier);
    let cfgs = configs();
    let results: Vec<Out> = seeds
        .par_iter()
        .map(|code| {
            let mut o = Out { evaluations: 0, nontrivial: 0, skipped: 0, violations: vec![] };
            for cfg in &cfgs {
                for tokens in [true, false] {
                    o.evaluations += 1;
                    match check_one(code, cfg, tokens) {
                        Ok((changed, None)) => {
                            if changed {
                                o.nontrivial += 1;
                            }
                        }
                        Ok((_, Some(v))) => o.violations.push(Violation {
                            finding: None,
                            summary: format!("{} (config {} tokens={})\n--- input\n{}", v, cfg.json, tokens, if code.len() > 1500 { &code[..1500] } else { code }),
                            replay: json!({"kind": "rename", "seed": code, "rule": cfg.json, "tokens": tokens}),
                        }),
                        Err(e) => {
                            if e.starts_with("PANIC") {
                                o.violations.push(Violation { finding: None, summary: format!("{}\n{}", e, code), replay: json!({"seed": code, "rule": cfg.json}) });
                            } else {
                                o.skipped += 1;
                            }
                        }
                    }
                }
            }
            o
        })
        .collect();
    for o in results {
        report.evaluations += o.evaluations;
        report.distinct_nontrivial += o.nontrivial;
        report.add("skipped_not_parsed", o.skipped);
        report.violations.extend(o.violations);
    }
    report.set("programs", seeds.len() as u64);
    report.set("configurations", cfgs.iter().map(|c| c.json.clone()).collect::<Vec<_>>());
    let n = seeds.len();
    for i in [0, n / 4, n / 2, n - 30, n - 1] {
        let s = &seeds[i.min(n - 1)];
        report.sample(json!(if s.len() > 400 { &s[..400] } else { s }));
    }
    report
}
