//! Shared infrastructure: reports, evidence files, known findings, replays, panic capture.
use serde_json::{json, Map, Value};
use std::cell::RefCell;
use std::collections::BTreeMap;
use std::panic::{catch_unwind, AssertUnwindSafe};
use std::path::PathBuf;
use std::sync::Mutex;
use std::time::Instant;

pub const VERIF_DIR: &str = "/verif";

#[derive(Clone, Copy, PartialEq, Eq, Debug)]
pub enum Tier {
    Quick,
    Thorough,
}

impl Tier {
    pub fn name(self) -> &'static str {
        match self {
            Tier::Quick => "quick",
            Tier::Thorough => "thorough",
        }
    }
    pub fn pick<T>(self, quick: T, thorough: T) -> T {
        match self {
            Tier::Quick => quick,
            Tier::Thorough => thorough,
        }
    }
}

#[derive(Clone, Debug)]
pub struct Violation {
    /// known-finding identifier the classifier attributes this violation to (input class + bug model matched)
    pub finding: Option<String>,
    /// one line: what failed
    pub summary: String,
    /// everything needed to re-execute the case without the explorer
    pub replay: Value,
}

pub struct Report {
    pub property: &'static str,
    pub level: &'static str,
    pub tier: Tier,
    pub seed: i64,
    pub start: Instant,
    pub evaluations: u64,
    pub distinct_nontrivial: u64,
    pub states: u64,
    pub transitions: u64,
    pub traces_validated: u64,
    pub rule: String,
    pub samples: Vec<Value>,
    pub exhaustive: bool,
    pub extra: Map<String, Value>,
    pub assumptions: Vec<String>,
    pub violations: Vec<Violation>,
}

impl Report {
    pub fn new(property: &'static str, level: &'static str, tier: Tier) -> Report {
        let seed = std::env::var("VERIF_SEED").ok().and_then(|s| s.parse().ok()).unwrap_or(0);
        Report {
            property,
            level,
            tier,
            seed,
            start: Instant::now(),
            evaluations: 0,
            distinct_nontrivial: 0,
            states: 0,
            transitions: 0,
            traces_validated: 0,
            rule: String::new(),
            samples: Vec::new(),
            exhaustive: true,
            extra: Map::new(),
            assumptions: Vec::new(),
            violations: Vec::new(),
        }
    }
    pub fn set(&mut self, key: &str, v: impl Into<Value>) {
        self.extra.insert(key.to_owned(), v.into());
    }
    pub fn add(&mut self, key: &str, n: u64) {
        let cur = self.extra.get(key).and_then(|v| v.as_u64()).unwrap_or(0);
        self.extra.insert(key.to_owned(), json!(cur + n));
    }
    pub fn sample(&mut self, v: Value) {
        if self.samples.len() < 8 {
            self.samples.push(v);
        }
    }
}

#[derive(Clone, Debug)]
pub struct KnownFinding {
    pub id: String,
    pub property: String,
    pub status: String,
    pub what: String,
}

pub fn load_known_findings() -> Vec<KnownFinding> {
    let path = PathBuf::from(VERIF_DIR).join("known_findings.json");
    let text = match std::fs::read_to_string(&path) {
        Ok(t) => t,
        Err(_) => return Vec::new(),
    };
    let v: Value = serde_json::from_str(&text).expect("known_findings.json must be valid JSON");
    let mut out = Vec::new();
    for e in v["findings"].as_array().cloned().unwrap_or_default() {
        out.push(KnownFinding {
            id: e["id"].as_str().unwrap_or("").to_owned(),
            property: e["property"].as_str().unwrap_or("").to_owned(),
            status: e["status"].as_str().unwrap_or("known").to_owned(),
            what: e["what"].as_str().unwrap_or("").to_owned(),
        });
    }
    out
}

fn hash_hex(s: &str) -> String {
    format!("{:016x}", xxhash_rust::xxh3::xxh3_64(s.as_bytes()))
}

/// writes evidence + replays, prints verdict lines, returns the process exit code
pub fn finish(mut report: Report) -> i32 {
    let known = load_known_findings();
    let mut known_hits: BTreeMap<String, (u64, String)> = BTreeMap::new();
    let mut new_violations: Vec<(String, Violation)> = Vec::new();
    let mut seen_new = std::collections::HashSet::new();
    for v in std::mem::take(&mut report.violations) {
        let listed = v.finding.as_ref().and_then(|id| {
            known
                .iter()
                .find(|k| &k.id == id && k.property == report.property && k.status == "known")
        });
        match listed {
            Some(k) => {
                let e = known_hits.entry(k.id.clone()).or_insert((0, k.what.clone()));
                e.0 += 1;
            }
            None => {
                let key = hash_hex(&format!("{}{}", v.summary, v.replay));
                if seen_new.insert(key.clone()) {
                    new_violations.push((key, v));
                }
            }
        }
    }
    // seeded / regression runs keep their replays with their evidence, away from the committed ones
    let replay_dir = match std::env::var("VERIF_EVIDENCE_DIR") {
        Ok(d) if !d.is_empty() => PathBuf::from(d).join("replays").join(report.property),
        _ => PathBuf::from(VERIF_DIR).join("replays").join(report.property),
    };
    let _ = std::fs::remove_dir_all(&replay_dir);
    let mut exit = 0;
    for (id, (count, what)) in &known_hits {
        println!("KNOWN-FINDING: property={} {} [{}; {} cases matched input class and bug model]", report.property, what, id, count);
    }
    let mut shown = 0;
    // group new violations by finding id / summary class to keep output readable
    for (key, v) in &new_violations {
        let _ = std::fs::create_dir_all(&replay_dir);
        let path = replay_dir.join(format!("{}.json", key));
        let body = json!({
            "property": report.property,
            "summary": v.summary,
            "attributed_finding": v.finding,
            "replay": v.replay,
        });
        let _ = std::fs::write(&path, serde_json::to_string_pretty(&body).unwrap());
        if shown < 25 {
            println!("VIOLATION property={} replay={}", report.property, path.display());
            println!("  {}", v.summary.replace('\n', "\n  "));
            shown += 1;
        }
        exit = 1;
    }
    if new_violations.len() > shown {
        println!("  ... {} more violations (replays written)", new_violations.len() - shown);
    }
    let wall = report.start.elapsed().as_secs_f64();
    let mut coverage = Map::new();
    coverage.insert("evaluations".into(), json!(report.evaluations));
    coverage.insert("distinct_nontrivial".into(), json!(report.distinct_nontrivial));
    coverage.insert("rule".into(), json!(report.rule));
    coverage.insert("samples".into(), Value::Array(report.samples.clone()));
    coverage.insert("exhaustive".into(), json!(report.exhaustive));
    if report.states > 0 || report.level == "model_checking" {
        coverage.insert("states".into(), json!(report.states));
        coverage.insert("transitions".into(), json!(report.transitions));
        coverage.insert("traces_validated_against_impl".into(), json!(report.traces_validated));
    }
    coverage.insert(
        "known_findings_matched".into(),
        json!(known_hits.iter().map(|(k, (c, _))| (k.clone(), json!(c))).collect::<Map<String, Value>>()),
    );
    for (k, v) in report.extra.iter() {
        coverage.insert(k.clone(), v.clone());
    }
    let evidence = json!({
        "property_id": report.property,
        "tier": report.tier.name(),
        "seed": report.seed,
        "level": report.level,
        "coverage": Value::Object(coverage),
        "assumptions": report.assumptions,
        "wall_s": wall,
        "violations": new_violations.len(),
    });
    // runs against a deliberately broken tree (seedrun.sh) keep their evidence apart from the registered one
    let dir = match std::env::var("VERIF_EVIDENCE_DIR") {
        Ok(d) if !d.is_empty() => PathBuf::from(d),
        _ => PathBuf::from(VERIF_DIR).join("evidence"),
    };
    let _ = std::fs::create_dir_all(&dir);
    std::fs::write(dir.join(format!("{}.json", report.property)), serde_json::to_string_pretty(&evidence).unwrap())
        .expect("write evidence");
    println!(
        "{} {}: evaluations={} nontrivial={} states={} transitions={} known={} new_violations={} wall={:.1}s exhaustive={}",
        report.property,
        report.tier.name(),
        report.evaluations,
        report.distinct_nontrivial,
        report.states,
        report.transitions,
        known_hits.values().map(|v| v.0).sum::<u64>(),
        new_violations.len(),
        wall,
        report.exhaustive
    );
    exit
}

pub fn machinery_error(msg: &str) -> ! {
    println!("MACHINERY-ERROR {}", msg);
    std::process::exit(2);
}

thread_local! {
    static LAST_PANIC: RefCell<Option<String>> = const { RefCell::new(None) };
}

static HOOK_INSTALLED: Mutex<bool> = Mutex::new(false);

pub fn install_panic_hook() {
    let mut g = HOOK_INSTALLED.lock().unwrap();
    if *g {
        return;
    }
    *g = true;
    std::panic::set_hook(Box::new(|info| {
        let msg = if let Some(s) = info.payload().downcast_ref::<&str>() {
            s.to_string()
        } else if let Some(s) = info.payload().downcast_ref::<String>() {
            s.clone()
        } else {
            "panic".to_owned()
        };
        let loc = info.location().map(|l| format!("{}:{}", l.file(), l.line())).unwrap_or_default();
        LAST_PANIC.with(|p| *p.borrow_mut() = Some(format!("{} at {}", msg, loc)));
    }));
}

/// runs `f`, converting a panic into Err(message)
pub fn guarded<T>(f: impl FnOnce() -> T) -> Result<T, String> {
    match catch_unwind(AssertUnwindSafe(f)) {
        Ok(v) => Ok(v),
        Err(_) => Err(LAST_PANIC.with(|p| p.borrow_mut().take()).unwrap_or_else(|| "panic".to_owned())),
    }
}

pub fn hash128(s: &str) -> u128 {
    xxhash_rust::xxh3::xxh3_128(s.as_bytes())
}

pub struct HashWriter(pub xxhash_rust::xxh3::Xxh3);
impl std::fmt::Write for HashWriter {
    fn write_str(&mut self, s: &str) -> std::fmt::Result {
        self.0.update(s.as_bytes());
        Ok(())
    }
}

/// 128-bit hash of a Debug rendering without materialising the string
pub fn debug_hash<T: std::fmt::Debug>(v: &T) -> u128 {
    use std::fmt::Write;
    let mut w = HashWriter(xxhash_rust::xxh3::Xxh3::new());
    write!(w, "{:?}", v).unwrap();
    w.0.digest128()
}
