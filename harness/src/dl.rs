//! Glue to the implementation under test (darklua_core, built from /repo's working tree).
use crate::common::guarded;
use darklua_core::generator::{DenseLuaGenerator, LuaGenerator, ReadableLuaGenerator, TokenBasedLuaGenerator};
use darklua_core::nodes::Block;
use darklua_core::rules::{ContextBuilder, Rule};
use darklua_core::{Parser, Resources};

#[derive(Clone, Copy, Debug, PartialEq, Eq, Hash)]
pub enum Gen {
    Retain,
    Dense(usize),
    Readable(usize),
}

impl Gen {
    pub fn name(&self) -> String {
        match self {
            Gen::Retain => "retain_lines".to_owned(),
            Gen::Dense(n) => format!("dense({})", n),
            Gen::Readable(n) => format!("readable({})", n),
        }
    }
    pub fn config_json(&self) -> String {
        match self {
            Gen::Retain => "\"retain_lines\"".to_owned(),
            Gen::Dense(n) => format!("{{name:\"dense\",column_span:{}}}", n),
            Gen::Readable(n) => format!("{{name:\"readable\",column_span:{}}}", n),
        }
    }
}

pub fn parse(code: &str, preserve_tokens: bool) -> Result<Block, String> {
    let parser = if preserve_tokens { Parser::default().preserve_tokens() } else { Parser::default() };
    match guarded(|| parser.parse(code)) {
        Ok(Ok(b)) => Ok(b),
        Ok(Err(e)) => Err(format!("parse error: {}", e)),
        Err(p) => Err(format!("PANIC in parser: {}", p)),
    }
}

pub fn make_rule(json5_text: &str) -> Box<dyn Rule> {
    json5::from_str::<Box<dyn Rule>>(json5_text).unwrap_or_else(|e| panic!("bad rule json `{}`: {}", json5_text, e))
}

pub fn try_make_rule(json5_text: &str) -> Result<Box<dyn Rule>, String> {
    json5::from_str::<Box<dyn Rule>>(json5_text).map_err(|e| e.to_string())
}

/// applies one rule exactly as the worker does (same Context construction)
pub fn apply(rule: &dyn Rule, block: &mut Block, code: &str, resources: &Resources, path: &str) -> Result<(), String> {
    match guarded(|| {
        let context = ContextBuilder::new(path, resources, code).build();
        rule.process(block, &context)
    }) {
        Ok(Ok(())) => Ok(()),
        Ok(Err(e)) => Err(format!("rule error: {}", e)),
        Err(p) => Err(format!("PANIC in rule {}: {}", rule.get_name(), p)),
    }
}

pub fn generate(block: &Block, code: &str, gen: Gen) -> Result<String, String> {
    guarded(|| match gen {
        Gen::Retain => {
            let mut g = TokenBasedLuaGenerator::new(code);
            g.write_block(block);
            g.into_string()
        }
        Gen::Dense(n) => {
            let mut g = DenseLuaGenerator::new(n);
            g.write_block(block);
            g.into_string()
        }
        Gen::Readable(n) => {
            let mut g = ReadableLuaGenerator::new(n);
            g.write_block(block);
            g.into_string()
        }
    })
    .map_err(|p| format!("PANIC in generator {}: {}", gen.name(), p))
}

pub const DEFAULT_RULE_NAMES: &[&str] = &[
    "remove_spaces",
    "remove_comments",
    "compute_expression",
    "remove_unused_if_branch",
    "remove_unused_while",
    "filter_after_early_return",
    "remove_empty_do",
    "remove_unused_variable",
    "remove_method_definition",
    "convert_index_to_field",
    "remove_nil_declaration",
    "rename_variables",
    "remove_function_call_parens",
];

/// process in-memory files through the public entry point; returns (outputs, errors)
pub fn process_memory(
    files: &[(&str, &str)],
    config_json5: &str,
    input: &str,
    output: Option<&str>,
) -> Result<(Resources, Vec<String>), String> {
    let resources = Resources::from_memory();
    for (p, c) in files {
        resources.write(p, c).map_err(|e| format!("{:?}", e))?;
    }
    resources.write(".darklua.json", config_json5).map_err(|e| format!("{:?}", e))?;
    let mut options = darklua_core::Options::new(input).with_configuration_at(".darklua.json");
    if let Some(o) = output {
        options = options.with_output(o);
    }
    let res = resources.clone();
    match guarded(move || darklua_core::process(&res, options)) {
        Ok(Ok(tree)) => {
            let errors = tree.collect_errors().iter().map(|e| e.to_string()).collect();
            Ok((resources, errors))
        }
        Ok(Err(e)) => Ok((resources, vec![format!("FATAL: {}", e)])),
        Err(p) => Err(format!("PANIC in process: {}", p)),
    }
}

/// the `darklua` command line binary, built from /repo's working tree into a target directory of its own
pub fn darklua_binary() -> Result<std::path::PathBuf, String> {
    let target = std::path::PathBuf::from(crate::common::VERIF_DIR).join("target").join("darklua-bin");
    let out = std::process::Command::new("cargo")
        .args(["build", "--offline", "--bin", "darklua"])
        .current_dir("/repo")
        .env("CARGO_TARGET_DIR", &target)
        .env("CARGO_NET_OFFLINE", "true")
        .output()
        .map_err(|e| format!("cannot run cargo: {}", e))?;
    if !out.status.success() {
        return Err(format!("building the darklua binary failed: {}", String::from_utf8_lossy(&out.stderr).lines().rev().take(15).collect::<Vec<_>>().join(" | ")));
    }
    Ok(target.join("debug").join("darklua"))
}
