use darklua_core::{process, Options, Resources};

const CONFIG: &str = r#"{ "generator": "dense", "bundle": { "require_mode": "path" }, "rules": [] }"#;

fn opts() -> Options {
    Options::new("src").with_output("out").with_configuration_at(".darklua.json")
}

fn fresh(files: &[(&str, &str)]) -> String {
    let resources = Resources::from_memory();
    for (p, c) in files {
        resources.write(p, c).unwrap();
    }
    process(&resources, opts()).unwrap().result().unwrap();
    resources.get("out/main.lua").unwrap()
}

#[test]
fn nearer_luaurc_added() {
    let main = "local m = require('@lib/mod')\nreturn m";
    let resources = Resources::from_memory();
    resources.write(".darklua.json", CONFIG).unwrap();
    resources.write(".luaurc", r#"{ "aliases": { "lib": "libs/a" } }"#).unwrap();
    resources.write("libs/a/mod.lua", "return 'A'").unwrap();
    resources.write("libs/b/mod.lua", "return 'B'").unwrap();
    resources.write("src/main.lua", main).unwrap();
    let mut tree = process(&resources, opts()).unwrap();
    assert!(resources.get("out/main.lua").unwrap().contains("'A'"));

    resources.write("src/.luaurc", r#"{ "aliases": { "lib": "../libs/b" } }"#).unwrap();
    tree.source_changed("src/.luaurc");
    tree.process(&resources, opts()).unwrap();
    let incremental = resources.get("out/main.lua").unwrap();

    let expected = fresh(&[
        (".darklua.json", CONFIG),
        (".luaurc", r#"{ "aliases": { "lib": "libs/a" } }"#),
        ("src/.luaurc", r#"{ "aliases": { "lib": "../libs/b" } }"#),
        ("libs/a/mod.lua", "return 'A'"),
        ("libs/b/mod.lua", "return 'B'"),
        ("src/main.lua", main),
    ]);
    assert_eq!(incremental, expected);
}
