use darklua_core::{process, Options, Resources};

const CONFIG: &str = r#"{ "generator": "dense", "bundle": { "require_mode": "path" }, "rules": [] }"#;

fn opts() -> Options {
    Options::new("src").with_output("out").with_configuration_at(".darklua.json")
}

fn fresh(files: &[(&str, &str)]) -> String {
    let resources = Resources::from_memory();
    for (p, c) in files {
        resources.write(p, c).unwrap();
    }
    process(&resources, opts()).unwrap().result().unwrap();
    resources.get("out/main.lua").unwrap()
}

#[test]
fn shadowing_module_added() {
    let resources = Resources::from_memory();
    resources.write(".darklua.json", CONFIG).unwrap();
    resources.write("src/main.lua", "local m = require('./mod')\nreturn m").unwrap();
    resources.write("src/mod.lua", "return 'from lua'").unwrap();
    let mut tree = process(&resources, opts()).unwrap();
    let first = resources.get("out/main.lua").unwrap();
    assert!(first.contains("from lua"));

    resources.write("src/mod.luau", "return 'from luau'").unwrap();
    tree.add_source("src/mod.luau", Some("out/mod.luau".into()));
    tree.process(&resources, opts()).unwrap();
    let incremental = resources.get("out/main.lua").unwrap();

    let expected = fresh(&[
        (".darklua.json", CONFIG),
        ("src/main.lua", "local m = require('./mod')\nreturn m"),
        ("src/mod.lua", "return 'from lua'"),
        ("src/mod.luau", "return 'from luau'"),
    ]);
    assert_eq!(incremental, expected);
}

