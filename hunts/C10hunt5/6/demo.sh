#!/bin/sh
# In-place processing (`darklua process src src --watch`): one edit makes the worker
# reprocess forever, because every pass rewrites the watched source it just read.
BIN="$(cd "$(dirname "$0")/../.." && pwd)/target/debug/darklua"
[ -x "$BIN" ] || BIN="$(pwd)/target/debug/darklua"
WORK="$(mktemp -d)"
cd "$WORK" || exit 2
mkdir src
echo '{ "generator": "dense", "rules": [] }' > .darklua.json
echo 'return 1' > src/a.lua

timeout 10 "$BIN" process src src --watch -vvv > log.txt 2>&1 &
sleep 2
echo 'return   2' > src/a.lua      # a single edit
sleep 7
passes=$(grep -c 'changes detected' log.txt)
writes=$(grep -c 'successfully processed `' log.txt)
wait
echo "passes triggered after ONE edit in 7 seconds: $passes (files written: $writes)"
rm -rf "$WORK"
# correct behaviour: the edit is processed once (the write of the pass may cost one more, idle pass)
if [ "$passes" -gt 3 ]; then
    echo "VIOLATION: the watcher loops on its own writes"
    exit 1
fi
exit 0
