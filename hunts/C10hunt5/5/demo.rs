use std::{fs, path::{Path, PathBuf}};
use darklua_core::{process, Options, Resources};

fn root(name: &str) -> PathBuf {
    let dir = std::env::temp_dir().join(format!("c10hunt_{}_{}", name, std::process::id()));
    let _ = fs::remove_dir_all(&dir);
    fs::create_dir_all(&dir).unwrap();
    dir
}
fn write(path: &Path, content: &str) {
    fs::create_dir_all(path.parent().unwrap()).unwrap();
    fs::write(path, content).unwrap();
}
fn listing(dir: &Path) -> Vec<String> {
    let mut all = Vec::new();
    let mut stack = vec![dir.to_path_buf()];
    while let Some(d) = stack.pop() {
        for e in fs::read_dir(&d).unwrap() {
            let p = e.unwrap().path();
            let rel = p.strip_prefix(dir).unwrap().display().to_string();
            if p.is_dir() { all.push(format!("{}/", rel)); stack.push(p); }
            else { all.push(format!("{} = {}", rel, fs::read_to_string(&p).unwrap())); }
        }
    }
    all.sort();
    all
}

#[test]
fn empty_directory_left() {
    let r = root("emptydir");
    write(&r.join(".darklua.json"), r#"{ "generator": "dense", "rules": [] }"#);
    write(&r.join("src/a.lua"), "return 1");
    write(&r.join("src/sub/b.lua"), "return 2");
    let resources = Resources::from_file_system();
    let opts = || Options::new(r.join("src")).with_output(r.join("out")).with_configuration_at(r.join(".darklua.json"));
    let mut tree = process(&resources, opts()).unwrap();

    fs::remove_dir_all(r.join("src/sub")).unwrap();
    tree.remove_source(r.join("src/sub"));
    tree.process(&resources, opts()).unwrap();
    let incremental = listing(&r.join("out"));

    fs::remove_dir_all(r.join("out")).unwrap();
    process(&resources, opts()).unwrap().result().unwrap();
    let expected = listing(&r.join("out"));
    assert_eq!(incremental, expected);
}

