use darklua_core::{process, Options, Resources};

/// Runs darklua on in-memory files and returns the generated `out.lua`.
fn run(config: &str, files: &[(&str, &str)], input: &str) -> String {
    let resources = Resources::from_memory();
    resources.write(".darklua.json", config).unwrap();
    for (path, content) in files {
        resources.write(path, content).unwrap();
    }
    process(&resources, Options::new(input).with_output("out.lua"))
        .unwrap()
        .result()
        .unwrap();
    resources.get("out.lua").unwrap()
}

/// 1-based line of the first occurrence of `marker` in `output`.
fn line_of(output: &str, marker: &str) -> usize {
    output
        .lines()
        .position(|line| line.contains(marker))
        .map(|index| index + 1)
        .unwrap_or_else(|| panic!("marker {} not found in output:\n{}", marker, output))
}

// C04: with the default rules and the retain_lines generator, surviving code must stay
// on its original line.
#[test]
fn folded_string_with_new_lines_does_not_move_following_code() {
    // every statement is on the line given by its marker
    let input = "local s = 'a\\nb\\nc\\nd\\ne\\nf\\ng\\nhhhhhhhhhhhh' .. 'x' print('L1', s)\nprint('L2')\n";
    // default rules (remove_spaces, remove_comments, compute_expression, ...)
    let output = run(r#"{ "generator": "retain_lines" }"#, &[("main.lua", input)], "main.lua");

    assert_eq!(line_of(&output, "L1"), 1, "output:\n{}", output);
    assert_eq!(line_of(&output, "L2"), 2, "output:\n{}", output);
}
