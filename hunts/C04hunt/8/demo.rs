use darklua_core::{process, Options, Resources};

/// Runs darklua on in-memory files and returns the generated `out.lua`.
fn run(config: &str, files: &[(&str, &str)], input: &str) -> String {
    let resources = Resources::from_memory();
    resources.write(".darklua.json", config).unwrap();
    for (path, content) in files {
        resources.write(path, content).unwrap();
    }
    process(&resources, Options::new(input).with_output("out.lua"))
        .unwrap()
        .result()
        .unwrap();
    resources.get("out.lua").unwrap()
}

/// 1-based line of the first occurrence of `marker` in `output`.
fn line_of(output: &str, marker: &str) -> usize {
    output
        .lines()
        .position(|line| line.contains(marker))
        .map(|index| index + 1)
        .unwrap_or_else(|| panic!("marker {} not found in output:\n{}", marker, output))
}

// C04: append_text_comment at the start shifts every line by the same known amount
// (one line for a one line comment).
#[test]
fn append_text_comment_shifts_every_line_by_one() {
    let input = "local x: { ['key']: number } = f('L1')
print('L2')
return x
";
    let output = run(
        r#"{ "generator": "retain_lines", "rules": ["remove_spaces", { "rule": "append_text_comment", "text": "hello" }] }"#,
        &[("main.luau", input)],
        "main.luau",
    );

    assert_eq!(line_of(&output, "L1"), 1 + 1, "output:\n{}", output);
    assert_eq!(line_of(&output, "L2"), 2 + 1, "output:\n{}", output);
}

const FIRST_MODULE: &str = "print('A1')
print('A2')
print('A3')
return nil
";

const SECOND_MODULE: &str = "local x: { ['key']: number } = f('B1')
print('B2')
print('B3')
return x
";

const MAIN: &str = "local a = require('./first')
local b = require('./second')
print('M3')
";

// C04: bundling shifts every line of a file by the same known amount.
#[test]
fn bundled_module_lines_are_all_shifted_by_the_same_amount() {
    let output = run(
        r#"{ "generator": "retain_lines", "rules": ["remove_spaces"], "bundle": { "require_mode": "path" } }"#,
        &[
            ("src/main.luau", MAIN),
            ("src/first.luau", FIRST_MODULE),
            ("src/second.luau", SECOND_MODULE),
        ],
        "src/main.luau",
    );

    // the first module has 5 lines (4 lines and the end of the file)
    assert_eq!(line_of(&output, "A1"), 1, "output:\n{}", output);
    assert_eq!(line_of(&output, "B1"), 5 + 1, "output:\n{}", output);
    assert_eq!(line_of(&output, "B2"), 5 + 2, "output:\n{}", output);
    assert_eq!(line_of(&output, "B3"), 5 + 3, "output:\n{}", output);
}
