use darklua_core::{process, Options, Resources};

/// Runs darklua on in-memory files and returns the generated `out.lua`.
fn run(config: &str, files: &[(&str, &str)], input: &str) -> String {
    let resources = Resources::from_memory();
    resources.write(".darklua.json", config).unwrap();
    for (path, content) in files {
        resources.write(path, content).unwrap();
    }
    process(&resources, Options::new(input).with_output("out.lua"))
        .unwrap()
        .result()
        .unwrap();
    resources.get("out.lua").unwrap()
}

/// 1-based line of the first occurrence of `marker` in `output`.
fn line_of(output: &str, marker: &str) -> usize {
    output
        .lines()
        .position(|line| line.contains(marker))
        .map(|index| index + 1)
        .unwrap_or_else(|| panic!("marker {} not found in output:\n{}", marker, output))
}

// C04: with the default rules and the retain_lines generator, surviving code must stay
// on its original line.
#[test]
fn branch_kept_as_else_block_stays_on_its_line() {
    let input = "if a() then
  print('L2')
elseif true then
  print('L4')
else
  print('L6')
end
";
    // default rules (remove_spaces, ..., remove_unused_if_branch, ...)
    let output = run(r#"{ "generator": "retain_lines" }"#, &[("main.lua", input)], "main.lua");

    assert_eq!(line_of(&output, "L2"), 2, "output:\n{}", output);
    assert_eq!(line_of(&output, "L4"), 4, "output:\n{}", output);
}

#[test]
fn if_expression_branch_kept_as_else_result_stays_on_its_line() {
    let input = "local x = if a() then 'L1'
  elseif true then
    f('L3')
  else
    f('L5')
return x
";
    let output = run(
        r#"{ "generator": "retain_lines", "rules": ["remove_spaces", "remove_unused_if_branch"] }"#,
        &[("main.luau", input)],
        "main.luau",
    );

    assert_eq!(line_of(&output, "L3"), 3, "output:\n{}", output);
}
