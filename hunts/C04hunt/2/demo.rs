use darklua_core::{process, Options, Resources};

/// Runs darklua on in-memory files and returns the generated `out.lua`.
fn run(config: &str, files: &[(&str, &str)], input: &str) -> String {
    let resources = Resources::from_memory();
    resources.write(".darklua.json", config).unwrap();
    for (path, content) in files {
        resources.write(path, content).unwrap();
    }
    process(&resources, Options::new(input).with_output("out.lua"))
        .unwrap()
        .result()
        .unwrap();
    resources.get("out.lua").unwrap()
}

/// 1-based line of the first occurrence of `marker` in `output`.
fn line_of(output: &str, marker: &str) -> usize {
    output
        .lines()
        .position(|line| line.contains(marker))
        .map(|index| index + 1)
        .unwrap_or_else(|| panic!("marker {} not found in output:\n{}", marker, output))
}

// C04: with the default rules and the retain_lines generator, surviving code must stay
// on its original line.
#[test]
fn index_key_converted_to_field_stays_on_its_line() {
    // the key of the index expression is written on line 4
    let input = "local t = {}\nprint(t\n[\n'L4'])\n";
    // default rules (remove_spaces, ..., convert_index_to_field, ...)
    let output = run(r#"{ "generator": "retain_lines" }"#, &[("main.lua", input)], "main.lua");

    // the key survives (as the field name `L4`): it must still be on line 4
    assert_eq!(line_of(&output, "L4"), 4, "output:\n{}", output);
}

#[test]
fn table_key_converted_to_field_stays_on_its_line() {
    let input = "return {\n[\n'L3'\n] = true,\n}\n";
    let output = run(
        r#"{ "generator": "retain_lines", "rules": ["remove_spaces", "convert_index_to_field"] }"#,
        &[("main.lua", input)],
        "main.lua",
    );

    assert_eq!(line_of(&output, "L3"), 3, "output:\n{}", output);
}
