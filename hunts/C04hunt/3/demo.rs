use darklua_core::{process, Options, Resources};

/// Runs darklua on in-memory files and returns the generated `out.lua`.
fn run(config: &str, files: &[(&str, &str)], input: &str) -> String {
    let resources = Resources::from_memory();
    resources.write(".darklua.json", config).unwrap();
    for (path, content) in files {
        resources.write(path, content).unwrap();
    }
    process(&resources, Options::new(input).with_output("out.lua"))
        .unwrap()
        .result()
        .unwrap();
    resources.get("out.lua").unwrap()
}

/// 1-based line of the first occurrence of `marker` in `output`.
fn line_of(output: &str, marker: &str) -> usize {
    output
        .lines()
        .position(|line| line.contains(marker))
        .map(|index| index + 1)
        .unwrap_or_else(|| panic!("marker {} not found in output:\n{}", marker, output))
}

const MODULE: &str = "print('X1')
-- documentation of the type
-- on several lines

type A = number
print('X6')
return nil
";

const MAIN: &str = "local m = require('./module')
print('M2')
";

// C04: bundling shifts every line of a file by the same known amount.
#[test]
fn bundled_module_lines_are_all_shifted_by_the_same_amount() {
    let output = run(
        r#"{ "generator": "retain_lines", "rules": [], "bundle": { "require_mode": "path" } }"#,
        &[("src/main.luau", MAIN), ("src/module.luau", MODULE)],
        "src/main.luau",
    );

    let shift_line_1 = line_of(&output, "X1") - 1;
    let shift_line_6 = line_of(&output, "X6") - 6;

    assert_eq!(
        shift_line_1, shift_line_6,
        "line 1 and line 6 of the module are not shifted by the same amount, output:\n{}",
        output
    );
}
