use darklua_core::{process, Options, Resources};

/// Runs darklua on in-memory files and returns the generated `out.lua`.
fn run(config: &str, files: &[(&str, &str)], input: &str) -> String {
    let resources = Resources::from_memory();
    resources.write(".darklua.json", config).unwrap();
    for (path, content) in files {
        resources.write(path, content).unwrap();
    }
    process(&resources, Options::new(input).with_output("out.lua"))
        .unwrap()
        .result()
        .unwrap();
    resources.get("out.lua").unwrap()
}

/// 1-based line of the first occurrence of `marker` in `output`.
fn line_of(output: &str, marker: &str) -> usize {
    output
        .lines()
        .position(|line| line.contains(marker))
        .map(|index| index + 1)
        .unwrap_or_else(|| panic!("marker {} not found in output:\n{}", marker, output))
}

// C04: for any subset of the default rules, surviving code stays on its original line.
#[test]
fn code_after_a_removed_statement_with_comments_stays_on_its_line() {
    let input = "--[[ header
  spanning
  lines ]]
while false do end -- trailing
print('L5')
print('L6')
";
    let output = run(
        r#"{ "generator": "retain_lines", "rules": ["remove_spaces", "remove_unused_while"] }"#,
        &[("main.lua", input)],
        "main.lua",
    );

    assert_eq!(line_of(&output, "L5"), 5, "output:\n{}", output);
    assert_eq!(line_of(&output, "L6"), 6, "output:\n{}", output);
}

#[test]
fn code_after_a_removed_statement_with_comments_stays_on_its_line_with_a_single_rule() {
    let input = "print('L1')
--[[ m
]] while false do end -- c
print('L4')
print('L5')
";
    let output = run(
        r#"{ "generator": "retain_lines", "rules": ["remove_unused_while"] }"#,
        &[("main.lua", input)],
        "main.lua",
    );

    assert_eq!(line_of(&output, "L4"), 4, "output:\n{}", output);
    assert_eq!(line_of(&output, "L5"), 5, "output:\n{}", output);
}
