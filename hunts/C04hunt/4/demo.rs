use darklua_core::{process, Options, Resources};

/// Runs darklua on in-memory files and returns the generated `out.lua`.
fn run(config: &str, files: &[(&str, &str)], input: &str) -> String {
    let resources = Resources::from_memory();
    resources.write(".darklua.json", config).unwrap();
    for (path, content) in files {
        resources.write(path, content).unwrap();
    }
    process(&resources, Options::new(input).with_output("out.lua"))
        .unwrap()
        .result()
        .unwrap();
    resources.get("out.lua").unwrap()
}

/// 1-based line of the first occurrence of `marker` in `output`.
fn line_of(output: &str, marker: &str) -> usize {
    output
        .lines()
        .position(|line| line.contains(marker))
        .map(|index| index + 1)
        .unwrap_or_else(|| panic!("marker {} not found in output:\n{}", marker, output))
}

const TEXT: &str = "line one of the text
line two of the text
line three of the text file
";

const MODULE: &str = "print('X1')
print('X2')
print('X3')
print('X4')
return nil
";

const MAIN: &str = "local text = require('./data.txt')
local m = require('./module')
print('M3')
";

// C04: bundling shifts every line of a file by the same known amount.
#[test]
fn module_after_a_text_resource_keeps_one_statement_per_line() {
    let output = run(
        r#"{ "generator": "retain_lines", "rules": ["remove_spaces"], "bundle": { "require_mode": "path" } }"#,
        &[
            ("src/main.luau", MAIN),
            ("src/data.txt", TEXT),
            ("src/module.luau", MODULE),
        ],
        "src/main.luau",
    );

    let shift_line_1 = line_of(&output, "X1") - 1;
    let shift_line_2 = line_of(&output, "X2") - 2;
    let shift_line_4 = line_of(&output, "X4") - 4;

    assert_eq!(
        shift_line_1, shift_line_2,
        "line 1 and line 2 of the module are not shifted by the same amount, output:\n{}",
        output
    );
    assert_eq!(
        shift_line_1, shift_line_4,
        "line 1 and line 4 of the module are not shifted by the same amount, output:\n{}",
        output
    );
}
