use darklua_core::{process, Options, Resources};

/// Runs darklua on in-memory files and returns the generated `out.lua`.
fn run(config: &str, files: &[(&str, &str)], input: &str) -> String {
    let resources = Resources::from_memory();
    resources.write(".darklua.json", config).unwrap();
    for (path, content) in files {
        resources.write(path, content).unwrap();
    }
    process(&resources, Options::new(input).with_output("out.lua"))
        .unwrap()
        .result()
        .unwrap();
    resources.get("out.lua").unwrap()
}

/// 1-based line of the first occurrence of `marker` in `output`.
fn line_of(output: &str, marker: &str) -> usize {
    output
        .lines()
        .position(|line| line.contains(marker))
        .map(|index| index + 1)
        .unwrap_or_else(|| panic!("marker {} not found in output:\n{}", marker, output))
}

// C04: for any subset of the default rules, surviving code stays on its original line.
#[test]
fn code_after_a_reordered_nil_declaration_stays_on_its_line() {
    let input = "local a --[[ multi
line
comment ]], b = nil, print('L3')
print('L4')
return a, b
";
    let output = run(
        r#"{ "generator": "retain_lines", "rules": ["remove_spaces", "remove_nil_declaration"] }"#,
        &[("main.lua", input)],
        "main.lua",
    );

    assert_eq!(line_of(&output, "L3"), 3, "output:\n{}", output);
    assert_eq!(line_of(&output, "L4"), 4, "output:\n{}", output);
}

#[test]
fn reordered_variable_stays_on_its_line() {
    // Luau: the type annotations carry the markers of the variables
    let input = "local a: 'L1',
  b: 'L2' = nil,
  f()
return a, b
";
    // default rules without rename_variables
    let output = run(
        r#"{ "generator": "retain_lines", "rules": ["remove_spaces", "remove_comments", "remove_nil_declaration"] }"#,
        &[("main.luau", input)],
        "main.luau",
    );

    assert_eq!(line_of(&output, "L1"), 1, "output:\n{}", output);
}
