//! C13 finding 6: `HexNumber::compute_value` multiplies in `u64` (`integer * 2^exponent`), so a
//! hexadecimal number with a binary exponent overflows: the generators (which call
//! `compute_value` to decide about parentheses) panic in debug builds and silently use a wrapped
//! value in release builds.
use darklua_core::generator::{DenseLuaGenerator, LuaGenerator};
use darklua_core::nodes::{
    BinaryExpression, BinaryOperator, Block, DecimalNumber, HexNumber, NumberExpression,
    ReturnStatement,
};

#[test]
fn hex_number_with_large_exponent_has_a_value() {
    // 1 * 2^64: every reader that accepts `0x1p64` (C99 strtod, so Lua 5.1) gives 18446744073709551616
    let number: NumberExpression = "0x1p64".parse().expect("darklua parses this number");
    assert_eq!(number.compute_value(), 18446744073709551616.0);
}

#[test]
fn generators_can_write_a_hex_number_with_large_exponent() {
    let number = HexNumber::new(0xff, false).with_exponent(60, false);
    let block = Block::default().with_last_statement(ReturnStatement::one(BinaryExpression::new(
        BinaryOperator::Caret,
        number,
        DecimalNumber::new(2.0),
    )));

    let mut dense = DenseLuaGenerator::new(80);
    dense.write_block(&block);
    // only the absence of a panic matters here
    assert!(dense.into_string().starts_with("return"));
}
