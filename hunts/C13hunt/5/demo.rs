//! C13 finding 5: the token based generator writes a string segment without token through
//! `write_symbol`, which inserts a separating space when the previous output character and
//! the first character of the segment would merge as code tokens (`1` + `2`, `.` + `.`,
//! `-` + `-`, `[` + `[` ...). Inside an interpolated string that space becomes part of the value.
use darklua_core::generator::{LuaGenerator, TokenBasedLuaGenerator};
use darklua_core::nodes::{
    Block, Expression, InterpolatedStringExpression, InterpolationSegment, LastStatement,
    ReturnStatement, StringSegment,
};
use darklua_core::Parser;

fn read_back_bytes(code: &str) -> Vec<u8> {
    let block = Parser::default()
        .parse(code)
        .unwrap_or_else(|err| panic!("generated code `{}` cannot be read back: {}", code, err));
    match block.get_last_statement() {
        Some(LastStatement::Return(statement)) => match statement.iter_expressions().next() {
            Some(Expression::InterpolatedString(string)) => string
                .iter_segments()
                .flat_map(|segment| match segment {
                    InterpolationSegment::String(segment) => segment.get_value().to_vec(),
                    InterpolationSegment::Value(_) => panic!("unexpected value segment"),
                })
                .collect(),
            other => panic!("unexpected expression in `{}`: {:?}", code, other),
        },
        other => panic!("unexpected statement in `{}`: {:?}", code, other),
    }
}

#[test]
fn token_based_generator_does_not_add_spaces_inside_an_interpolated_string() {
    for (first, second) in [("a1", "2b"), ("a.", ".b"), ("a-", "-b"), ("a[", "[b"), ("x", "y")] {
        let string = InterpolatedStringExpression::new(vec![
            StringSegment::from_value(first).into(),
            StringSegment::from_value(second).into(),
        ]);
        let block = Block::default().with_last_statement(ReturnStatement::one(string));

        let mut generator = TokenBasedLuaGenerator::new("");
        generator.write_block(&block);
        let code = generator.into_string();

        assert_eq!(
            String::from_utf8_lossy(&read_back_bytes(&code)),
            format!("{}{}", first, second),
            "token based generator wrote {:?}",
            code
        );
    }
}
