//! C13 finding 4: the string segments of an interpolated string are escaped one by one, so a
//! segment ending with a control byte (written `\1`) directly followed by a segment starting
//! with a digit yields `\12`: Luau reads one byte (12) instead of the two bytes 0x01 '2'.
use darklua_core::generator::{DenseLuaGenerator, LuaGenerator, ReadableLuaGenerator};
use darklua_core::nodes::{
    Block, Expression, InterpolatedStringExpression, InterpolationSegment, LastStatement,
    ReturnStatement, StringSegment,
};
use darklua_core::Parser;

fn read_back_bytes(code: &str) -> Vec<u8> {
    let block = Parser::default()
        .parse(code)
        .unwrap_or_else(|err| panic!("generated code `{}` cannot be read back: {}", code, err));
    match block.get_last_statement() {
        Some(LastStatement::Return(statement)) => match statement.iter_expressions().next() {
            Some(Expression::InterpolatedString(string)) => string
                .iter_segments()
                .flat_map(|segment| match segment {
                    InterpolationSegment::String(segment) => segment.get_value().to_vec(),
                    InterpolationSegment::Value(_) => panic!("unexpected value segment"),
                })
                .collect(),
            other => panic!("unexpected expression in `{}`: {:?}", code, other),
        },
        other => panic!("unexpected statement in `{}`: {:?}", code, other),
    }
}

#[test]
fn control_byte_segment_followed_by_digit_segment() {
    let string = InterpolatedStringExpression::new(vec![
        StringSegment::from_value([1_u8]).into(),
        StringSegment::from_value("2").into(),
    ]);
    let block = Block::default().with_last_statement(ReturnStatement::one(string));

    let mut dense = DenseLuaGenerator::new(80);
    dense.write_block(&block);
    let dense_code = dense.into_string();
    assert_eq!(
        read_back_bytes(&dense_code),
        vec![1_u8, b'2'],
        "dense wrote {:?}",
        dense_code
    );

    let mut readable = ReadableLuaGenerator::new(80);
    readable.write_block(&block);
    let readable_code = readable.into_string();
    assert_eq!(
        read_back_bytes(&readable_code),
        vec![1_u8, b'2'],
        "readable wrote {:?}",
        readable_code
    );
}
