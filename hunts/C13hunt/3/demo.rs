//! C13 finding 3: a hexadecimal number with a binary exponent (`HexNumber::with_exponent`, or
//! `"0x12p4".parse::<NumberExpression>()`) is written as `0x12p4`, a spelling Luau rejects
//! (`Malformed number`) and that darklua's own parser cannot read back.
use darklua_core::generator::{DenseLuaGenerator, LuaGenerator, ReadableLuaGenerator, TokenBasedLuaGenerator};
use darklua_core::nodes::{Block, Expression, HexNumber, LastStatement, NumberExpression, ReturnStatement};
use darklua_core::Parser;

fn read_back(code: &str) -> f64 {
    let block = Parser::default()
        .parse(code)
        .unwrap_or_else(|err| panic!("generated code `{}` cannot be read back: {}", code, err));
    match block.get_last_statement() {
        Some(LastStatement::Return(statement)) => match statement.iter_expressions().next() {
            Some(Expression::Number(number)) => number.compute_value(),
            other => panic!("unexpected expression in `{}`: {:?}", code, other),
        },
        other => panic!("unexpected statement in `{}`: {:?}", code, other),
    }
}

#[test]
fn hex_number_with_exponent_is_written_in_a_form_luau_reads() {
    let number: NumberExpression = "0x12p4".parse().expect("darklua parses this number");
    assert_eq!(number, HexNumber::new(0x12, false).with_exponent(4, false).into());
    assert_eq!(number.compute_value(), 288.0);

    let block = Block::default().with_last_statement(ReturnStatement::one(number));

    let mut dense = DenseLuaGenerator::new(80);
    dense.write_block(&block);
    assert_eq!(read_back(&dense.into_string()), 288.0);

    let mut readable = ReadableLuaGenerator::new(80);
    readable.write_block(&block);
    assert_eq!(read_back(&readable.into_string()), 288.0);

    let mut token_based = TokenBasedLuaGenerator::new("");
    token_based.write_block(&block);
    assert_eq!(read_back(&token_based.into_string()), 288.0);
}
