//! C13 finding 1: `\z` does not skip a vertical tab (0x0B) although Luau's `isSpace` does,
//! so a literal read by darklua and written back holds different bytes than what Luau reads.
use darklua_core::generator::{DenseLuaGenerator, LuaGenerator, ReadableLuaGenerator};
use darklua_core::nodes::{Block, Expression, LastStatement};
use darklua_core::Parser;

fn returned_string(block: &Block) -> Vec<u8> {
    match block.get_last_statement() {
        Some(LastStatement::Return(statement)) => match statement.iter_expressions().next() {
            Some(Expression::String(string)) => string.get_value().to_vec(),
            other => panic!("unexpected returned expression: {:?}", other),
        },
        other => panic!("unexpected last statement: {:?}", other),
    }
}

#[test]
fn backslash_z_skips_vertical_tab_like_luau() {
    // source text is: return "a\z<VT> b"   (a raw vertical tab, byte 0x0B, then a space)
    let code = "return \"a\\z\u{b} b\"";

    let block = Parser::default().parse(code).expect("valid Luau code");

    // Luau (Lexer.cpp `isSpace`: ' ', '\t', '\r', '\n', '\v', '\f') skips the vertical tab and
    // the space: the string is the two bytes `ab`
    assert_eq!(
        returned_string(&block),
        b"ab".to_vec(),
        "`\\z` must skip every character Luau considers a space, including \\v"
    );

    let mut dense = DenseLuaGenerator::new(80);
    dense.write_block(&block);
    assert_eq!(dense.into_string(), "return'ab'");

    let mut readable = ReadableLuaGenerator::new(80);
    readable.write_block(&block);
    assert_eq!(readable.into_string(), "return 'ab'\n");
}
