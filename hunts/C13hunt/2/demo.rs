//! C13 finding 2: the token based generator panics on an interpolated string whose string
//! segment has an empty value (what `\z` followed by spaces produces) when the segment has no
//! token: `write_symbol` is called with an empty string.
use darklua_core::generator::{DenseLuaGenerator, LuaGenerator, TokenBasedLuaGenerator};
use darklua_core::Parser;

#[test]
fn token_based_generator_writes_interpolated_string_with_empty_segment() {
    // `\z` skips the following spaces: the first string segment is the empty string
    let code = "return `\\z  {x}`";

    // the default parser does not keep tokens (this is how the `dense` and `readable`
    // pipelines parse code, and how the generator snapshot tests use the token based generator)
    let block = Parser::default().parse(code).expect("valid Luau code");

    let mut dense = DenseLuaGenerator::new(80);
    dense.write_block(&block);
    assert_eq!(dense.into_string(), "return`{x}`");

    let mut generator = TokenBasedLuaGenerator::new(code);
    // panics with `symbol cannot be empty` on the unmodified tree
    generator.write_block(&block);
    let output = generator.into_string();

    let mut dense = DenseLuaGenerator::new(80);
    dense.write_block(&Parser::default().parse(&output).expect("generated code must be valid"));
    assert_eq!(dense.into_string(), "return`{x}`");
}

#[test]
fn token_based_generator_writes_empty_segment_built_with_the_api() {
    use darklua_core::nodes::{
        Block, Expression, InterpolatedStringExpression, ReturnStatement, StringSegment,
        ValueSegment,
    };

    let string = InterpolatedStringExpression::new(vec![
        StringSegment::from_value("").into(),
        ValueSegment::new(Expression::identifier("x")).into(),
    ]);
    let block = Block::default().with_last_statement(ReturnStatement::one(string));

    let mut generator = TokenBasedLuaGenerator::new("");
    generator.write_block(&block);
    assert_eq!(generator.into_string(), "return `{x}`");
}
