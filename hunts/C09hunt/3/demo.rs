use darklua_core::generator::{LuaGenerator, ReadableLuaGenerator};
use darklua_core::rules::{ContextBuilder, Rule};
use darklua_core::{Parser, Resources};

fn generate(block: &darklua_core::nodes::Block) -> String {
    let mut generator = ReadableLuaGenerator::new(80);
    generator.write_block(block);
    generator.into_string()
}

/// Parses `code`, applies `rename_variables` (default `$default` globals, global
/// detection on) and regenerates the code.
fn rename(code: &str, include_functions: bool) -> String {
    let rule: Box<dyn Rule> = json5::from_str(&format!(
        "{{ rule: 'rename_variables', include_functions: {} }}",
        include_functions
    ))
    .expect("valid rule configuration");

    let mut block = Parser::default().parse(code).expect("input should parse");
    let resources = Resources::from_memory();
    let context = ContextBuilder::new("src/test.lua", &resources, code).build();
    rule.process(&mut block, &context).expect("rule should succeed");
    generate(&block)
}

/// Normalizes the expected code through the same parser and generator.
fn normalize(code: &str) -> String {
    generate(&Parser::default().parse(code).expect("expected code should parse"))
}

// C09: in Luau, the name of a `local function` is declared after its parameter
// list and return type have been parsed (Parser::parseFunctionBody pushes the
// function local after parseBindingList/parseOptionalReturnType), so `typeof(f)`
// in the signature refers to the OUTER local `f`.
#[test]
fn local_function_signature_refers_to_the_outer_local() {
    let input = "local f = 1\nlocal function f(p: typeof(f)): typeof(f)\n\treturn p\nend\nreturn f\n";

    let output = rename(input, true);
    let expected =
        normalize("local a = 1\nlocal function b(c: typeof(a)): typeof(a)\n\treturn c\nend\nreturn b\n");

    assert_eq!(
        output, expected,
        "`typeof(f)` in the signature must keep referring to the outer local"
    );
}
