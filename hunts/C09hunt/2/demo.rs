use darklua_core::generator::{LuaGenerator, ReadableLuaGenerator};
use darklua_core::rules::{ContextBuilder, Rule};
use darklua_core::{Parser, Resources};

fn generate(block: &darklua_core::nodes::Block) -> String {
    let mut generator = ReadableLuaGenerator::new(80);
    generator.write_block(block);
    generator.into_string()
}

/// Parses `code`, applies `rename_variables` (default `$default` globals, global
/// detection on) and regenerates the code.
fn rename(code: &str, include_functions: bool) -> String {
    let rule: Box<dyn Rule> = json5::from_str(&format!(
        "{{ rule: 'rename_variables', include_functions: {} }}",
        include_functions
    ))
    .expect("valid rule configuration");

    let mut block = Parser::default().parse(code).expect("input should parse");
    let resources = Resources::from_memory();
    let context = ContextBuilder::new("src/test.lua", &resources, code).build();
    rule.process(&mut block, &context).expect("rule should succeed");
    generate(&block)
}

/// Normalizes the expected code through the same parser and generator.
fn normalize(code: &str) -> String {
    generate(&Parser::default().parse(code).expect("expected code should parse"))
}

// C09: in Luau the annotations of the variables of a generic for are parsed
// before the loop variables are declared, so `typeof(k)` refers to the OUTER
// local `k`, not to the loop variable being declared.
#[test]
fn generic_for_annotation_refers_to_the_outer_local() {
    let input = "local k = 1\nfor k: typeof(k) in pairs(t) do\n\tprint(k)\nend\nreturn k\n";

    let output = rename(input, false);
    let expected = normalize("local a = 1\nfor b: typeof(a) in pairs(t) do\n\tprint(b)\nend\nreturn a\n");

    assert_eq!(
        output, expected,
        "`typeof(k)` in the annotation must keep referring to the outer local"
    );
}
