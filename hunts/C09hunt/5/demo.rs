use darklua_core::generator::{LuaGenerator, ReadableLuaGenerator};
use darklua_core::rules::{ContextBuilder, Rule};
use darklua_core::{Parser, Resources};

fn generate(block: &darklua_core::nodes::Block) -> String {
    let mut generator = ReadableLuaGenerator::new(80);
    generator.write_block(block);
    generator.into_string()
}

/// Parses `code`, applies `rename_variables` (default `$default` globals, global
/// detection on) and regenerates the code.
fn rename(code: &str, include_functions: bool) -> String {
    let rule: Box<dyn Rule> = json5::from_str(&format!(
        "{{ rule: 'rename_variables', include_functions: {} }}",
        include_functions
    ))
    .expect("valid rule configuration");

    let mut block = Parser::default().parse(code).expect("input should parse");
    let resources = Resources::from_memory();
    let context = ContextBuilder::new("src/test.lua", &resources, code).build();
    rule.process(&mut block, &context).expect("rule should succeed");
    generate(&block)
}

/// Normalizes the expected code through the same parser and generator.
fn normalize(code: &str) -> String {
    generate(&Parser::default().parse(code).expect("expected code should parse"))
}

// C09: in Lua 5.1 (LUA_COMPAT_VARARG, enabled in the stock luaconf.h) every
// vararg function declares an implicit parameter named `arg` (lparser.c,
// parlist: `new_localvarliteral(ls, "arg", nparams++)`). Inside `f`, `arg` is
// that implicit local and not the outer local `arg`, so it must not follow the
// renaming of the outer local.
#[test]
fn implicit_arg_of_vararg_function_is_not_the_outer_local() {
    let input = "local arg = 1\nlocal function f(...)\n\treturn arg\nend\nreturn f(2, 3), arg\n";

    let output = rename(input, false);
    let expected =
        normalize("local a = 1\nlocal function f(...)\n\treturn arg\nend\nreturn f(2, 3), a\n");

    assert_eq!(
        output, expected,
        "`arg` inside a vararg function is the implicit Lua 5.1 parameter"
    );
}
