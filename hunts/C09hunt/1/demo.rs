use darklua_core::generator::{LuaGenerator, ReadableLuaGenerator};
use darklua_core::rules::{ContextBuilder, Rule};
use darklua_core::{Parser, Resources};

fn generate(block: &darklua_core::nodes::Block) -> String {
    let mut generator = ReadableLuaGenerator::new(80);
    generator.write_block(block);
    generator.into_string()
}

/// Parses `code`, applies `rename_variables` (default `$default` globals, global
/// detection on) and regenerates the code.
fn rename(code: &str, include_functions: bool) -> String {
    let rule: Box<dyn Rule> = json5::from_str(&format!(
        "{{ rule: 'rename_variables', include_functions: {} }}",
        include_functions
    ))
    .expect("valid rule configuration");

    let mut block = Parser::default().parse(code).expect("input should parse");
    let resources = Resources::from_memory();
    let context = ContextBuilder::new("src/test.lua", &resources, code).build();
    rule.process(&mut block, &context).expect("rule should succeed");
    generate(&block)
}

/// Normalizes the expected code through the same parser and generator.
fn normalize(code: &str) -> String {
    generate(&Parser::default().parse(code).expect("expected code should parse"))
}

// C09: a type function parameter shadows an outer local of the same name. The
// occurrence of `x` in the body refers to the parameter, so it must keep
// referring to the parameter after renaming.
#[test]
fn type_function_parameter_keeps_its_binding() {
    let input = "local x = 1\ntype function f(x)\n\treturn x\nend\nreturn x\n";

    for include_functions in [false, true] {
        let output = rename(input, include_functions);

        // either the parameter is left alone (and so is its use), or both are renamed
        // to the same fresh name, different from the name given to the outer local
        let valid = [
            normalize("local a = 1\ntype function f(x)\n\treturn x\nend\nreturn a\n"),
            normalize("local a = 1\ntype function f(b)\n\treturn b\nend\nreturn a\n"),
        ];
        assert!(
            valid.contains(&output),
            "the `x` returned by the type function must still be its parameter, got:\n{}",
            output
        );
    }
}
