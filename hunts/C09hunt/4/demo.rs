use darklua_core::generator::{LuaGenerator, ReadableLuaGenerator};
use darklua_core::rules::{ContextBuilder, Rule};
use darklua_core::{Parser, Resources};

fn generate(block: &darklua_core::nodes::Block) -> String {
    let mut generator = ReadableLuaGenerator::new(80);
    generator.write_block(block);
    generator.into_string()
}

/// Parses `code`, applies `rename_variables` (default `$default` globals, global
/// detection on) and regenerates the code.
fn rename(code: &str, include_functions: bool) -> String {
    let rule: Box<dyn Rule> = json5::from_str(&format!(
        "{{ rule: 'rename_variables', include_functions: {} }}",
        include_functions
    ))
    .expect("valid rule configuration");

    let mut block = Parser::default().parse(code).expect("input should parse");
    let resources = Resources::from_memory();
    let context = ContextBuilder::new("src/test.lua", &resources, code).build();
    rule.process(&mut block, &context).expect("rule should succeed");
    generate(&block)
}

/// Normalizes the expected code through the same parser and generator.
fn normalize(code: &str) -> String {
    generate(&Parser::default().parse(code).expect("expected code should parse"))
}

// C09: Luau resolves the prefix of a qualified type `M.T` through the scope's
// imported type bindings, which are only created by `local M = require(...)`.
// A local that merely has the same name (here the parameter `M`) does not
// shadow the import, so `M.T` still designates the required module. The prefix
// must therefore follow the name given to the `require` local.
#[test]
fn type_namespace_follows_the_require_local() {
    let input = "local M = require(script.M)\nlocal function f(M)\n\tlocal v: M.T = M\n\treturn v\nend\nreturn f, M\n";

    let output = rename(input, true);
    let expected = normalize(
        "local a = require(script.M)\nlocal function b(c)\n\tlocal d: a.T = c\n\treturn d\nend\nreturn b, a\n",
    );

    assert_eq!(
        output, expected,
        "the namespace of `M.T` is the module imported by the require local"
    );
}
